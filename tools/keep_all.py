#!/usr/bin/env python3
"""tools/keep_all.py <matrix.log> <confirm logs...> -- <sid>=<out-dir> ... : store confirmed seeded changes under seeded/<sid>/
with caught_by taken from the seed x check matrix and the confirmation line from the logs."""
import glob, json, os, re, shutil, sys
here = os.path.dirname(os.path.dirname(os.path.abspath(__file__)))
args = sys.argv[1:]
sep = args.index("--")
matrix, logs, pairs = args[0], args[1:sep], args[sep + 1:]
notes = json.load(open(os.path.join(here, "tools", "seed_notes.json")))
mx = {}
cur = None
for line in open(matrix):
    m = re.match(r"== (\S+)", line)
    if m:
        cur = m.group(1); mx[cur] = []
        continue
    m = re.match(r"\s+(C\d+):\s*(.*)", line)
    if m and cur:
        if m.group(2).strip() == "BROKEN":
            continue
        for r in sorted(set(m.group(2).split())):
            mx[cur].append("%s.%s" % (m.group(1), r))
conf = {}
for lg in logs:
    cur = None
    for line in open(lg):
        m = re.match(r"== (\S+)", line)
        if m:
            cur = m.group(1)
        elif line.startswith("RESULT") and cur:
            conf[cur] = line.strip()
for pr in pairs:
    sid, out = pr.split("=")
    key = os.path.basename(out.rstrip("/")).replace("out2-", "").replace("out-", "") if sid not in conf else sid
    c = conf.get(sid) or conf.get(key)
    if not c or "demo_exit_with_change=1 demo_exit_without_change=0" not in c or "0 tests failed" not in c:
        print("NOT CONFIRMED", sid, c); continue
    dst = os.path.join(here, "seeded", sid)
    os.makedirs(dst, exist_ok=True)
    for f in glob.glob(os.path.join(out, "*")):
        if os.path.isfile(f) and os.path.getsize(f) < 300000:
            shutil.copy(f, dst)
    meta = json.load(open(os.path.join(out, "meta.json")))
    meta["confirmed_by_me"] = {"how": "tools/confirm_seed.sh: fresh scratch worktree of /repo HEAD; with the change: optim build of all 5 back-ends, ctest, demo; "
                                      "without it: rebuild, demo", "result": c}
    meta["caught_by"] = mx.get(sid, [])
    if sid in notes:
        meta["before_strengthening"] = notes[sid]
    json.dump(meta, open(os.path.join(dst, "meta.json"), "w"), indent=1)
    print("kept", sid, meta["caught_by"])
