#!/usr/bin/env python3
"""tools/keep_seed.py <ID> <out-dir> <confirm-result-line> <caught-by: comma list of Cnn.Rk> [what was missed before strengthening]: store a confirmed seeded change under seeded/<ID>/"""
import json, os, shutil, sys, glob
sid, out, confirm, caught = sys.argv[1:5]
here = os.path.dirname(os.path.dirname(os.path.abspath(__file__)))
dst = os.path.join(here, "seeded", sid)
os.makedirs(dst, exist_ok=True)
for f in glob.glob(os.path.join(out, "*")):
    if os.path.isfile(f) and os.path.getsize(f) < 200000:
        shutil.copy(f, dst)
meta = json.load(open(os.path.join(out, "meta.json")))
meta["confirmed_by_me"] = {"how": "tools/confirm_seed.sh: fresh scratch worktree of /repo HEAD, patch applied, optim build of all 5 back-ends + ctest, demo; then patch reversed, rebuild, demo",
                           "result": confirm}
meta["caught_by"] = [c for c in caught.split(",") if c]
if len(sys.argv) > 5:
    meta["missed_before_strengthening"] = sys.argv[5]
json.dump(meta, open(os.path.join(dst, "meta.json"), "w"), indent=1)
print("kept", sid)
