#!/usr/bin/env python3
"""Regenerates MANIFEST.json from rules/registry.json (single source of truth for what is claimed)."""
import json, os
here = os.path.dirname(os.path.dirname(os.path.abspath(__file__)))
reg = json.load(open(os.path.join(here, "rules", "registry.json")))
props = [json.loads(l) for l in open(os.path.join(here, "properties.jsonl"))]
checks, na = [], []
for p in props:
    pid = p["id"]
    r = reg.get(pid)
    if r and r.get("claimed"):
        checks.append({
            "property_id": pid,
            "quick_cmd": "bin/check %s" % pid,
            "thorough_cmd": "bin/check %s --thorough" % pid,
            "evidence_file": "evidence/%s.json" % pid,
            "replay_cmd_template": "bin/check --replay {path}",
            "engine": "tfhe-sa",
            "level_claimed": {"category": "other", "text": r["level_text"], "design_ref": r.get("design_ref", "DESIGN.md §5 " + pid)},
            "level_note": r["level_note"],
            "technique": r["technique"],
        })
    else:
        na.append({"property_id": pid, "reason": (r or {}).get("reason", "no check built yet for this property")})
m = {
    "version": 1,
    "setup_cmd": "bin/setup",
    "hooks": {
        "guard": "TFHE_VERIF",
        "enable": "none needed: the analyses parse the unmodified sources with the build's own flags (no hook code exists in /repo)",
        "baseline_off_cmd": "bin/baseline",
        "source_commits": [],
        "add_only": True,
    },
    "engines": [{
        "name": "tfhe-sa",
        "path": "bin/check",
        "serves_properties": [c["property_id"] for c in checks],
        "kind_free_text": "static analysis: LibTooling fact extractor (tools/tfhe-facts.cc) over the cmake compilation database of "
                          "5 back-ends x 2 builds + Python rule engine (symbolic executor, call graph, effects, op-sequence, "
                          "bit-field/affine normal forms, AT&T asm front end); nothing from /repo is executed",
    }],
    "checks": checks,
    "not_applicable": na,
    "notes": "exit 0 pass / exit 1 + VIOLATION line / exit 2 analysis broken (anchor vanished, instance count below the confirmed minimum, unrecognised shape). Known findings: known_findings.txt.",
}
json.dump(m, open(os.path.join(here, "MANIFEST.json"), "w"), indent=1)
print("claimed:", [c["property_id"] for c in checks])
