#!/bin/sh
# tools/confirm_seed.sh <out-dir with patch.diff + demo.cpp> <backend> [build-type]
# Independent confirmation of a seeded change in a scratch worktree of /repo (removed afterwards):
#   with the change: builds, the existing suite passes, the demo FAILS;  without it: the demo PASSES.
set -u
OUT=$1; BE=${2:-spqlios-fma}; CFG=${3:-optim}
W=$(mktemp -d /tmp/confirm.XXXXXX)
git -C /repo worktree add -q --detach "$W/wt" HEAD || exit 3
cp -r /repo/src/test/googletest/. "$W/wt/src/test/googletest/"
res=""
build() { # $1 = dir
  cmake -G Ninja -S "$W/wt/src" -B "$1" -DCMAKE_BUILD_TYPE=$CFG -DENABLE_TESTS=on -DENABLE_FFTW=on -DENABLE_NAYUKI_PORTABLE=on \
     -DENABLE_NAYUKI_AVX=on -DENABLE_SPQLIOS_AVX=on -DENABLE_SPQLIOS_FMA=on >/dev/null 2>&1 && cmake --build "$1" -j 16 >"$1/build.log" 2>&1
}
demo() { # $1 = build dir
  g++ -std=gnu++11 -O1 -g -pthread -I"$W/wt/src/include" "$OUT/demo.cpp" -L"$1/libtfhe" -ltfhe-$BE -Wl,-rpath,"$1/libtfhe" -o "$1/demo" 2>"$1/demo.build" || { echo "demo-build-failed"; return 9; }
  timeout 300 "$1/demo" >"$1/demo.out" 2>&1; echo $?
}
(cd "$W/wt" && git apply "$OUT/patch.diff") || { echo "RESULT patch-does-not-apply"; git -C /repo worktree remove --force "$W/wt"; rm -rf "$W"; exit 2; }
if build "$W/b1"; then
  t=$(ctest --test-dir "$W/b1" -j8 2>&1 | grep -E "tests passed|tests failed" | head -1)
  d1=$(demo "$W/b1")
else t="BUILD FAILED"; d1="-"; fi
(cd "$W/wt" && git apply -R "$OUT/patch.diff")
if build "$W/b2"; then d2=$(demo "$W/b2"); else d2="BUILD FAILED"; fi
echo "RESULT suite_with_change='$t' demo_exit_with_change=$d1 demo_exit_without_change=$d2"
tail -2 "$W/b1/demo.out" 2>/dev/null | cut -c1-200
git -C /repo worktree remove --force "$W/wt"; rm -rf "$W"
