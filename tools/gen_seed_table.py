#!/usr/bin/env python3
"""prints the markdown table of DESIGN.md section 10 from seeded/*/meta.json"""
import glob, json, os
here = os.path.dirname(os.path.dirname(os.path.abspath(__file__)))
rows = []
for mf in sorted(glob.glob(os.path.join(here, "seeded", "*", "meta.json"))):
    sid = os.path.basename(os.path.dirname(mf))
    m = json.load(open(mf))
    esc = lambda t: str(t).replace("|", "\\|").replace("\n", " ")
    own = m.get("property", sid[:3])
    cb = m.get("caught_by", [])
    mine = [c for c in cb if c.startswith(own + ".")]
    others = [c for c in cb if not c.startswith(own + ".")]
    rows.append("| %s | %s | %s | %s | %s%s |" % (
        sid, esc(m.get("summary", ""))[:330], esc(m.get("needs_to_manifest", ""))[:240], esc(m.get("before_strengthening", ""))[:420],
        ", ".join(mine) or "—", ("; also " + ", ".join(others)) if others else ""))
print("| seed | change (as reported by its author) | needs, to manifest | checks when it arrived, and what was done | reported now by |")
print("|---|---|---|---|---|")
print("\n".join(rows))
