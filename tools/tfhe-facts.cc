// tfhe-facts: serialise the type-checked AST of one translation unit of
// tfhe/tfhe into a compact JSON "facts" file.  No property logic lives here.
//
// usage: tfhe-facts <out.json> <srcroot> <file> -- <compiler args...>
//
// Emitted for declarations located under <srcroot> (googletest excluded):
//   functions (decl + body tree), static/thread storage variables,
//   record layouts, enum constants.
#include "clang/AST/ASTConsumer.h"
#include "clang/AST/ASTContext.h"
#include "clang/AST/Attr.h"
#include "clang/AST/DeclCXX.h"
#include "clang/AST/DeclTemplate.h"
#include "clang/AST/Expr.h"
#include "clang/AST/ExprCXX.h"
#include "clang/AST/RecordLayout.h"
#include "clang/AST/Stmt.h"
#include "clang/AST/StmtCXX.h"
#include "clang/Basic/SourceManager.h"
#include "clang/Frontend/CompilerInstance.h"
#include "clang/Frontend/FrontendAction.h"
#include "clang/Index/USRGeneration.h"
#include "clang/Tooling/CompilationDatabase.h"
#include "clang/Tooling/Tooling.h"
#include "llvm/ADT/SmallString.h"
#include "llvm/Support/JSON.h"
#include "llvm/Support/raw_ostream.h"
#include <map>
#include <set>
#include <string>

using namespace clang;
using llvm::json::OStream;

static std::string gOut, gRoot;

namespace {

class Dumper {
  ASTContext &Ctx;
  SourceManager &SM;
  OStream &J;
  PrintingPolicy PP;
  std::set<const void *> SeenFns, SeenRecs, SeenVars;
  std::map<const void *, int64_t> Ids;
  unsigned Unresolved = 0;
  int64_t idOf(const Decl *D) {
    auto It = Ids.find(D->getCanonicalDecl());
    if (It != Ids.end()) return It->second;
    int64_t N = (int64_t)Ids.size() + 1;
    Ids[D->getCanonicalDecl()] = N;
    return N;
  }

public:
  Dumper(ASTContext &C, OStream &J)
      : Ctx(C), SM(C.getSourceManager()), J(J), PP(C.getLangOpts()) {
    PP.SuppressTagKeyword = true;
    PP.Bool = true;
  }

  // ---------- helpers ----------
  std::string fileOf(SourceLocation L) {
    if (L.isInvalid()) return "";
    SourceLocation E = SM.getExpansionLoc(L);
    PresumedLoc P = SM.getPresumedLoc(E);
    if (P.isInvalid()) return "";
    llvm::SmallString<256> Path(P.getFilename());
    SM.getFileManager().makeAbsolutePath(Path);
    llvm::sys::path::remove_dots(Path, true);
    return std::string(Path.str());
  }
  bool inRoot(SourceLocation L) {
    std::string F = fileOf(L);
    if (F.compare(0, gRoot.size(), gRoot) != 0) return false;
    if (F.find("/googletest/") != std::string::npos) return false;
    return true;
  }
  std::string locStr(SourceLocation L) {
    if (L.isInvalid()) return "";
    SourceLocation E = SM.getExpansionLoc(L);
    PresumedLoc P = SM.getPresumedLoc(E);
    if (P.isInvalid()) return "";
    std::string F = fileOf(L);
    if (F.compare(0, gRoot.size(), gRoot) == 0) F = F.substr(gRoot.size());
    return F + ":" + std::to_string(P.getLine()) + ":" + std::to_string(P.getColumn());
  }
  unsigned lineOf(SourceLocation L) {
    if (L.isInvalid()) return 0;
    return SM.getExpansionLineNumber(L);
  }
  std::string ty(QualType T) {
    if (T.isNull()) return "";
    return T.getCanonicalType().getAsString(PP);
  }
  std::string tySugar(QualType T) {
    if (T.isNull()) return "";
    return T.getAsString(PP);
  }
  std::string usr(const Decl *D) {
    llvm::SmallString<128> Buf;
    if (index::generateUSRForDecl(D, Buf)) return "";
    return std::string(Buf.str());
  }
  std::string qname(const NamedDecl *D) {
    std::string S;
    llvm::raw_string_ostream OS(S);
    D->printQualifiedName(OS, PP);
    OS.flush();
    return S;
  }
  static bool pointeeConst(QualType T) {
    T = T.getCanonicalType();
    if (T->isPointerType() || T->isReferenceType())
      return T->getPointeeType().isConstQualified();
    return false;
  }
  static bool dropsConst(QualType From, QualType To) {
    From = From.getCanonicalType();
    To = To.getCanonicalType();
    while ((From->isPointerType() || From->isReferenceType()) &&
           (To->isPointerType() || To->isReferenceType())) {
      From = From->getPointeeType();
      To = To->getPointeeType();
      if (From.isConstQualified() && !To.isConstQualified()) return true;
    }
    return false;
  }
  bool isExternC(const FunctionDecl *F) { return F->isExternC(); }

  // ---------- expressions ----------
  void refKind(const ValueDecl *D) {
    if (auto *V = dyn_cast<VarDecl>(D)) {
      const char *K = "local";
      if (isa<ParmVarDecl>(V)) K = "param";
      else if (V->getTLSKind() != VarDecl::TLS_None) K = "tls";
      else if (V->isStaticLocal()) K = "static_local";
      else if (V->isStaticDataMember()) K = "class_static";
      else if (V->hasGlobalStorage()) K = "global";
      J.attribute("rk", K);
      J.attribute("id", idOf(V));
      if (V->hasGlobalStorage()) J.attribute("q", qname(V));
      if (V->getType().isConstQualified()) J.attribute("const", true);
    } else if (isa<EnumConstantDecl>(D)) {
      J.attribute("rk", "enum");
    } else if (isa<FunctionDecl>(D)) {
      J.attribute("rk", "func");
      J.attribute("q", qname(D));
    } else if (isa<FieldDecl>(D)) {
      J.attribute("rk", "field");
    } else {
      J.attribute("rk", "other");
    }
  }

  // indices of arguments bound to non-const lvalue-reference parameters (the callee may write them)
  void refArgs(const FunctionDecl *FD, unsigned NumArgs, unsigned Offset) {
    if (!FD) return;
    J.attributeArray("refargs", [&] {
      for (unsigned i = 0; i < FD->getNumParams() && i + Offset < NumArgs; ++i) {
        QualType T = FD->getParamDecl(i)->getType();
        if (T->isLValueReferenceType() && !T->getPointeeType().isConstQualified())
          J.value((int64_t)(i + Offset));
      }
    });
  }

  void tryConst(const Expr *E) {
    if (E->isValueDependent() || E->isTypeDependent()) return;
    if (!E->getType()->isIntegralOrEnumerationType()) {
      if (E->getType()->isRealFloatingType()) {
        Expr::EvalResult R;
        if (E->EvaluateAsRValue(R, Ctx) && !R.HasSideEffects && R.Val.isFloat()) {
          llvm::SmallString<32> S;
          R.Val.getFloat().toString(S, 0, 0);
          J.attribute("cv", S.str());
          if (R.Val.getFloat().isFinite())
            J.attribute("cvd", R.Val.getFloat().convertToDouble());
        }
      }
      return;
    }
    Expr::EvalResult R;
    if (E->EvaluateAsInt(R, Ctx, Expr::SE_NoSideEffects) && R.Val.isInt()) {
      llvm::SmallString<32> S;
      R.Val.getInt().toString(S, 10);
      J.attribute("cv", S.str());
    }
  }

  void expr(const Expr *E) {
    if (!E) { J.value(nullptr); return; }
    // look through wrappers that carry no meaning for the rules
    while (true) {
      if (auto *P = dyn_cast<ParenExpr>(E)) { E = P->getSubExpr(); continue; }
      if (auto *P = dyn_cast<ExprWithCleanups>(E)) { E = P->getSubExpr(); continue; }
      if (auto *P = dyn_cast<MaterializeTemporaryExpr>(E)) { E = P->getSubExpr(); continue; }
      if (auto *P = dyn_cast<CXXBindTemporaryExpr>(E)) { E = P->getSubExpr(); continue; }
      if (auto *P = dyn_cast<ConstantExpr>(E)) { E = P->getSubExpr(); continue; }
      if (auto *P = dyn_cast<ImplicitCastExpr>(E)) {
        CastKind K = P->getCastKind();
        if (K == CK_LValueToRValue || K == CK_NoOp || K == CK_ArrayToPointerDecay ||
            K == CK_FunctionToPointerDecay || K == CK_NullToPointer ||
            K == CK_DerivedToBase || K == CK_UncheckedDerivedToBase ||
            K == CK_ConstructorConversion || K == CK_UserDefinedConversion ||
            K == CK_BuiltinFnToFnPtr) {
          E = P->getSubExpr();
          continue;
        }
      }
      break;
    }
    J.object([&] {
      J.attribute("l", lineOf(E->getExprLoc()));
      if (auto *B = dyn_cast<BinaryOperator>(E)) {
        if (B->isAssignmentOp()) {
          J.attribute("k", "assign");
          J.attribute("op", B->getOpcodeStr());
        } else {
          J.attribute("k", "bin");
          J.attribute("op", B->getOpcodeStr());
        }
        J.attribute("t", ty(B->getType()));
        if (auto *CA = dyn_cast<CompoundAssignOperator>(B))
          J.attribute("ct", ty(CA->getComputationResultType()));
        J.attributeBegin("a"); expr(B->getLHS()); J.attributeEnd();
        J.attributeBegin("b"); expr(B->getRHS()); J.attributeEnd();
        if (!B->isAssignmentOp()) tryConst(E);
      } else if (auto *U = dyn_cast<UnaryOperator>(E)) {
        J.attribute("k", "un");
        J.attribute("op", UnaryOperator::getOpcodeStr(U->getOpcode()));
        if (U->isPostfix()) J.attribute("post", true);
        J.attribute("t", ty(U->getType()));
        J.attributeBegin("a"); expr(U->getSubExpr()); J.attributeEnd();
        if (!U->isIncrementDecrementOp() && U->getOpcode() != UO_AddrOf &&
            U->getOpcode() != UO_Deref)
          tryConst(E);
      } else if (auto *OC = dyn_cast<CXXOperatorCallExpr>(E)) {
        J.attribute("k", "opcall");
        J.attribute("op", getOperatorSpelling(OC->getOperator()));
        J.attribute("t", ty(OC->getType()));
        if (auto *FD = OC->getDirectCallee()) {
          J.attribute("callee", qname(FD));
          J.attribute("cusr", usr(FD));
          refArgs(FD, OC->getNumArgs(), isa<CXXMethodDecl>(FD) ? 1 : 0);
        }
        J.attributeArray("args", [&] { for (auto *A : OC->arguments()) expr(A); });
      } else if (auto *MC = dyn_cast<CXXMemberCallExpr>(E)) {
        J.attribute("k", "mcall");
        J.attribute("t", ty(MC->getType()));
        if (auto *MD = MC->getMethodDecl()) {
          J.attribute("callee", qname(MD));
          J.attribute("cusr", usr(MD));
          J.attribute("method", MD->getNameAsString());
          if (MD->isVirtual()) J.attribute("virtual", true);
          if (auto *RD = MD->getParent()) J.attribute("record", qname(RD));
          refArgs(MD, MC->getNumArgs(), 0);
        } else {
          Unresolved++;
          J.attribute("unresolved", true);
        }
        J.attributeBegin("obj"); expr(MC->getImplicitObjectArgument()); J.attributeEnd();
        if (auto *ME = dyn_cast<MemberExpr>(MC->getCallee()->IgnoreParens()))
          J.attribute("arrow", ME->isArrow());
        J.attributeArray("args", [&] { for (auto *A : MC->arguments()) expr(A); });
      } else if (auto *C = dyn_cast<CallExpr>(E)) {
        J.attribute("k", "call");
        J.attribute("t", ty(C->getType()));
        if (auto *FD = C->getDirectCallee()) {
          J.attribute("callee", qname(FD));
          J.attribute("cusr", usr(FD));
          if (FD->isNoReturn()) J.attribute("noreturn", true);
          if (unsigned BI = FD->getBuiltinID()) J.attribute("builtin", (int64_t)BI);
          refArgs(FD, C->getNumArgs(), 0);
        } else {
          Unresolved++;
          J.attribute("unresolved", true);
          J.attributeBegin("fn"); expr(C->getCallee()); J.attributeEnd();
        }
        J.attributeArray("args", [&] { for (auto *A : C->arguments()) expr(A); });
        tryConst(E);
      } else if (auto *M = dyn_cast<MemberExpr>(E)) {
        J.attribute("k", "member");
        J.attribute("t", ty(M->getType()));
        J.attribute("field", M->getMemberDecl()->getNameAsString());
        J.attribute("arrow", M->isArrow());
        if (auto *FD = dyn_cast<FieldDecl>(M->getMemberDecl())) {
          J.attribute("record", qname(FD->getParent()));
          if (FD->getType().isConstQualified()) J.attribute("fconst", true);
        } else if (auto *VD = dyn_cast<VarDecl>(M->getMemberDecl())) {
          J.attribute("static_member", qname(VD));
        }
        J.attributeBegin("a"); expr(M->getBase()); J.attributeEnd();
      } else if (auto *S = dyn_cast<ArraySubscriptExpr>(E)) {
        J.attribute("k", "index");
        J.attribute("t", ty(S->getType()));
        J.attributeBegin("a"); expr(S->getBase()); J.attributeEnd();
        J.attributeBegin("i"); expr(S->getIdx()); J.attributeEnd();
      } else if (auto *R = dyn_cast<DeclRefExpr>(E)) {
        J.attribute("k", "ref");
        J.attribute("n", R->getDecl()->getNameAsString());
        J.attribute("t", ty(R->getType()));
        refKind(R->getDecl());
        if (isa<EnumConstantDecl>(R->getDecl())) tryConst(E);
        else if (auto *V = dyn_cast<VarDecl>(R->getDecl()))
          if (V->getType().isConstQualified() && V->getType()->isIntegralOrEnumerationType())
            tryConst(E);
      } else if (auto *I = dyn_cast<IntegerLiteral>(E)) {
        J.attribute("k", "int");
        llvm::SmallString<32> S;
        I->getValue().toString(S, 10, I->getType()->isSignedIntegerType());
        J.attribute("v", S.str());
        J.attribute("t", ty(I->getType()));
      } else if (auto *F = dyn_cast<FloatingLiteral>(E)) {
        J.attribute("k", "float");
        if (F->getValue().isFinite()) J.attribute("v", F->getValueAsApproximateDouble());
        J.attribute("t", ty(F->getType()));
      } else if (auto *S = dyn_cast<StringLiteral>(E)) {
        J.attribute("k", "str");
        if (S->getCharByteWidth() == 1) J.attribute("v", S->getString());
      } else if (auto *Ch = dyn_cast<CharacterLiteral>(E)) {
        J.attribute("k", "int");
        J.attribute("v", std::to_string(Ch->getValue()));
        J.attribute("t", ty(Ch->getType()));
        J.attribute("char", true);
      } else if (auto *Bo = dyn_cast<CXXBoolLiteralExpr>(E)) {
        J.attribute("k", "int");
        J.attribute("v", Bo->getValue() ? "1" : "0");
        J.attribute("t", "bool");
      } else if (isa<CXXNullPtrLiteralExpr>(E) || isa<GNUNullExpr>(E)) {
        J.attribute("k", "null");
      } else if (auto *CE = dyn_cast<CastExpr>(E)) {
        J.attribute("k", "cast");
        J.attribute("ck", CE->getCastKindName());
        J.attribute("implicit", isa<ImplicitCastExpr>(CE));
        J.attribute("t", ty(CE->getType()));
        J.attribute("from", ty(CE->getSubExpr()->getType()));
        if (dropsConst(CE->getSubExpr()->getType(), CE->getType()))
          J.attribute("drops_const", true);
        if (isa<CXXConstCastExpr>(CE)) J.attribute("style", "const_cast");
        else if (isa<CXXReinterpretCastExpr>(CE)) J.attribute("style", "reinterpret_cast");
        else if (isa<CXXStaticCastExpr>(CE)) J.attribute("style", "static_cast");
        else if (isa<CStyleCastExpr>(CE)) J.attribute("style", "c");
        else if (isa<CXXFunctionalCastExpr>(CE)) J.attribute("style", "functional");
        J.attributeBegin("a"); expr(CE->getSubExpr()); J.attributeEnd();
        tryConst(E);
      } else if (auto *Co = dyn_cast<ConditionalOperator>(E)) {
        J.attribute("k", "cond");
        J.attribute("t", ty(Co->getType()));
        J.attributeBegin("c"); expr(Co->getCond()); J.attributeEnd();
        J.attributeBegin("a"); expr(Co->getTrueExpr()); J.attributeEnd();
        J.attributeBegin("b"); expr(Co->getFalseExpr()); J.attributeEnd();
      } else if (auto *N = dyn_cast<CXXNewExpr>(E)) {
        J.attribute("k", "new");
        J.attribute("t", ty(N->getType()));
        J.attribute("alloc", ty(N->getAllocatedType()));
        J.attribute("array", N->isArray());
        if (N->isArray()) {
          J.attributeBegin("size");
          if (auto Sz = N->getArraySize()) expr(*Sz); else J.value(nullptr);
          J.attributeEnd();
        }
        if (N->getNumPlacementArgs()) {
          J.attributeArray("placement", [&] {
            for (unsigned i = 0; i < N->getNumPlacementArgs(); ++i) expr(N->getPlacementArg(i));
          });
        }
        if (auto *CE = N->getConstructExpr()) {
          J.attributeBegin("ctor"); expr(CE); J.attributeEnd();
        } else if (N->hasInitializer()) {
          J.attributeBegin("init"); expr(N->getInitializer()); J.attributeEnd();
        }
      } else if (auto *D = dyn_cast<CXXDeleteExpr>(E)) {
        J.attribute("k", "delete");
        J.attribute("array", D->isArrayForm());
        J.attribute("dt", ty(D->getDestroyedType()));
        J.attributeBegin("a"); expr(D->getArgument()); J.attributeEnd();
      } else if (auto *CC = dyn_cast<CXXConstructExpr>(E)) {
        J.attribute("k", "construct");
        J.attribute("t", ty(CC->getType()));
        if (auto *CD = CC->getConstructor()) {
          J.attribute("callee", qname(CD));
          J.attribute("cusr", usr(CD));
          if (CD->isCopyOrMoveConstructor()) J.attribute("copy", true);
          refArgs(CD, CC->getNumArgs(), 0);
        }
        J.attributeArray("args", [&] { for (auto *A : CC->arguments()) expr(A); });
      } else if (isa<CXXThisExpr>(E)) {
        J.attribute("k", "this");
        J.attribute("t", ty(E->getType()));
      } else if (auto *SO = dyn_cast<UnaryExprOrTypeTraitExpr>(E)) {
        J.attribute("k", "sizeof");
        J.attribute("kind", (int64_t)SO->getKind());
        J.attribute("of", ty(SO->getTypeOfArgument()));
        tryConst(E);
      } else if (auto *DA = dyn_cast<CXXDefaultArgExpr>(E)) {
        J.attribute("k", "defarg");
        J.attributeBegin("a"); expr(DA->getExpr()); J.attributeEnd();
      } else if (auto *DI = dyn_cast<CXXDefaultInitExpr>(E)) {
        J.attribute("k", "definit");
        J.attributeBegin("a"); expr(DI->getExpr()); J.attributeEnd();
      } else if (auto *IL = dyn_cast<InitListExpr>(E)) {
        J.attribute("k", "initlist");
        J.attribute("t", ty(IL->getType()));
        J.attributeArray("args", [&] { for (auto *A : IL->inits()) expr(A); });
      } else if (auto *Th = dyn_cast<CXXThrowExpr>(E)) {
        J.attribute("k", "throw");
        J.attributeBegin("a"); expr(Th->getSubExpr()); J.attributeEnd();
      } else if (auto *SE = dyn_cast<StmtExpr>(E)) {
        J.attribute("k", "stmtexpr");
        J.attributeBegin("body"); stmt(SE->getSubStmt()); J.attributeEnd();
      } else if (auto *TE = dyn_cast<CXXTemporaryObjectExpr>(E)) {
        (void)TE; // handled by CXXConstructExpr above (subclass)
      } else if (auto *SV = dyn_cast<CXXScalarValueInitExpr>(E)) {
        J.attribute("k", "zeroinit");
        J.attribute("t", ty(SV->getType()));
      } else if (auto *IV = dyn_cast<ImplicitValueInitExpr>(E)) {
        J.attribute("k", "zeroinit");
        J.attribute("t", ty(IV->getType()));
      } else if (auto *SN = dyn_cast<SubstNonTypeTemplateParmExpr>(E)) {
        // a non-type template parameter inside an instantiation: the argument it was replaced by
        J.attribute("k", "cast");
        J.attribute("ck", "NoOp");
        J.attribute("t", ty(SN->getType()));
        J.attributeBegin("a"); expr(SN->getReplacement()); J.attributeEnd();
        tryConst(E);
      } else if (auto *LE = dyn_cast<LambdaExpr>(E)) {
        // a closure: its call operator is emitted as a function of its own (file-local by nature)
        J.attribute("k", "lambda");
        J.attribute("t", ty(LE->getType()));
        if (const CXXMethodDecl *Op = LE->getCallOperator()) {
          J.attribute("cusr", usr(Op));
          if (SeenLambdas.insert(Op).second) Fns.push_back(Op);
        }
        J.attributeArray("captures", [&] {
          for (const LambdaCapture &C : LE->captures()) {
            J.object([&] {
              J.attribute("byref", C.getCaptureKind() == LCK_ByRef);
              if (C.capturesVariable()) {
                J.attribute("n", C.getCapturedVar()->getNameAsString());
                J.attribute("id", idOf(C.getCapturedVar()));
              } else if (C.capturesThis()) {
                J.attribute("this", true);
              }
            });
          }
        });
      } else {
        J.attribute("k", "other");
        J.attribute("cls", E->getStmtClassName());
        J.attribute("t", ty(E->getType()));
        if (isa<OffsetOfExpr>(E)) tryConst(E);   // offsetof(T, f): a compile-time constant
        J.attributeArray("ch", [&] {
          for (const Stmt *C : E->children()) {
            if (auto *CE = dyn_cast_or_null<Expr>(C)) expr(CE);
            else stmt(C);
          }
        });
      }
    });
  }

  // ---------- statements ----------
  void varDecl(const VarDecl *V) {
    J.object([&] {
      J.attribute("k", "var");
      J.attribute("l", lineOf(V->getLocation()));
      J.attribute("n", V->getNameAsString());
      J.attribute("id", idOf(V));
      J.attribute("t", ty(V->getType()));
      J.attribute("ts", tySugar(V->getType()));
      if (V->getType().isConstQualified()) J.attribute("const", true);
      if (V->isStaticLocal()) J.attribute("static", true);
      if (V->getTLSKind() != VarDecl::TLS_None) J.attribute("tls", true);
      if (V->hasGlobalStorage()) J.attribute("q", qname(V));
      if (auto *AT = Ctx.getAsConstantArrayType(V->getType())) {
        llvm::SmallString<32> S;
        AT->getSize().toString(S, 10, false);
        J.attribute("extent", S.str());
      } else if (auto *VT = Ctx.getAsVariableArrayType(V->getType())) {
        J.attributeBegin("vla"); expr(VT->getSizeExpr()); J.attributeEnd();
      }
      if (V->hasInit()) {
        J.attributeBegin("init"); expr(V->getInit()); J.attributeEnd();
      }
    });
  }

  void stmt(const Stmt *S) {
    if (!S) { J.value(nullptr); return; }
    if (auto *E = dyn_cast<Expr>(S)) { expr(E); return; }
    if (auto *AS = dyn_cast<AttributedStmt>(S)) { stmt(AS->getSubStmt()); return; }
    J.object([&] {
      J.attribute("l", lineOf(S->getBeginLoc()));
      if (auto *C = dyn_cast<CompoundStmt>(S)) {
        J.attribute("k", "block");
        J.attribute("le", lineOf(C->getEndLoc()));
        J.attributeArray("s", [&] { for (auto *X : C->body()) stmt(X); });
      } else if (auto *I = dyn_cast<IfStmt>(S)) {
        J.attribute("k", "if");
        if (I->getInit()) { J.attributeBegin("init"); stmt(I->getInit()); J.attributeEnd(); }
        J.attributeBegin("c"); expr(I->getCond()); J.attributeEnd();
        J.attributeBegin("then"); stmt(I->getThen()); J.attributeEnd();
        J.attributeBegin("else"); stmt(I->getElse()); J.attributeEnd();
      } else if (auto *F = dyn_cast<ForStmt>(S)) {
        J.attribute("k", "for");
        J.attributeBegin("init"); stmt(F->getInit()); J.attributeEnd();
        J.attributeBegin("c"); expr(F->getCond()); J.attributeEnd();
        J.attributeBegin("inc"); expr(F->getInc()); J.attributeEnd();
        J.attributeBegin("body"); stmt(F->getBody()); J.attributeEnd();
      } else if (auto *W = dyn_cast<WhileStmt>(S)) {
        J.attribute("k", "while");
        J.attributeBegin("c"); expr(W->getCond()); J.attributeEnd();
        J.attributeBegin("body"); stmt(W->getBody()); J.attributeEnd();
      } else if (auto *D = dyn_cast<DoStmt>(S)) {
        J.attribute("k", "do");
        J.attributeBegin("c"); expr(D->getCond()); J.attributeEnd();
        J.attributeBegin("body"); stmt(D->getBody()); J.attributeEnd();
      } else if (auto *R = dyn_cast<ReturnStmt>(S)) {
        J.attribute("k", "return");
        J.attributeBegin("a"); expr(R->getRetValue()); J.attributeEnd();
      } else if (auto *DS = dyn_cast<DeclStmt>(S)) {
        J.attribute("k", "decl");
        J.attributeArray("d", [&] {
          for (auto *D : DS->decls()) {
            if (auto *V = dyn_cast<VarDecl>(D)) {
              varDecl(V);
              if (V->hasGlobalStorage()) PendingStatics.push_back(V);
            } else {
              J.object([&] {
                J.attribute("k", "otherdecl");
                J.attribute("cls", D->getDeclKindName());
              });
            }
          }
        });
      } else if (isa<BreakStmt>(S)) {
        J.attribute("k", "break");
      } else if (isa<ContinueStmt>(S)) {
        J.attribute("k", "continue");
      } else if (isa<NullStmt>(S)) {
        J.attribute("k", "null");
      } else if (auto *A = dyn_cast<GCCAsmStmt>(S)) {
        J.attribute("k", "asm");
        J.attribute("volatile", A->isVolatile());
        J.attribute("template", A->getAsmString()->getString());
        J.attributeArray("outs", [&] {
          for (unsigned i = 0; i < A->getNumOutputs(); ++i)
            J.object([&] {
              J.attribute("c", A->getOutputConstraint(i));
              J.attribute("name", A->getOutputName(i));
              J.attributeBegin("e"); expr(A->getOutputExpr(i)); J.attributeEnd();
            });
        });
        J.attributeArray("ins", [&] {
          for (unsigned i = 0; i < A->getNumInputs(); ++i)
            J.object([&] {
              J.attribute("c", A->getInputConstraint(i));
              J.attribute("name", A->getInputName(i));
              J.attributeBegin("e"); expr(A->getInputExpr(i)); J.attributeEnd();
            });
        });
        J.attributeArray("clobbers", [&] {
          for (unsigned i = 0; i < A->getNumClobbers(); ++i) J.value(A->getClobber(i));
        });
      } else if (auto *SW = dyn_cast<SwitchStmt>(S)) {
        J.attribute("k", "switch");
        J.attributeBegin("c"); expr(SW->getCond()); J.attributeEnd();
        J.attributeBegin("body"); stmt(SW->getBody()); J.attributeEnd();
      } else if (auto *CS = dyn_cast<CaseStmt>(S)) {
        J.attribute("k", "case");
        J.attributeBegin("v"); expr(CS->getLHS()); J.attributeEnd();
        J.attributeBegin("body"); stmt(CS->getSubStmt()); J.attributeEnd();
      } else if (auto *DF = dyn_cast<DefaultStmt>(S)) {
        J.attribute("k", "default");
        J.attributeBegin("body"); stmt(DF->getSubStmt()); J.attributeEnd();
      } else if (auto *T = dyn_cast<CXXTryStmt>(S)) {
        J.attribute("k", "try");
        J.attributeBegin("body"); stmt(T->getTryBlock()); J.attributeEnd();
        J.attributeArray("handlers", [&] {
          for (unsigned i = 0; i < T->getNumHandlers(); ++i) stmt(T->getHandler(i)->getHandlerBlock());
        });
      } else if (auto *G = dyn_cast<GotoStmt>(S)) {
        J.attribute("k", "goto");
        J.attribute("label", G->getLabel()->getNameAsString());
      } else if (auto *L = dyn_cast<LabelStmt>(S)) {
        J.attribute("k", "label");
        J.attribute("label", L->getName());
        J.attributeBegin("body"); stmt(L->getSubStmt()); J.attributeEnd();
      } else if (auto *FR = dyn_cast<CXXForRangeStmt>(S)) {
        J.attribute("k", "forrange");
        J.attributeBegin("var"); varDecl(FR->getLoopVariable()); J.attributeEnd();
        J.attributeBegin("range"); expr(FR->getRangeInit()); J.attributeEnd();
        J.attributeBegin("body"); stmt(FR->getBody()); J.attributeEnd();
      } else {
        J.attribute("k", "otherstmt");
        J.attribute("cls", S->getStmtClassName());
        J.attributeArray("ch", [&] { for (const Stmt *C : S->children()) stmt(C); });
      }
    });
  }

  // ---------- declarations ----------
  std::vector<const VarDecl *> PendingStatics;
  std::vector<const FunctionDecl *> Fns;
  llvm::SmallPtrSet<const Decl *, 8> SeenLambdas;
  std::vector<const VarDecl *> Vars;
  std::vector<const RecordDecl *> Recs;
  std::vector<const EnumDecl *> Enums;

  void collect(const DeclContext *DC) {
    for (const Decl *D : DC->decls()) {
      if (auto *NS = dyn_cast<NamespaceDecl>(D)) { collect(NS); continue; }
      if (auto *LS = dyn_cast<LinkageSpecDecl>(D)) { collect(LS); continue; }
      if (auto *FT = dyn_cast<FunctionTemplateDecl>(D)) {
        for (auto *Sp : FT->specializations()) addFn(Sp);
        continue;
      }
      if (auto *CT = dyn_cast<ClassTemplateDecl>(D)) {
        for (auto *Sp : CT->specializations()) { addRec(Sp); collect(Sp); }
        continue;
      }
      if (auto *F = dyn_cast<FunctionDecl>(D)) { addFn(F); continue; }
      if (auto *V = dyn_cast<VarDecl>(D)) {
        if (inRoot(V->getLocation()) && V->hasGlobalStorage()) Vars.push_back(V);
        continue;
      }
      if (auto *R = dyn_cast<RecordDecl>(D)) {
        addRec(R);
        if (R->isCompleteDefinition()) collect(R);
        continue;
      }
      if (auto *En = dyn_cast<EnumDecl>(D)) {
        if (inRoot(En->getLocation())) Enums.push_back(En);
        continue;
      }
    }
  }
  void addFn(const FunctionDecl *F) {
    if (!inRoot(F->getLocation())) return;
    if (F->isDependentContext()) return;
    Fns.push_back(F);
  }
  void addRec(const RecordDecl *R) {
    if (!inRoot(R->getLocation())) return;
    if (!R->isCompleteDefinition() || R->isDependentType() || R->isInvalidDecl()) return;
    if (SeenRecs.insert(R->getCanonicalDecl()).second) Recs.push_back(R);
  }

  void emitFunction(const FunctionDecl *F) {
    J.object([&] {
      J.attribute("name", F->getNameAsString());
      J.attribute("q", qname(F));
      J.attribute("usr", usr(F));
      J.attribute("loc", locStr(F->getLocation()));
      J.attribute("file", fileOf(F->getLocation()).substr(gRoot.size()));
      J.attribute("line", lineOf(F->getLocation()));
      J.attribute("externC", isExternC(F));
      J.attribute("static", F->getStorageClass() == SC_Static || !F->isExternallyVisible());
      // ELF visibility after `#pragma GCC visibility`, visibility attributes and -fvisibility: a hidden function is no export
      if (F->isExternallyVisible() && F->getLinkageAndVisibility().getVisibility() != DefaultVisibility) J.attribute("hidden", true);
      J.attribute("ret", ty(F->getReturnType()));
      J.attribute("rets", tySugar(F->getReturnType()));
      if (F->isNoReturn()) J.attribute("noreturn", true);
      if (F->isInlined()) J.attribute("inline", true);
      if (F->isDeleted()) J.attribute("deleted", true);
      if (F->isDefaulted()) J.attribute("defaulted", true);
      if (F->isImplicit()) J.attribute("implicit", true);
      if (F->isVariadic()) J.attribute("variadic", true);
      if (F->hasAttr<NoInlineAttr>()) J.attribute("noinline", true);
      if (F->isTemplateInstantiation()) J.attribute("instantiation", true);
      if (auto *M0 = dyn_cast<CXXMethodDecl>(F))
        if (M0->getParent()->isLambda()) J.attribute("lambda", true);
      if (auto *M = dyn_cast<CXXMethodDecl>(F)) {
        J.attribute("record", qname(M->getParent()));
        if (M->isVirtual()) J.attribute("virtual", true);
        if (M->isPure()) J.attribute("pure", true);
        if (M->isStatic()) J.attribute("smethod", true);
        if (M->isConst()) J.attribute("cmethod", true);
        if (isa<CXXConstructorDecl>(M)) J.attribute("kind", "ctor");
        else if (isa<CXXDestructorDecl>(M)) J.attribute("kind", "dtor");
        else J.attribute("kind", "method");
        J.attributeArray("overrides", [&] {
          for (auto *O : M->overridden_methods()) J.value(usr(O));
        });
      } else {
        J.attribute("kind", "function");
      }
      J.attributeArray("params", [&] {
        for (auto *P : F->parameters())
          J.object([&] {
            J.attribute("n", P->getNameAsString());
            J.attribute("id", idOf(P));
            J.attribute("t", ty(P->getType()));
            J.attribute("ts", tySugar(P->getType()));
            J.attribute("pointee_const", pointeeConst(P->getType()));
            if (P->hasDefaultArg() && !P->hasUninstantiatedDefaultArg() && !P->hasUnparsedDefaultArg()) {
              J.attributeBegin("default"); expr(P->getDefaultArg()); J.attributeEnd();
            }
          });
      });
      const FunctionDecl *Def = nullptr;
      bool HasBody = F->doesThisDeclarationHaveABody() && F->getBody();
      (void)Def;
      J.attribute("defined", HasBody);
      if (HasBody) {
        if (auto *CD = dyn_cast<CXXConstructorDecl>(F)) {
          J.attributeArray("inits", [&] {
            for (auto *I : CD->inits())
              J.object([&] {
                J.attribute("written", I->isWritten());
                if (I->isAnyMemberInitializer())
                  J.attribute("field", I->getAnyMember()->getNameAsString());
                else if (I->isBaseInitializer())
                  J.attribute("base", ty(QualType(I->getBaseClass(), 0)));
                J.attribute("l", lineOf(I->getSourceLocation()));
                J.attributeBegin("e"); expr(I->getInit()); J.attributeEnd();
              });
          });
        }
        J.attributeBegin("body"); stmt(F->getBody()); J.attributeEnd();
      }
    });
  }

  void emitVar(const VarDecl *V, const FunctionDecl *Owner) {
    J.object([&] {
      J.attribute("name", V->getNameAsString());
      J.attribute("q", qname(V));
      J.attribute("loc", locStr(V->getLocation()));
      J.attribute("file", fileOf(V->getLocation()).substr(gRoot.size()));
      J.attribute("t", ty(V->getType()));
      J.attribute("ts", tySugar(V->getType()));
      J.attribute("const", V->getType().isConstQualified() ||
                               (V->getType()->isArrayType() &&
                                Ctx.getBaseElementType(V->getType()).isConstQualified()));
      J.attribute("constexpr", V->isConstexpr());
      J.attribute("tls", V->getTLSKind() != VarDecl::TLS_None);
      J.attribute("static_local", V->isStaticLocal());
      J.attribute("class_static", V->isStaticDataMember());
      J.attribute("definition", V->isThisDeclarationADefinition() != VarDecl::DeclarationOnly);
      J.attribute("extern_visible", V->isExternallyVisible());
      J.attribute("externC", V->isExternC());
      if (Owner) J.attribute("local_of", qname(Owner));
      if (V->hasInit()) { J.attributeBegin("init"); expr(V->getInit()); J.attributeEnd(); }
    });
  }

  void emitRecord(const RecordDecl *R) {
    const ASTRecordLayout &L = Ctx.getASTRecordLayout(R);
    J.object([&] {
      J.attribute("name", qname(R));
      J.attribute("loc", locStr(R->getLocation()));
      J.attribute("file", fileOf(R->getLocation()).substr(gRoot.size()));
      J.attribute("kind", R->isUnion() ? "union" : (R->isClass() ? "class" : "struct"));
      J.attribute("size", (int64_t)L.getSize().getQuantity());
      J.attribute("align", (int64_t)L.getAlignment().getQuantity());
      if (auto *CR = dyn_cast<CXXRecordDecl>(R)) {
        J.attribute("polymorphic", CR->isPolymorphic());
        J.attribute("abstract", CR->isAbstract());
        J.attribute("standard_layout", CR->isStandardLayout());
        J.attributeArray("bases", [&] {
          for (auto &B : CR->bases()) J.value(ty(B.getType()));
        });
        J.attribute("has_user_dtor", CR->hasUserDeclaredDestructor());
      }
      J.attributeArray("fields", [&] {
        unsigned i = 0;
        for (auto *F : R->fields()) {
          J.object([&] {
            J.attribute("n", F->getNameAsString());
            J.attribute("t", ty(F->getType()));
            J.attribute("ts", tySugar(F->getType()));
            J.attribute("const", F->getType().isConstQualified());
            J.attribute("offset", (int64_t)L.getFieldOffset(i) / 8);
            J.attribute("size", (int64_t)Ctx.getTypeSizeInChars(F->getType()).getQuantity());
            J.attribute("l", lineOf(F->getLocation()));
            if (F->isBitField()) J.attribute("bitfield", true);
            if (F->hasInClassInitializer()) {
              J.attributeBegin("init"); expr(F->getInClassInitializer()); J.attributeEnd();
            }
          });
          ++i;
        }
      });
    });
  }

  void run() {
    collect(Ctx.getTranslationUnitDecl());
    J.attributeArray("functions", [&] {
      // index-based loop: bodies may append function-local statics
      for (size_t i = 0; i < Fns.size(); ++i) {
        size_t Before = PendingStatics.size();
        emitFunction(Fns[i]);
        for (size_t k = Before; k < PendingStatics.size(); ++k)
          LocalStatics.push_back({PendingStatics[k], Fns[i]});
      }
    });
    J.attributeArray("statics", [&] {
      for (auto *V : Vars) emitVar(V, nullptr);
      for (auto &P : LocalStatics) emitVar(P.first, P.second);
    });
    J.attributeArray("records", [&] { for (auto *R : Recs) emitRecord(R); });
    J.attributeArray("enums", [&] {
      for (auto *E : Enums)
        J.object([&] {
          J.attribute("name", qname(E));
          J.attributeArray("values", [&] {
            for (auto *C : E->enumerators())
              J.object([&] {
                J.attribute("n", C->getNameAsString());
                llvm::SmallString<32> S;
                C->getInitVal().toString(S, 10);
                J.attribute("v", S.str());
              });
          });
        });
    });
    J.attribute("unresolved_calls", (int64_t)Unresolved);
  }
  std::vector<std::pair<const VarDecl *, const FunctionDecl *>> LocalStatics;
};

class Consumer : public ASTConsumer {
public:
  void HandleTranslationUnit(ASTContext &Ctx) override {
    std::error_code EC;
    llvm::raw_fd_ostream OS(gOut, EC);
    if (EC) { llvm::errs() << "cannot write " << gOut << "\n"; exit(3); }
    OStream J(OS, 0);
    bool Err = Ctx.getDiagnostics().hasErrorOccurred();
    J.object([&] {
      J.attribute("errors", Err);
      J.attribute("lang", Ctx.getLangOpts().CPlusPlus ? "c++" : "c");
      Dumper D(Ctx, J);
      D.run();
    });
    OS << "\n";
  }
};

class Action : public ASTFrontendAction {
public:
  std::unique_ptr<ASTConsumer> CreateASTConsumer(CompilerInstance &, StringRef) override {
    return std::make_unique<Consumer>();
  }
};

} // namespace

int main(int argc, const char **argv) {
  if (argc < 5) {
    llvm::errs() << "usage: tfhe-facts <out.json> <srcroot> <file> -- <args>\n";
    return 2;
  }
  gOut = argv[1];
  gRoot = argv[2];
  if (!gRoot.empty() && gRoot.back() != '/') gRoot += '/';
  std::string File = argv[3];
  std::string Err;
  int Argc = argc - 3;
  auto DB = tooling::FixedCompilationDatabase::loadFromCommandLine(Argc, argv + 3, Err);
  if (!DB) { llvm::errs() << "no compile args after --: " << Err << "\n"; return 2; }
  tooling::ClangTool Tool(*DB, {File});
  int R = Tool.run(tooling::newFrontendActionFactory<Action>().get());
  return R;
}
