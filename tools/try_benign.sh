#!/bin/sh
# tools/try_benign.sh <patch>: run every check against a scratch copy with a behaviour-preserving patch applied;
# prints only the checks that do not pass (refuted = false alarm to fix, BROKEN = shape not handled)
ALL="C01 C02 C03 C04 C05 C06 C07 C08 C09 C11 C12 C13 C14 C15 C16 C17 C18 C19 C20"
/verif/tools/try_patch "$1" $ALL 2>&1 | grep -E "^ANALYSIS-BROKEN|^  refuted" | grep -v "R8 LagrangeHalfCPolynomial_IMPL stores the address" | cut -c1-${2:-420}
echo "-- done $1"
