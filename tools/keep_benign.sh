#!/bin/sh
# tools/keep_benign.sh <patch> <name> "<what>" CNN...: store a behaviour-preserving rewrite as mutants/CNN/benign_<name>.patch
# (header "# expect: pass"); the thorough tier requires every check listed to stay quiet on it.
set -e
P="$1"; N="$2"; W="$3"; shift 3
for c in "$@"; do
  mkdir -p /verif/mutants/$c
  { echo "# expect: pass"; echo "# what: $W"; cat "$P"; } > /verif/mutants/$c/benign_$N.patch
done
