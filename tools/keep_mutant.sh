#!/bin/sh
# tools/keep_mutant.sh <patch> <name> <rule> "<what>" CNN: store a breaking variant as mutants/CNN/<name>.patch (header "# expect: <rule>");
# the thorough tier of CNN requires the quick check to report that rule on it.
set -e
P="$1"; N="$2"; R="$3"; W="$4"; C="$5"
mkdir -p /verif/mutants/$C
{ echo "# expect: $R"; echo "# what: $W"; cat "$P"; } > /verif/mutants/$C/$N.patch
