#!/usr/bin/env python3
"""Regenerates /verif/mutants/<PID>/<name>.patch from the table below (sed expressions applied to a scratch copy of
/repo/src).  Each patch starts with '# expect: <rule>' and '# what: <text>' lines.  Used by the thorough tier."""
import os, shutil, subprocess, sys, tempfile

M = [
 # (property, name, expected rule, file under src/, sed expression, description)
 ("C01", "and_const", "R1", "libtfhe/boot-gates.cpp", r"93,96s/modSwitchToTorus32(-1, 8)/modSwitchToTorus32(-3, 16)/", "AND constant -1/8 -> -3/16: row (1,1) interval touches 0"),
 ("C01", "mux_const_sign", "R1", "libtfhe/boot-gates.cpp", r"s/    static const Torus32 MuxConst = modSwitchToTorus32(1, 8);/    static const Torus32 MuxConst = modSwitchToTorus32(-1, 8);/", "MUX final constant sign flipped"),
 ("C01", "decrypt_sign", "R2", "libtfhe/tfhe_gate_bootstrapping.cpp", r"s/    return (mu > 0 ? 1 : 0);/    return (mu < 0 ? 1 : 0);/", "decode by the wrong sign"),
 ("C02", "bk_stdev_doubled", "R3", "libtfhe/tfhe_gate_bootstrapping.cpp", r"s/    static const double bk_stdev = pow(2.,-25);;/    static const double bk_stdev = pow(2.,-24);;/", "bootstrapping-key noise doubled"),
 ("C02", "no_prec_offset", "R3", "libtfhe/lwe-keyswitch-functions.cpp", r"s/	const uint32_t aibar=ai\[i\]+prec_offset;/	const uint32_t aibar=ai[i];/", "key-switch rounding offset dropped (biased output)"),
 ("C02", "skip_bootstrap", "R1", "libtfhe/boot-gates.cpp", r"0,/    tfhe_bootstrap_FFT(result, bk->bkFFT, MU, temp_result);/s//    lweCopy(result, temp_result, in_out_params);/", "one gate returns its linear form without bootstrapping"),
 ("C03", "phase_range", "R1", "libtfhe/lwe-functions.cpp", r"72,80s/    for (int32_t i = 0; i < n; ++i) $/    for (int32_t i = 0; i < n-1; ++i) /", "lwePhase stops one coefficient early"),
 ("C03", "tgsw_block0", "R3", "libtfhe/tgsw-functions.cpp", r"s/        tLwePhase(tmp, &sample->bloc_sample\[k\]\[i\], &key->tlwe_key);/        tLwePhase(tmp, \&sample->bloc_sample[0][i], \&key->tlwe_key);/", "TGSW decryption reads block 0 instead of block k"),
 ("C03", "tlwe_phase_add", "R2", "libtfhe/tlwe-functions.cpp", r"s/        torusPolynomialSubMulR(phase, &key->key\[i\], &sample->a\[i\]);/        torusPolynomialAddMulR(phase, \&key->key[i], \&sample->a[i]);/", "tLwePhase adds the key*mask product"),
 ("C04", "nx2", "R2", "libtfhe/lwe-bootstrapping-functions-fft.cpp", r"s/    const int32_t Nx2 = 2 \* N;/    const int32_t Nx2 = N;/", "modulus switch to N instead of 2N"),
 ("C04", "exponent", "R3", "libtfhe/lwe-bootstrapping-functions-fft.cpp", r"s/    if (barb != 0) torusPolynomialMulByXai(testvectbis, _2N - barb, v);/    if (barb != 0) torusPolynomialMulByXai(testvectbis, barb, v);/", "initial rotation by +barb"),
 ("C04", "skip_one", "R3", "libtfhe/lwe-bootstrapping-functions-fft.cpp", r"s/        if (barai == 0) continue; \/\/indeed, this is an easy case!/        if (barai <= 1) continue;/", "rotation step skipped for exponent 1 too"),
 ("C04", "bara_extent", "R1", "libtfhe/lwe-bootstrapping-functions.cpp", r"s/    int32_t \*bara = new int32_t\[n\];/    int32_t *bara = new int32_t[N];/", "scratch array sized by N again (D1)"),
 ("C05", "swapped_key", "R1", "libtfhe/tfhe_io.cpp", r's/    props->setProperty_double("alpha_min", lweparams->alpha_min);/    props->setProperty_double("alpha_min", lweparams->alpha_max);/', "alpha_min written from alpha_max"),
 ("C05", "format8", "R3", "libtfhe/tfhe_generic_streams.cpp", r's/sprintf(buf, "%.17g", value);/sprintf(buf, "%.8lf", value);/', "8-decimal text format again (D2)"),
 ("C05", "rows_k", "R1", "libtfhe/tfhe_io.cpp", r"920,935s/            for (int32_t l = 0; l <= k; l++) {/            for (int32_t l = 0; l < k; l++) {/", "bootstrapping key reader reads k instead of k+1 polynomials per row"),
 ("C06", "no_thread_local", "R2", ["libtfhe/fft_processors/nayuki/fft_processor_nayuki.cpp", "libtfhe/fft_processors/nayuki/lagrangehalfc_impl.h"],
  [r"s/^thread_local FFT_Processor_nayuki fp1024_nayuki(1024);/FFT_Processor_nayuki fp1024_nayuki(1024);/;", r"s/^extern thread_local FFT_Processor_nayuki fp1024_nayuki;/extern FFT_Processor_nayuki fp1024_nayuki;/"],
  "nayuki processor shared between threads"),
 ("C06", "destroy_unlocked", "R3", "libtfhe/fft_processors/fftw/fft_processor_fftw.cpp", r"/std::lock_guard<std::mutex> lock(fftw_planner_mutex);/{x;s/^/x/;/^x\{2\}$/{x;d};x}", "fftw_destroy_plan outside the planner mutex again (D6)"),
 ("C07", "alpha_max", "R1", "libtfhe/tfhe_gate_bootstrapping.cpp", r"s/    double alpha = key->params->in_out_params->alpha_min; \/\/TODO: specify noise/    double alpha = key->params->in_out_params->alpha_max;/", "gate ciphertexts encrypted with alpha_max"),
 ("C07", "keybits_zero", "R4", "libtfhe/lwe-functions.cpp", r"s/  uniform_int_distribution<int32_t> distribution(0,1);/  uniform_int_distribution<int32_t> distribution(0,0);/", "LWE key bits drawn from {0}"),
 ("C07", "mask_short", "R3", "libtfhe/lwe-functions.cpp", r"40,46s/    for (int32_t i = 0; i < n; ++i)/    for (int32_t i = 0; i < n-1; ++i)/", "last mask coefficient not refreshed"),
 ("C08", "prec_offset", "R2", "libtfhe/lwe-keyswitch-functions.cpp", r"s/    const int32_t prec_offset=1<<(32-(1+basebit\*t)); \/\/precision/    const int32_t prec_offset=1<<(32-(basebit*t));/", "rounding offset is a whole LSB"),
 ("C08", "mask_base", "R1", "libtfhe/lwe-keyswitch-functions.cpp", r"s/    const int32_t mask=base-1;/    const int32_t mask=base;/", "digit mask = base"),
 ("C08", "gen_weight", "R3", "libtfhe/lwe-keyswitch-functions.cpp", r"s/                Torus32 mess = (in_key->key\[i\]\*h)\*(1<<(32-(j+1)\*basebit));/                Torus32 mess = (in_key->key[i]*h)*(1<<(32-(j)*basebit));/", "generator uses (j) where the consumer uses (j+1)"),
 ("C09", "avx_submul", "R5", "libtfhe/fft_processors/spqlios/lagrangehalfc_impl_avx.s", r"168s/vsubpd	%ymm3,%ymm9,%ymm9/vsubpd	%ymm3,%ymm8,%ymm9/", "AVX SubMul imaginary part from the real accumulator again (D8)"),
 ("C09", "extmul_rows", "R1", "libtfhe/tgsw-fft-operations.cpp", r"s/    for (int32_t p = 0; p < kpl; p++) {/    for (int32_t p = 0; p < kpl - 1; p++) {/", "FFT external product skips the last row"),
 ("C09", "cmux_no_add", "R2", "libtfhe/lwe-bootstrapping-functions-fft.cpp", r"75,85s/    tLweAddTo(result, accum, bk_params->tlwe_params);/    \/\/ACC += temp dropped/", "CMux forgets to add the accumulator back"),
 ("C11", "xai_sign", "R1", "libtfhe/toruspolynomial-functions.cpp", r"s/            out\[i\] = -in\[i - aa\];/            out[i] = in[i - aa];/", "lost minus in the a >= N branch"),
 ("C11", "xai_index", "R1", "libtfhe/toruspolynomial-functions.cpp", r"s/            out\[i\] = -in\[i - a + N\];/            out[i] = -in[i - a + N - 1];/", "source index off by one"),
 ("C11", "karatsuba_sign", "R4", "libtfhe/multiplication.cpp", r"s/	    Rtemp\[i\] -= R\[i\] + R\[size+i\];/	    Rtemp[i] -= R[i] - R[size+i];/", "Karatsuba middle term combines the outer products with the wrong sign"),
 ("C12", "no_halfbg_c", "R2", "libtfhe/tgsw-functions.cpp", r"s/            res_p\[j\] = temp1 - halfBg;/            res_p[j] = temp1;/", "C path: digits not re-centred"),
 ("C12", "asm_add_halfbg", "R2", "libtfhe/tgsw-functions.cpp", r's/            "VPSUBD %%ymm0,%%ymm3,%%ymm3\\n" \/\/ sub halfBg/            "VPADDD %%ymm0,%%ymm3,%%ymm3\\n"/', "asm path: adds halfBg instead of subtracting"),
 ("C12", "maskmod", "R1", "libtfhe/tgsw.cpp", r"s/        maskMod(Bg - 1),/        maskMod(Bg),/", "maskMod = Bg"),
 ("C13", "half_quarter", "R1", "libtfhe/numeric-functions.cpp", r"58,70s/    uint64_t half_interval = interv\/2;/    uint64_t half_interval = interv\/4;/", "modSwitchFromTorus32 adds a quarter interval"),
 ("C13", "shift31", "R3", "libtfhe/numeric-functions.cpp", r"70,77s/    return phase64>>32;/    return phase64>>31;/", "modSwitchToTorus32 shifts by 31"),
 ("C14", "submul_b", "R1", "libtfhe/lwe-functions.cpp", r"s/    result->b -= p\*sample->b;/    result->b += p*sample->b;/", "SubMulTo adds on b"),
 ("C14", "addmul_range", "R2", "libtfhe/lwe-functions.cpp", r"s/    for (int32_t i = 0; i < n; ++i) result->a\[i\] += p\*sample->a\[i\];/    for (int32_t i = 0; i < n-1; ++i) result->a[i] += p*sample->a[i];/", "AddMulTo misses the last coefficient"),
 ("C14", "avx_unguarded", "R2", "libtfhe/lwe-functions.cpp", r'/testq %%rax,%%rax/d; /"jz 5f\\n"/d', "AVX2 subtraction loop unguarded again (D3)"),
 ("C15", "no_restore_c", "R1", "libtfhe/tgsw-functions.cpp", r"s/    for (int32_t j = 0; j < N; ++j) buf\[j\] -= offset;/    \/\/ restore removed/", "decomposition does not restore its input (C path)"),
 ("C15", "gate_dither", "R2", "libtfhe/boot-gates.cpp", r"0,/    lweSubTo(temp_result, cb, in_out_params);/s//    lweSubTo(temp_result, cb, in_out_params); temp_result->b += gaussian32(0, 1e-9);/", "a gate adds fresh randomness"),
 ("C16", "delete_form", "R3", "libtfhe/lwe-bootstrapping-functions-fft.cpp", r"s/    delete\[\] bara;/    delete bara;/", "new[] released with delete"),
 ("C16", "ks1_extent", "R1", "libtfhe/lwekeyswitch.cpp", r"s/    ks1_raw = new LweSample\*\[n\*t\];/    ks1_raw = new LweSample*[n];/", "row table too short"),
 ("C16", "early_return", "R3", "libtfhe/tgsw-functions.cpp", r"s/    tLweClear(result, parlwe);/    tLweClear(result, parlwe); if (kpl == 0) return;/", "early return skips a release"),
 ("C16", "reva_leak", "R5", "libtfhe/fft_processors/spqlios/fft_processor_spqlios.cpp", r"/    delete\[\] reva;/d", "per-thread processor leaks reva again (D5)"),
 ("C18", "tag_return", "R1", "libtfhe/tfhe_io.cpp", r"90,100s/    if (type_uid != LWE_SAMPLE_TYPE_UID) abort();/    if (type_uid != LWE_SAMPLE_TYPE_UID) return;/", "tag mismatch returns silently"),
 ("C18", "fread_count", "R3", "libtfhe/tfhe_generic_streams.cpp", r"s/    if (read != bytes) abort();/    (void) read;/", "short fread ignored"),
 ("C18", "null_props", "R4", "libtfhe/tfhe_io.cpp", r'49,53s/    if (props == NULL || props->getTypeTitle() != string("LWEPARAMS")) abort();/    if (props->getTypeTitle() != string("LWEPARAMS")) abort();/', "NULL section dereferenced again (D4)"),
 ("C17", "secret_first", "R3", "libtfhe/tfhe_io.cpp",
  r"/^void write_tfheGateBootstrappingSecretKeySet/,/^}/{s/    write_lweBootstrappingKey(F, key->cloud.bk, false, false);/    write_lweKey(F, key->lwe_key, false);/;t;s/    write_lweKey(F, key->lwe_key, false);/    write_lweBootstrappingKey(F, key->cloud.bk, false, false);/}",
  "secret export writes the LWE key before the bootstrapping key: the cloud export is no longer a prefix"),
 ("C17", "cloud_backpointer", "R1", "include/tfhe_gate_bootstrapping_structures.h",
  r"s/    const LweBootstrappingKeyFFT \*const bkFFT;\n#ifdef/X/; 0,/    const LweBootstrappingKeyFFT \*const bkFFT;/s//    const LweBootstrappingKeyFFT *const bkFFT;\n    const struct LweKey *owner_key;/",
  "the cloud key set gains a pointer to the secret LWE key"),
 ("C17", "noiseless_bk", "R6", "libtfhe/lwe-bootstrapping-functions.cpp", r"s/        tGswSymEncryptInt(&bk->bk\[i\], kin\[i\], alpha, rgsw_key);/        tGswClear(\&bk->bk[i], bk_params); tGswAddMuIntH(\&bk->bk[i], kin[i], bk_params); (void) alpha;/", "bootstrapping key rows are trivial (unmasked) encodings of the LWE key bits"),
 ("C17", "encrypt_zero_short", "R6", "libtfhe/tgsw-functions.cpp", r"133s/p < kpl; ++p/p < kpl - 1; ++p/", "tGswEncryptZero leaves the last row unmasked before the key bit is added to it"),
 ("C17", "ks_row_unmasked", "R6", "libtfhe/lwe-keyswitch-functions.cpp", r"s/                lweSymEncryptWithExternalNoise(&result->ks\[i\]\[j\]\[h\], mess, noise\[index\], alpha, out_key);/                lweNoiselessTrivial(\&result->ks[i][j][h], mess + dtot32(noise[index]), out_key->params);/", "key-switching rows carry message + noise but no mask"),
 ("C16", "acc_not_initialised", "R7", "libtfhe/lwe-bootstrapping-functions-fft.cpp", r"s/^    tLweNoiselessTrivial(acc, testvectbis, accum_params);$/    (void) testvectbis;/", "the accumulator of the FFT blind rotation is used without being initialised (uninitialised heap read)"),
 ("C16", "gate_temp_not_initialised", "R7", "libtfhe/boot-gates.cpp", r"0,/    lweNoiselessTrivial(temp_result, NandConst, in_out_params);/s//    temp_result->b = NandConst;/", "bootsNAND sets only b of its scratch sample: the mask coefficients are read uninitialised"),
 ("C20", "cpp_only_field", "R2", "include/lwesamples.h", r"s/^   LweSample(const LweParams\* params);/   int32_t cpp_only_tag;\n   LweSample(const LweParams* params);/", "a field visible to C++ only: C and C++ layouts of LweSample diverge"),
 ("C20", "no_export", "R3", ["include/lwe-functions.h", "libtfhe/lwe-functions.cpp"],
  [r"s/^EXPORT void lweClear(LweSample\* result, const LweParams\* params);/void lweClear(LweSample* result, const LweParams* params);/", r"s/^EXPORT void lweClear(LweSample\* result, const LweParams\* params){/void lweClear(LweSample* result, const LweParams* params){/"],
  "EXPORT forgotten on a public function: C++ linkage, C clients cannot link"),
 ("C20", "proc_member", "R5", "libtfhe/fft_processors/spqlios/lagrangehalfc_impl.h", r"s/^    const int32_t Ns2;/    int32_t reserved_ = 0;\n    const int32_t Ns2;/", "a member inserted before Ns2: the assembly kernels read the wrong field"),
 ("C19", "threshold", "R1", "libtfhe/tfhe_gate_bootstrapping.cpp", r"s/minimum_lambda > 80 and minimum_lambda <= 128/minimum_lambda >= 80 and minimum_lambda <= 128/", ">= 80 selects the 128-bit set for 80"),
 ("C19", "n603", "R1", "libtfhe/tfhe_gate_bootstrapping.cpp", r"s/static const int32_t n = 630;/static const int32_t n = 603;/", "transposed digits in n"),
]

def main():
    here = os.path.dirname(os.path.dirname(os.path.abspath(__file__)))
    out = os.path.join(here, "mutants")
    n_ok = 0
    for pid, name, rule, files, exprs, what in M:
        if isinstance(files, str):
            files, exprs = [files], [exprs]
        d = ""
        for file, expr in zip(files, exprs):
            src = os.path.join("/repo/src", file)
            tmp = tempfile.mkdtemp()
            a = os.path.join(tmp, "a")
            shutil.copy(src, a)
            b = os.path.join(tmp, "b")
            shutil.copy(src, b)
            subprocess.run(["sed", "-i", expr, b], check=True)
            d += subprocess.run(["diff", "-u", "--label", "a/src/" + file, "--label", "b/src/" + file, a, b], stdout=subprocess.PIPE, text=True).stdout
            shutil.rmtree(tmp)
        if not d.strip():
            print("NO-OP:", pid, name)
            continue
        os.makedirs(os.path.join(out, pid), exist_ok=True)
        with open(os.path.join(out, pid, name + ".patch"), "w") as fh:
            fh.write("# expect: %s\n# what: %s\n" % (rule, what))
            fh.write(d)
        n_ok += 1
    print("written", n_ok, "of", len(M))

main()
