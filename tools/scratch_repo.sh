#!/bin/sh
# tools/scratch_repo.sh <patch> <dir>: make <dir>/repo = /repo's sources with <patch> applied (for interactive debugging of a rule);
# use with VERIF_REPO=<dir>/repo VERIF_EVIDENCE_DIR=<dir>/ev VERIF_WORK=<dir>/work. Remove <dir> afterwards.
set -e
S="$2"; rm -rf "$S"; mkdir -p "$S/repo" "$S/ev"
cp -r /repo/src "$S/repo/src"; rm -rf "$S/repo/src/test/googletest"
cp /repo/README.md "$S/repo/" 2>/dev/null || true
(cd "$S/repo" && patch -p1 -s < "$1")
echo "VERIF_REPO=$S/repo VERIF_EVIDENCE_DIR=$S/ev VERIF_WORK=$S/work"
