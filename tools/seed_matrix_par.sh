#!/bin/sh
# tools/seed_matrix_par.sh <dir with <seed>/patch.diff> <out-file> [jobs]: seed x check matrix, seeds in parallel
D=$1; OUT=$2; J=${3:-4}
T=$(mktemp -d /tmp/matrix.XXXXXX)
ls -d "$D"/*/ | xargs -P "$J" -I{} sh -c 's=$(basename {}); mkdir -p '"$T"'/one.$s; cp {}/patch.diff '"$T"'/one.$s/; mkdir -p '"$T"'/d.$s/$s; cp {}/patch.diff '"$T"'/d.$s/$s/; /verif/tools/seed_matrix.sh '"$T"'/d.$s > '"$T"'/$s.out 2>&1'
cat "$T"/*.out > "$OUT"
rm -rf "$T"
