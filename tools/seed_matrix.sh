#!/bin/sh
# tools/seed_matrix.sh <dir-with-out-CNN-or-seeded> : for every seeded change, run every check and print "seed check: rules fired / exit state"
D=${1:-/verif/seeded}
ALL="C01 C02 C03 C04 C05 C06 C07 C08 C09 C11 C12 C13 C14 C15 C16 C17 C18 C19 C20"
for p in "$D"/*/patch.diff; do
  s=$(basename "$(dirname "$p")")
  echo "== $s"
  /verif/tools/try_patch "$p" $ALL 2>&1 | awk '
    /^C[0-9]+ quick/ {cur=$1}
    /^ANALYSIS-BROKEN/ {match($0,/property=C[0-9]+/); print "   " substr($0,RSTART+9,RLENGTH-9) ": BROKEN"}
    /^  refuted: R[0-9]+/ { if ($0 !~ /known/) fired[cur]=fired[cur] " " $2 }
    END {for (c in fired) print "   " c ":" fired[c]}' | sort -u
done
