#!/usr/bin/env python3
"""update_expect.py: add instance minima for counts that appear in the current evidence files and have none yet
(half of the current count; never tightens or removes an existing entry).  Also one entry `rule:Rk` (min 1) per rule that
produces obligations today: a rule that silently stops producing any is analysis-broken, not a pass.
Run after all quick checks passed on the unchanged tree."""
import glob, json, os
V = os.path.dirname(os.path.dirname(os.path.abspath(__file__)))
p = os.path.join(V, "rules", "expect.json")
exp = json.load(open(p))
added = 0
# counts that legitimately shrink under behaviour-preserving rewrites (helpers merged): no minimum
NEVER = {"R6.base_masking_primitives"}
for f in sorted(glob.glob(os.path.join(V, "evidence", "C*.json"))):
    e = json.load(open(f))
    pid = e["property_id"]
    cov = e["coverage"]
    if cov.get("refuted", 0) - cov.get("known_findings", 0) > 0:
        continue
    d = exp.setdefault(pid, {})
    for k, n in sorted((cov.get("instance_counts") or {}).items()):
        if k in NEVER:
            continue
        if k not in d and n > 0:
            d[k] = {"min": (n + 1) // 2, "why": "%d on the tree the rules were confirmed on" % n}
            added += 1
    for r, c in sorted((cov.get("by_rule") or {}).items()):
        k = "rule:" + r
        if k not in d and c.get("proved", 0) + c.get("assumed", 0) > 0:
            d[k] = {"min": 1, "why": "%d obligations on the tree the rules were confirmed on" % (c.get("proved", 0) + c.get("assumed", 0) + c.get("refuted", 0))}
            added += 1
json.dump(exp, open(p, "w"), indent=1, sort_keys=True, ensure_ascii=False)
print("added", added)
