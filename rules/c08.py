"""C08 — key switching preserves the phase up to a bounded, unbiased error.

Decides (exact for all 2^32 mask values and all valid (t, basebit), by bit-field algebra): R1 the digits
tile the top t*basebit bits; R2 the rounding offset is half of the least significant kept bit; R3 the key
generator encrypts h*s_i*2^(shift_j) with the same weight expression the consumer's digit position has, and the
zero digit is skipped consistently with a trivial zero row; R4 result = (0,b) minus the selected rows over
all i < n, j < t; R5 the 3-level row table addresses ks0_raw[(i*t+j)*base+h] with extent n*t*base; R6 the row operation
lweSubTo is result -= row on b and on every mask coefficient for every target dimension (C14's rules for that operation,
including the strip-mined AVX2 kernel with its 4/2/1 tails).
Not decided: the statistical part with a noisy key.
"""
from sa import bits, summ, sym
from sa.facts import Program, walk
from sa.sym import I, ZERO

P = lambda p, f: sym.arrow(sym.sym(p), f)
NOINLINE = summ.LOCAL_HELPERS


def unsigned_shift_sites(fn):
    """(line, type of the left operand) of every >> in the function"""
    out = []
    for n in walk(fn.d.get("body")):
        if n.get("k") == "bin" and n.get("op") == ">>":
            out.append((n["l"], n["a"].get("t", "")))
    return out


def keyswitch_entry_by_interpretation(chk, v, e):
    """lweKeySwitch(result, ks, sample) run on concrete data (nothing of the library is executed: the effect tree of the function is
    evaluated): for (n, t, basebit) on a small grid and 8 mask vectors each, 32-bit unsigned arithmetic, the rows handed to lweSubTo
    -- resolved to indices of ks0_raw through the constructor's tables (R5) -- must be, as a multiset and ignoring digit 0 (a trivial
    zero, R3), the rows (i, j, digit_j) of the mask rounded with 2^(31 - t*basebit), after one lweNoiselessTrivial(result, sample->b, .).
    A call of lweKeySwitchTranslate_fromArray with the key's own arguments contributes those rows by its specification (R1).
    -> None or a witness"""
    from sa import concrete, symexec
    import itertools as _it
    r, k, s = [p["n"] for p in e.params]
    R_, K_, S_ = sym.sym(r), sym.sym(k), sym.sym(s)
    effs = symexec.run_function(v, e, hooks=NOINLINE)[0]
    M32 = (1 << 32) - 1
    n_t, t_t, bb_t, base_t = P(k, "n"), P(k, "t"), P(k, "basebit"), P(k, "base")
    masks_for = lambda n_, t_, bb: [[(0x9E3779B9 * (u + 1) * (i + 3) + (0xFFFFFFFF if u == 1 else 0) + (1 << max(0, 31 - t_ * bb)) * (u == 2)
                                      - (u == 3) + (0x80000000 if u == 4 else 0)) & M32 for i in range(n_)] for u in range(8)]

    class Run:
        def __init__(self, n_, t_, bb, a):
            self.n, self.t, self.bb, self.base, self.a = n_, t_, bb, 1 << bb, a
            self.live, self.snap = {}, {}
            self.rows, self.init, self.translated = [], [], 0

        def segment(self, env=None, loop=None):
            keep = set((loop or {}).get("derived") or ())      # derived variables are expressed over their value at loop entry
            self.snap = {k_: (self.snap[k_] if k_[1] in keep and k_ in self.snap else v_) for k_, v_ in self.live.items()}

        # ---- pointers: (array, offset) with array in {"raw", "a"}; rows of the key resolve to offsets of ks0_raw
        def pval(self, t, env):
            while t[0] == "cast":
                t = t[2]
            if t[0] == "var":
                val = self.snap.get(t)
                return val if isinstance(val, tuple) else None
            if t == P(k, "ks0_raw"):
                return ("raw", 0)
            if t == P(s, "a"):
                return ("a", 0)
            if t == P(k, "ks"):
                return ("ks", 0)                                # the table of per-coefficient row tables: offset counts coefficients
            if t[0] == "addr" and t[1][0] == "idx":
                b_ = self.pval(t[1][1], env)
                o_ = self.ival(t[1][2], env)
                return None if b_ is None or o_ is None else (b_[0], b_[1] + o_)
            if t[0] == "idx":                                   # a loaded pointer: ks->ks[i][j], ks->ks1_raw[q]
                b_, o_ = t[1], self.ival(t[2], env)
                if o_ is None:
                    return None
                if b_[0] == "idx" and b_[1] == P(k, "ks"):      # ks[i][j]
                    i_ = self.ival(b_[2], env)
                    return None if i_ is None else ("raw", (i_ * self.t + o_) * self.base)
                if b_ == P(k, "ks1_raw"):
                    return ("raw", o_ * self.base)
                pb = self.pval(b_, env)
                return None
            return None

        def ival(self, t, env):
            """32-bit unsigned value of a scalar term"""
            while t[0] == "cast":
                t = t[2]
            if t in env and isinstance(env[t], int):
                return env[t] & M32 if env[t] >= 0 else env[t]
            k_ = t[0]
            if k_ == "int":
                return t[1]
            if k_ == "var":
                val = self.snap.get(t)
                return val if isinstance(val, int) else None
            if t in (n_t,):
                return self.n
            if t == t_t:
                return self.t
            if t == bb_t:
                return self.bb
            if t == base_t:
                return self.base
            if k_ == "idx":
                pb = self.pval(t[1], env)
                o_ = self.ival(t[2], env)
                if pb is not None and o_ is not None and pb[0] == "a" and 0 <= pb[1] + o_ < self.n:
                    return self.a[pb[1] + o_]
                return None
            if k_ == "poly":
                tot = 0
                for mono, c in t[1]:
                    val = c
                    for a_ in mono:
                        x = self.ival(a_, env)
                        if x is None:
                            return None
                        val *= x
                    tot += val
                return tot
            if k_ == "cond":
                c = self.ival(t[1], env)
                return None if c is None else self.ival(t[2] if c else t[3], env)
            if k_ == "un":
                x = self.ival(t[2], env)
                return None if x is None else {"!": int(not x), "-": -x, "~": ~x & M32}.get(t[1])
            if k_ == "call" and t[1] == "$loop_end":
                sub = sym.subst(t, {n_t: I(self.n), t_t: I(self.t), bb_t: I(self.bb), base_t: I(self.base)})
                return concrete.eval_term(sym.fold(sub), {})
            if k_ == "op":
                a_, b_ = self.ival(t[2], env), self.ival(t[3], env)
                if a_ is None or b_ is None:
                    return None
                op = t[1]
                if op in (">>", "&", "|", "^", "%", "/"):
                    a_ &= M32                               # the rounded mask coefficient is a 32-bit unsigned quantity
                try:
                    return int({"<<": lambda: (a_ << b_), ">>": lambda: a_ >> b_, "&": lambda: a_ & b_, "|": lambda: a_ | b_, "^": lambda: a_ ^ b_,
                                "%": lambda: a_ % b_, "/": lambda: a_ // b_, "<": lambda: a_ < b_, "<=": lambda: a_ <= b_, ">": lambda: a_ > b_,
                                ">=": lambda: a_ >= b_, "==": lambda: (a_ - b_) & M32 == 0, "!=": lambda: (a_ - b_) & M32 != 0,
                                "&&": lambda: bool(a_) and bool(b_), "||": lambda: bool(a_) or bool(b_)}[op]())
                except (KeyError, ZeroDivisionError, ValueError):
                    return None
            return None

        def handler(self, kind, x, env):
            if kind == "cond":
                c = self.ival(x["cond"], env)
                return None if c is None else bool(c)
            if kind == "local":
                key_ = ("var", x["name"], x["id"])
                t = x["new"] if isinstance(x.get("new"), tuple) else x.get("val")
                val = self.ival(t, env) if isinstance(t, tuple) else None
                if val is None and isinstance(t, tuple):
                    val = self.pval(t, env)
                self.live[key_] = val
                return None
            if kind == "store":
                raise concrete.NotEvaluable("store to %s at line %s" % (sym.show(x["lv"])[:40], x.get("l")))
            if kind in ("alloc", "delete"):
                return None
            if kind != "call":
                raise concrete.NotEvaluable("%s at line %s" % (kind, x.get("l")))
            nm, a = x["name"], x.get("args", [])
            if x.get("noreturn"):
                return None
            if nm == "lweNoiselessTrivial":
                self.init.append((a[0] == R_, a[1] == P(s, "b"), a[2] == P(k, "out_params"), len(self.rows) + self.translated))
            elif nm == "lweSubTo":
                pv = self.pval(a[1], env)
                if a[0] != R_ or pv is None or pv[0] != "raw":
                    raise concrete.NotEvaluable("lweSubTo(%s, %s) at line %s: row not resolved" % (sym.show(a[0])[:20], sym.show(a[1])[:60], x.get("l")))
                self.rows.append(pv[1])
            elif nm == "lweKeySwitchTranslate_fromArray":
                if a == [R_, P(k, "ks"), P(k, "out_params"), P(s, "a"), n_t, t_t, bb_t]:
                    self.translated += 1
                    return None
                # the translation applied to a sub-range of the coefficients (the mask split in blocks): by its specification (R1) it
                # subtracts, for each coefficient i of its range and each level j, the row (i, j, digit_j(a_i))
                kp, ap = self.pval(a[1], env), self.pval(a[3], env)
                cnt, tt, bbv = self.ival(a[4], env), self.ival(a[5], env), self.ival(a[6], env)
                if a[0] != R_ or a[2] != P(k, "out_params") or kp is None or ap is None or kp[0] != "ks" or ap[0] != "a" or cnt is None \
                        or tt != self.t or bbv != self.bb or not (0 <= kp[1] and kp[1] + cnt <= self.n and 0 <= ap[1] and ap[1] + cnt <= self.n):
                    raise concrete.NotEvaluable("translation called with arguments that do not resolve to a range of the key's own tables at line %s" % x.get("l"))
                off_ = 1 << (32 - (1 + self.bb * self.t))
                for q_ in range(cnt):
                    ab_ = (self.a[ap[1] + q_] + off_) & M32
                    for j_ in range(self.t):
                        d_ = (ab_ >> (32 - (j_ + 1) * self.bb)) & ((1 << self.bb) - 1)
                        self.rows.append(((kp[1] + q_) * self.t + j_) * self.base + d_)
            else:
                raise concrete.NotEvaluable("call of %s at line %s" % (nm, x.get("l")))
            return None
    for n_, t_, bb in _it.product((1, 2, 3), (1, 2, 3, 4, 5), (1, 2, 3)):
        if t_ * bb > 31:
            continue
        for a in masks_for(n_, t_, bb):
            run_ = Run(n_, t_, bb, a)
            try:
                concrete.interpret(effs, {n_t: n_, t_t: t_, bb_t: bb, base_t: 1 << bb}, run_.handler, on_segment=run_.segment)
            except concrete.NotEvaluable as ex_:
                chk.broken("lweKeySwitch: not the known call sequence; by interpretation: %s" % ex_)
            dims = "n = %d, t = %d, basebit = %d, a = [%s]" % (n_, t_, bb, ", ".join("0x%08x" % x for x in a))
            if len(run_.init) != 1 or not all(run_.init[0][:3]) or run_.init[0][3] != 0:
                return "with %s: the result is not initialised exactly once to the trivial sample (0, sample->b) before the rows are subtracted" % dims
            want = []
            off = 1 << (32 - (1 + bb * t_))
            for i_ in range(n_):
                ab = (a[i_] + off) & M32
                for j_ in range(t_):
                    d_ = (ab >> (32 - (j_ + 1) * bb)) & ((1 << bb) - 1)
                    if d_:
                        want.append((i_ * t_ + j_) * (1 << bb) + d_)
            got = sorted(x for x in run_.rows if x % (1 << bb) != 0)
            if run_.translated:
                if run_.translated != 1 or got:
                    return "with %s: the translation is applied %d times and %d further rows are subtracted" % (dims, run_.translated, len(got))
                continue
            if got != sorted(want):
                extra, missing = sorted(set(got) - set(want)), sorted(set(want) - set(got))
                name = lambda q: "ks[%d][%d][%d]" % (q // (1 << bb) // t_, q // (1 << bb) % t_, q % (1 << bb))
                return "with %s: rows subtracted %s; the digits of the rounded mask select %s%s%s" % (
                    dims, [name(q) for q in got][:6], [name(q) for q in sorted(want)][:6],
                    "; not selected by any digit: %s" % name(extra[0]) if extra else "", "; never subtracted: %s" % name(missing[0]) if missing else "")
    return None


def check_entry(chk, v, rule="R4"):
    """the key-switch entry point the gates call: (0, b) minus the rows the digits of the rounded mask select -- through the
    translation function with the key's own arguments, or decided by running the entry point on concrete masks"""
    vn = v.name
    # R4 entry point
    e = v.fn("lweKeySwitch")
    eps, _ = summ.pieces(v, e, hooks=NOINLINE)
    r, k, s = [p["n"] for p in e.params]
    triv = [p for p in eps if p["kind"] == "call" and p["name"] == "lweNoiselessTrivial"]
    tr = [p for p in eps if p["kind"] == "call" and p["name"] == "lweKeySwitchTranslate_fromArray"]
    if len(tr) != 1 or len(triv) != 1:
        # the translation written out in the entry point (or split over helpers): decided by running the entry point on concrete
        # masks for small (n, t, basebit) and comparing the rows it subtracts with the digits of the rounded mask
        wit = keyswitch_entry_by_interpretation(chk, v, e)
        chk.require(wit is None, rule, "lweKeySwitch starts from (0, b) and translates by the rows selected from a with the key's own (n, t, basebit)",
                    where=e.where, ok="interpreted for n in 1..3, t in 1..5, basebit in 1..3 on 8 masks each: result = (0, b) - sum of rows "
                    "ks[i][j][digit_j(a_i + 2^(31 - t*basebit))] over the non-zero digits", bad=wit or "", variant=vn)
    else:
        ok = triv[0]["line"] < tr[0]["line"] and \
            triv[0]["args"][:3] == [sym.sym(r), P(s, "b"), P(k, "out_params")] and \
            tr[0]["args"] == [sym.sym(r), P(k, "ks"), P(k, "out_params"), P(s, "a"), P(k, "n"), P(k, "t"), P(k, "basebit")]
        chk.require(ok, rule, "lweKeySwitch starts from (0, b) and translates by the rows selected from a with the key's own (n, t, basebit)",
                    where=e.where, ok="lweNoiselessTrivial(result, sample->b) then translate(result, ks->ks, sample->a, ks->n, ks->t, ks->basebit)",
                    bad="calls: %s" % [summ.show_piece(p) for p in eps if p["kind"] == "call"], variant=vn)


def run(chk):
    prog = Program()
    chk.explanation = (
        "The digit extraction of the key switch and the message weights of the key generator are normalised to "
        "bit fields (x >> s) & (2^w - 1) and powers of two with exponents affine in the symbols (j, t, basebit); "
        "tiling, rounding offset and generator/consumer weight agreement are identities between those exponent "
        "polynomials, hence hold for every coefficient value and every valid digit layout.")
    chk.trusted = ["clang 14 front end", "summariser", "bit-field algebra (sa/bits.py)"]
    for v in prog.variants():
        vn = v.name
        chk.analysed["variants"] = chk.analysed.get("variants", 0) + 1
        # R8 digit extraction and row messages use logical shifts only
        from sa import shifts as _shifts
        _shifts.check(chk, v, "R8", ["libtfhe/lwe-keyswitch-functions.cpp", "libtfhe/lwekeyswitch.cpp"], "key switch")
        from rules import c04, c14
        c14.check_lwe_op(c04._Sub(chk, "R6"), v, "lweSubTo", c14.LWE_OPS["lweSubTo"])
        f = v.fn("lweKeySwitchTranslate_fromArray")
        ps, _ = summ.pieces(v, f, hooks=NOINLINE)
        res, ks, params, ai, n, t, basebit = [p["n"] for p in f.params]
        W, T, Nn = sym.sym(basebit), sym.sym(t), sym.sym(n)
        subs = [p for p in ps if p["kind"] == "call" and p["name"] == "lweSubTo"]
        chk.vcount(vn, "R1.digit_consumers", len(subs))
        if len(subs) != 1:
            chk.broken("lweKeySwitchTranslate_fromArray: expected one row subtraction, found %d" % len(subs))
        c = subs[0]
        if len(c["loops"]) != 2:
            chk.broken("row subtraction is not inside an (i, j) nest")
        inplace = [p_ for p_ in ps if p_["kind"] == "store" and sym.root_of(p_["lv"]) == sym.sym(ai)]
        if inplace:
            # the rounding offset is added to (and later removed from) the caller's mask array instead of a local copy: the digit
            # expression then depends on the pass that ran before it -- an arrangement the digit rules below do not model
            # (whether the input is restored is C15's question)
            chk.broken("lweKeySwitchTranslate_fromArray: the input mask is patched in place at line %s; the digit rules do not model a value carried "
                       "from one level pass to the next" % inplace[0]["line"])
        il, jl = c["loops"]
        i, j = il["var"], jl["var"]
        row = c["args"][1]           # &ks[i][j][aij]
        if not (row[0] == "addr" and row[1][0] == "idx"):
            chk.broken("row operand %s not recognised" % sym.show(row))
        digit = row[1][2]
        rowbase = row[1][1]
        fld = bits.field_of(digit)
        key1 = "digits (aibar >> shift_j) & mask tile the top t*basebit bits"
        if fld is None:
            d0 = digit
            while d0[0] == "cast":
                d0 = d0[2]
            if d0[0] == "op" and d0[1] == "&":
                chk.refuted("R1", key1, where="%s:%s" % (f.file, c["line"]),
                            detail="digit is %s: neither operand of '&' is a mask 2^w - 1, so digits overlap / exceed the base" % sym.show(digit),
                            variant=vn)
                continue
            chk.broken("digit %s is not a bit field" % sym.show(digit))
        x, shift, width = fld
        ok, detail, lowest = bits.tiling(shift, width, j, T)
        okw = width == W
        chk.require(ok and okw, "R1", key1, where="%s:%s" % (f.file, c["line"]),
                    ok=detail + "; mask width == basebit", bad=(detail if not ok else "mask is %s bits wide, the base has %s" % (sym.show(width), sym.show(W))),
                    variant=vn)
        shifts = unsigned_shift_sites(f)
        chk.require(all("unsigned" in ty for _, ty in shifts) and shifts, "R1", "digit extraction shifts an unsigned value (logical shift)",
                    where=f.where, ok="%d shift site(s), all unsigned" % len(shifts), bad="operand types %s" % shifts, variant=vn, nontrivial=False)
        rng_ok = summ.visits(il, ZERO, Nn) and summ.visits(jl, ZERO, T)
        chk.require(rng_ok and rowbase == sym.idx(sym.idx(sym.sym(ks), i), j) and c["args"][0] == sym.sym(res), "R4",
                    "every (i, j) with i < n, j < t contributes row ks[i][j][digit] by subtraction from result",
                    where="%s:%s" % (f.file, c["line"]), ok="lweSubTo(result, &ks[i][j][digit]) over [0,n) x [0,t)",
                    bad="ranges [%s,%s) x [%s,%s), row %s" % (sym.show(il["lo"]), sym.show(il["hi"]), sym.show(jl["lo"]), sym.show(jl["hi"]), sym.show(row)),
                    variant=vn)
        # R2 rounding offset
        key2 = "rounding offset is half of the least significant kept bit"
        lt = sym.poly_items(x)
        src = sym.idx(sym.sym(ai), i)
        offs = sym.sub(x, src)
        e = bits.pow2_exp(offs)
        if e is None:
            chk.refuted("R2", key2, where=f.where, detail="the shifted value is %s: no power-of-two rounding offset is added to a_i "
                        "(truncation: mean error -2^(31-t*basebit) per coefficient)" % sym.show(x), variant=vn)
        else:
            want = sym.sub(lowest, I(1)) if lowest is not None else None
            chk.require(e == want, "R2", key2, where=f.where, ok="offset 2^(%s) with lowest kept bit %s" % (sym.show(e), sym.show(lowest)),
                        bad="offset 2^(%s), lowest kept bit is %s (half an LSB is 2^(%s))" % (sym.show(e), sym.show(lowest), sym.show(want)),
                        variant=vn)
        # zero digit skipped
        guards = c["guards"]
        nz = (sym.binop("!=", digit, ZERO), ("op", "!=", digit, ZERO))
        skip = any(g_ in nz for g_ in guards)
        extra = [g_ for g_ in guards if g_ not in nz]
        if extra:
            # R7: a coefficient (or digit) may be skipped only when the digit it would select is 0 -- decided by evaluating the
            # skip condition and the digit expression (both closed terms over the coefficient, j, t, basebit) on boundary
            # coefficients for every valid layout with t*basebit <= 12
            from sa.secretflow import eval_term
            aiv = sym.idx(sym.sym(ai), i)
            wit = None
            checked = 0
            for tv in range(1, 7):
                for bv in range(1, 7):
                    tb = tv * bv
                    if tb > 12 or wit:
                        continue
                    cands = set()
                    for e_ in range(31 - tb - 1, 32):
                        for dlt in (-1, 0, 1):
                            cands.add(((1 << e_) + dlt) & 0xFFFFFFFF)
                    cands |= {0, 1, 0xFFFFFFFF, 0x80000000}
                    for av in sorted(cands):
                        for jv in range(tv):
                            env = {aiv: av, T: tv, W: bv, j: jv}
                            dv = eval_term(digit, env)
                            gv = [eval_term(g_, env) for g_ in extra]
                            if dv is None or any(x is None for x in gv):
                                chk.broken("lweKeySwitchTranslate_fromArray: skip condition %s not evaluable" % [sym.show(g_) for g_ in extra])
                            checked += 1
                            dv &= (1 << bv) - 1
                            if not all(gv) and dv != 0 and wit is None:
                                wit = (tv, bv, jv, av, dv)
            chk.require(wit is None, "R7", "a coefficient is skipped only when every digit it selects is 0", where="%s:%s" % (f.file, c["line"]),
                        ok="extra condition(s) %s imply digit == 0 on %d boundary evaluations" % ([sym.show(g_)[:50] for g_ in extra], checked),
                        bad="with t = %d, basebit = %d: the coefficient 0x%08x is skipped by %s although its rounded digit %d is %d (the test looks at the "
                            "raw coefficient, the digits are taken after adding the rounding offset): the row is not subtracted" % (
                                (wit or (0, 0, 0, 0, 0))[0], (wit or (0,) * 5)[1], (wit or (0,) * 5)[3], [sym.show(g_)[:60] for g_ in extra],
                                (wit or (0,) * 5)[2], (wit or (0,) * 5)[4]), variant=vn)
        # R3 generator agreement
        for gname in ("lweCreateKeySwitchKey", "lweCreateKeySwitchKey_fromArray"):
            g = v.fn(gname, required=False)
            if g is None:
                continue
            gps, _ = summ.pieces(v, g, hooks=NOINLINE)
            encs = [p for p in gps if p["kind"] == "call" and p["name"].startswith("lweSymEncrypt")]
            zero_rows = [p for p in gps if p["kind"] == "call" and p["name"] == "lweNoiselessTrivial"]
            key3 = "%s: row (i,j,h) encrypts h*s_i*2^(shift_j), the weight of digit position j" % gname
            if len(encs) != 1 or len(encs[0]["loops"]) != 3:
                chk.broken("%s: expected one encryption in an (i,j,h) nest" % gname)
            en = encs[0]
            gi, gj, gh = (l["var"] for l in en["loops"])
            mess = en["args"][1]
            pre_problems = []
            cm = mess
            while cm[0] == "cast":
                cm = cm[2]
            if cm[0] == "call" and cm[1] == "modSwitchToTorus32" and len(cm[2]) == 2:
                # modSwitchToTorus32(mu, 2^e) = mu * 2^(32-e) (C13.R3) -- valid only while 2^e fits the int32 parameter Msize (e <= 30)
                e_mod = bits.pow2_exp(cm[2][1])
                if e_mod is None:
                    chk.broken("%s: modulus %s of modSwitchToTorus32 is not a power of two" % (gname, sym.show(cm[2][1])))
                mess = sym.mul(cm[2][0], ("op", "<<", I(1), sym.sub(I(32), e_mod)))
                jv, tt, bbv = en["loops"][1]["var"], en["loops"][1]["hi"], None
                for m_, _c in sym.poly_items(e_mod):
                    for a in m_:
                        if a != jv and a[0] in ("sym", "fld"):
                            bbv = a
                wit = None
                if bbv is not None:
                    from sa.secretflow import eval_term
                    for tv in range(1, 32):
                        for bv in range(1, 32):
                            if tv * bv > 31:
                                continue
                            ev = eval_term(e_mod, {jv: tv - 1, bbv: bv})
                            if ev is not None and ev > 30 and wit is None:
                                wit = (tv, bv, tv - 1, ev)
                if wit:
                    pre_problems.append("the message is computed by modSwitchToTorus32(.., 2^(%s)), whose modulus parameter is an int32: for the valid layout "
                                        "t = %d, basebit = %d the last digit (j = %d) needs 2^%d, which is not representable (the interval "
                                        "(2^63/Msize)*2 becomes 0 and the row encrypts 0 instead of h*s_i*2^-31)" % (
                                            sym.show(e_mod), wit[0], wit[1], wit[2], wit[3]))
            rest, e3 = bits.split_weight(mess)
            ren = {gj: j}
            # the generator's basebit symbol may be a field of the key: compare after naming it like the consumer's
            gb = None
            for m_, _c in sym.poly_items(e3):
                for a in m_:
                    if a != gj and a[0] in ("sym", "fld"):
                        gb = a
            e3n = sym.subst(sym.subst(e3, ren), {gb: W} if gb is not None else {})
            problems = list(pre_problems)
            if e3n != shift:
                problems.append("generator weight 2^(%s), consumer digit position 2^(%s)" % (sym.show(e3n), sym.show(shift)))
            # rest must be key[i] * h
            factors = set()
            for m, cf in sym.poly_items(rest):
                factors.update(m)
                if cf != 1:
                    problems.append("message coefficient %s" % cf)
            if gh not in factors or not any(a[0] == "idx" and a[2] == gi for a in factors) or len(factors) != 2:
                problems.append("message %s is not key[i]*h*weight" % sym.show(mess))
            row3 = en["args"][0]
            hl = en["loops"][2]
            def via_raw(ptr, vi, vj):
                """a row reached through the raw array: ks[i][j] = ks0_raw + (i*t + j)*base (the constructor's tables, R5), so
                &ks0_raw[(i*t + j)*base + r] is &ks[i][j][r] when r does not depend on i and j"""
                rb_, ro_ = sym.ptr_split(ptr)
                if not (rb_[0] == "fld" and rb_[2] == "ks0_raw"):
                    return ptr
                K_ = rb_[1]
                t_f, b_f, bb_f = sym.fld(K_, "t"), sym.fld(K_, "base"), sym.fld(K_, "basebit")
                ro2 = sym.rewrite(sym.trip_counts_nonneg(ro_), {("op", "<<", I(1), bb_f): b_f})
                r_ = sym.sub(ro2, sym.mul(sym.add(sym.mul(vi, t_f), vj), b_f))
                if sym.contains(r_, vi) or sym.contains(r_, vj):
                    return ptr
                return sym.addr(sym.idx(sym.idx(sym.idx(sym.fld(K_, "ks"), vi), vj), r_))
            row3 = via_raw(row3, gi, gj)
            for z in zero_rows:
                if len(z["loops"]) >= 2 and not z.get("_canon"):
                    z["args"] = [via_raw(z["args"][0], z["loops"][0]["var"], z["loops"][1]["var"])] + list(z["args"][1:])
                    z["_canon"] = True
            if not (row3[0] == "addr" and row3[1][0] == "idx" and row3[1][2] == gh and row3[1][1][0] == "idx" and row3[1][1][2] == gj
                    and row3[1][1][1][0] == "idx" and row3[1][1][1][2] == gi):
                # a row reached some other way (a pointer walking ks0_raw whose progress is not in closed form, ...): the rule
                # compares subscripts [i][j][h]; anything else is undecided here, not a violation
                chk.broken("%s: row operand %s is not of the form [i][j][h]" % (gname, sym.show(row3)[:120]))
            lo_h = sym.const_value(hl["lo"])
            if lo_h == 1:
                row0 = row3[1][1] if row3[0] == "addr" else None          # ks[i][j] == &ks[i][j][0]
                zr = [z for z in zero_rows if z["args"][1] == ZERO and len(z["loops"]) == 2 and
                      sym.subst(z["args"][0], {z["loops"][0]["var"]: gi, z["loops"][1]["var"]: gj}) == row0]
                if not zr:
                    problems.append("rows h >= 1 are generated but row 0 is not a trivial zero")
                if not skip:
                    problems.append("the consumer does not skip digit 0 although row 0 carries no key-dependent message")
            elif lo_h == 0:
                pass        # row 0 encrypts 0*s_i: subtracting it is harmless whether or not the consumer skips it
            else:
                problems.append("digit loop starts at %s" % sym.show(hl["lo"]))
            hi_h = hl["hi"] if hl["cmp"] == "<" else sym.add(hl["hi"], I(1))
            eb = bits.pow2_exp(hi_h)
            if eb is None or (gb is not None and sym.subst(eb, {gb: W}) != W):
                problems.append("digit loop ends at %s, not at 2^basebit" % sym.show(hi_h))
            chk.require(not problems, "R3", key3, where="%s:%s" % (g.file, en["line"]),
                        ok="message = key[i]*h*2^(%s); rows h in [%s, 2^basebit); row 0 %s" % (
                            sym.show(e3n), sym.show(hl["lo"]), "trivial zero, skipped by the consumer" if lo_h == 1 else "encrypts 0"),
                        bad="; ".join(problems), variant=vn)
            chk.vcount(vn, "R3.generators")
        check_entry(chk, v)
        # R5 table layout
        ctor = [c2 for c2 in v.defined() if c2.get("record") == "LweKeySwitchKey" and c2.get("kind") == "ctor" and not c2.get("implicit")]
        if len(ctor) != 1:
            chk.broken("LweKeySwitchKey constructor not found")
        cps, _ = summ.pieces(v, ctor[0], hooks=NOINLINE)
        cn = {p["n"]: sym.sym(p["n"]) for p in ctor[0].params}
        st = {sym.show(p["lv"]).split("[")[0]: p for p in cps if p["kind"] == "store" and p["loops"]}
        problems = []
        this = sym.sym("this")
        base_t = sym.arrow(this, "base")
        from sa import bounds
        # each table statement A[e] = &B[f] (index computed or carried by walking pointers, loops fused or not, filled directly or
        # through a local stored into the field afterwards): f == stride * e identically (sa/tables.py), and the indices e visit
        # [0, extent of A) exactly once for every (n, t) -- enumerated for n, t in 1..3
        import itertools
        from sa import tables, concrete
        from sa.secretflow import eval_term
        nps, fvals, norm = tables.normalised(v, ctor[0], this)
        base_v = fvals.get(base_t, base_t)
        want = {"ks1_raw": ("ks0_raw", base_v, sym.mul(cn["n"], cn["t"])), "ks": ("ks1_raw", cn["t"], cn["n"])}
        for A_, (B_, stride, extent) in want.items():
            B, c, sts = tables.table(nps, this, A_)
            if B is None:
                problems.append(c)
                continue
            if B != B_ or norm(c) != norm(stride):
                problems.append("%s[e] = %s + (%s)*e, expected %s + (%s)*e" % (A_, B, sym.show(c), B_, sym.show(norm(stride))))
                continue
            for nv, tv in itertools.product((1, 2, 3), repeat=2):
                env0 = {cn["n"]: nv, cn["t"]: tv, cn["basebit"]: 1}
                try:
                    xs = tables.visited(sts, env0)
                except concrete.NotEvaluable as e:
                    chk.broken("LweKeySwitchKey constructor: %s" % e)
                ext_v = eval_term(norm(extent), env0)
                if xs != list(range(ext_v)):
                    problems.append("with n = %d, t = %d the statements fill entries %s of %s, which has %d entries" % (nv, tv, xs[:8], A_, ext_v))
                    break
        basest = [p for p in cps if p["kind"] == "store" and p["lv"] == base_t]
        if len(basest) != 1 or bits.pow2_exp(fvals.get(base_t, basest[0]["val"])) != cn["basebit"]:
            problems.append("base is not 1 << basebit")
        ini = v.fn("init_LweKeySwitchKey")
        ips, _ = summ.pieces(v, ini, hooks=NOINLINE)
        al = [p for p in ips if p["kind"] == "call" and p["name"] == "new_LweSample_array"]
        inn = {p["n"]: sym.sym(p["n"]) for p in ini.params}
        if len(al) != 1:
            problems.append("row storage allocation not found")
        else:
            ext = al[0]["args"][0]
            rest, eb = bits.split_weight(ext)
            if eb != inn["basebit"] or rest != sym.mul(inn["n"], inn["t"]):
                problems.append("row storage has %s rows, expected n*t*2^basebit" % sym.show(ext))
        chk.require(not problems, "R5", "ks[i][j][h] addresses ks0_raw[(i*t+j)*base+h] within n*t*base rows", where=ctor[0].where,
                    ok="ks1_raw[p] = ks0_raw + base*p (p < n*t), ks[p] = ks1_raw + t*p (p < n), base = 2^basebit, n*t*base rows allocated",
                    bad="; ".join(problems), variant=vn)
