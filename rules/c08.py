"""C08 — key switching preserves the phase up to a bounded, unbiased error.

Decides (exact for all 2^32 mask values and all valid (t, basebit), by bit-field algebra): R1 the digits
tile the top t*basebit bits; R2 the rounding offset is half of the least significant kept bit; R3 the key
generator encrypts h*s_i*2^(shift_j) with the same weight expression the consumer's digit position has, and the
zero digit is skipped consistently with a trivial zero row; R4 result = (0,b) minus the selected rows over
all i < n, j < t; R5 the 3-level row table addresses ks0_raw[(i*t+j)*base+h] with extent n*t*base; R6 the row operation
lweSubTo is result -= row on b and on every mask coefficient for every target dimension (C14's rules for that operation,
including the strip-mined AVX2 kernel with its 4/2/1 tails).
Not decided: the statistical part with a noisy key.
"""
from sa import bits, summ, sym
from sa.facts import Program, walk
from sa.sym import I, ZERO

P = lambda p, f: sym.arrow(sym.sym(p), f)
NOINLINE = summ.LOCAL_HELPERS


def unsigned_shift_sites(fn):
    """(line, type of the left operand) of every >> in the function"""
    out = []
    for n in walk(fn.d.get("body")):
        if n.get("k") == "bin" and n.get("op") == ">>":
            out.append((n["l"], n["a"].get("t", "")))
    return out


def run(chk):
    prog = Program()
    chk.explanation = (
        "The digit extraction of the key switch and the message weights of the key generator are normalised to "
        "bit fields (x >> s) & (2^w - 1) and powers of two with exponents affine in the symbols (j, t, basebit); "
        "tiling, rounding offset and generator/consumer weight agreement are identities between those exponent "
        "polynomials, hence hold for every coefficient value and every valid digit layout.")
    chk.trusted = ["clang 14 front end", "summariser", "bit-field algebra (sa/bits.py)"]
    for v in prog.variants():
        vn = v.name
        chk.analysed["variants"] = chk.analysed.get("variants", 0) + 1
        from rules import c04, c14
        c14.check_lwe_op(c04._Sub(chk, "R6"), v, "lweSubTo", c14.LWE_OPS["lweSubTo"])
        f = v.fn("lweKeySwitchTranslate_fromArray")
        ps, _ = summ.pieces(v, f, hooks=NOINLINE)
        res, ks, params, ai, n, t, basebit = [p["n"] for p in f.params]
        W, T, Nn = sym.sym(basebit), sym.sym(t), sym.sym(n)
        subs = [p for p in ps if p["kind"] == "call" and p["name"] == "lweSubTo"]
        chk.vcount(vn, "R1.digit_consumers", len(subs))
        if len(subs) != 1:
            chk.broken("lweKeySwitchTranslate_fromArray: expected one row subtraction, found %d" % len(subs))
        c = subs[0]
        if len(c["loops"]) != 2:
            chk.broken("row subtraction is not inside an (i, j) nest")
        il, jl = c["loops"]
        i, j = il["var"], jl["var"]
        row = c["args"][1]           # &ks[i][j][aij]
        if not (row[0] == "addr" and row[1][0] == "idx"):
            chk.broken("row operand %s not recognised" % sym.show(row))
        digit = row[1][2]
        rowbase = row[1][1]
        fld = bits.field_of(digit)
        key1 = "digits (aibar >> shift_j) & mask tile the top t*basebit bits"
        if fld is None:
            d0 = digit
            while d0[0] == "cast":
                d0 = d0[2]
            if d0[0] == "op" and d0[1] == "&":
                chk.refuted("R1", key1, where="%s:%s" % (f.file, c["line"]),
                            detail="digit is %s: neither operand of '&' is a mask 2^w - 1, so digits overlap / exceed the base" % sym.show(digit),
                            variant=vn)
                continue
            chk.broken("digit %s is not a bit field" % sym.show(digit))
        x, shift, width = fld
        ok, detail, lowest = bits.tiling(shift, width, j, T)
        okw = width == W
        chk.require(ok and okw, "R1", key1, where="%s:%s" % (f.file, c["line"]),
                    ok=detail + "; mask width == basebit", bad=(detail if not ok else "mask is %s bits wide, the base has %s" % (sym.show(width), sym.show(W))),
                    variant=vn)
        shifts = unsigned_shift_sites(f)
        chk.require(all("unsigned" in ty for _, ty in shifts) and shifts, "R1", "digit extraction shifts an unsigned value (logical shift)",
                    where=f.where, ok="%d shift site(s), all unsigned" % len(shifts), bad="operand types %s" % shifts, variant=vn, nontrivial=False)
        rng_ok = summ.visits(il, ZERO, Nn) and summ.visits(jl, ZERO, T)
        chk.require(rng_ok and rowbase == sym.idx(sym.idx(sym.sym(ks), i), j) and c["args"][0] == sym.sym(res), "R4",
                    "every (i, j) with i < n, j < t contributes row ks[i][j][digit] by subtraction from result",
                    where="%s:%s" % (f.file, c["line"]), ok="lweSubTo(result, &ks[i][j][digit]) over [0,n) x [0,t)",
                    bad="ranges [%s,%s) x [%s,%s), row %s" % (sym.show(il["lo"]), sym.show(il["hi"]), sym.show(jl["lo"]), sym.show(jl["hi"]), sym.show(row)),
                    variant=vn)
        # R2 rounding offset
        key2 = "rounding offset is half of the least significant kept bit"
        lt = sym.poly_items(x)
        src = sym.idx(sym.sym(ai), i)
        offs = sym.sub(x, src)
        e = bits.pow2_exp(offs)
        if e is None:
            chk.refuted("R2", key2, where=f.where, detail="the shifted value is %s: no power-of-two rounding offset is added to a_i "
                        "(truncation: mean error -2^(31-t*basebit) per coefficient)" % sym.show(x), variant=vn)
        else:
            want = sym.sub(lowest, I(1)) if lowest is not None else None
            chk.require(e == want, "R2", key2, where=f.where, ok="offset 2^(%s) with lowest kept bit %s" % (sym.show(e), sym.show(lowest)),
                        bad="offset 2^(%s), lowest kept bit is %s (half an LSB is 2^(%s))" % (sym.show(e), sym.show(lowest), sym.show(want)),
                        variant=vn)
        # zero digit skipped
        guards = c["guards"]
        nz = (sym.binop("!=", digit, ZERO), ("op", "!=", digit, ZERO))
        skip = any(g_ in nz for g_ in guards)
        extra = [g_ for g_ in guards if g_ not in nz]
        if extra:
            # R7: a coefficient (or digit) may be skipped only when the digit it would select is 0 -- decided by evaluating the
            # skip condition and the digit expression (both closed terms over the coefficient, j, t, basebit) on boundary
            # coefficients for every valid layout with t*basebit <= 12
            from sa.secretflow import eval_term
            aiv = sym.idx(sym.sym(ai), i)
            wit = None
            checked = 0
            for tv in range(1, 7):
                for bv in range(1, 7):
                    tb = tv * bv
                    if tb > 12 or wit:
                        continue
                    cands = set()
                    for e_ in range(31 - tb - 1, 32):
                        for dlt in (-1, 0, 1):
                            cands.add(((1 << e_) + dlt) & 0xFFFFFFFF)
                    cands |= {0, 1, 0xFFFFFFFF, 0x80000000}
                    for av in sorted(cands):
                        for jv in range(tv):
                            env = {aiv: av, T: tv, W: bv, j: jv}
                            dv = eval_term(digit, env)
                            gv = [eval_term(g_, env) for g_ in extra]
                            if dv is None or any(x is None for x in gv):
                                chk.broken("lweKeySwitchTranslate_fromArray: skip condition %s not evaluable" % [sym.show(g_) for g_ in extra])
                            checked += 1
                            dv &= (1 << bv) - 1
                            if not all(gv) and dv != 0 and wit is None:
                                wit = (tv, bv, jv, av, dv)
            chk.require(wit is None, "R7", "a coefficient is skipped only when every digit it selects is 0", where="%s:%s" % (f.file, c["line"]),
                        ok="extra condition(s) %s imply digit == 0 on %d boundary evaluations" % ([sym.show(g_)[:50] for g_ in extra], checked),
                        bad="with t = %d, basebit = %d: the coefficient 0x%08x is skipped by %s although its rounded digit %d is %d (the test looks at the "
                            "raw coefficient, the digits are taken after adding the rounding offset): the row is not subtracted" % (
                                (wit or (0, 0, 0, 0, 0))[0], (wit or (0,) * 5)[1], (wit or (0,) * 5)[3], [sym.show(g_)[:60] for g_ in extra],
                                (wit or (0,) * 5)[2], (wit or (0,) * 5)[4]), variant=vn)
        # R3 generator agreement
        for gname in ("lweCreateKeySwitchKey", "lweCreateKeySwitchKey_fromArray"):
            g = v.fn(gname, required=False)
            if g is None:
                continue
            gps, _ = summ.pieces(v, g, hooks=NOINLINE)
            encs = [p for p in gps if p["kind"] == "call" and p["name"].startswith("lweSymEncrypt")]
            zero_rows = [p for p in gps if p["kind"] == "call" and p["name"] == "lweNoiselessTrivial"]
            key3 = "%s: row (i,j,h) encrypts h*s_i*2^(shift_j), the weight of digit position j" % gname
            if len(encs) != 1 or len(encs[0]["loops"]) != 3:
                chk.broken("%s: expected one encryption in an (i,j,h) nest" % gname)
            en = encs[0]
            gi, gj, gh = (l["var"] for l in en["loops"])
            mess = en["args"][1]
            pre_problems = []
            cm = mess
            while cm[0] == "cast":
                cm = cm[2]
            if cm[0] == "call" and cm[1] == "modSwitchToTorus32" and len(cm[2]) == 2:
                # modSwitchToTorus32(mu, 2^e) = mu * 2^(32-e) (C13.R3) -- valid only while 2^e fits the int32 parameter Msize (e <= 30)
                e_mod = bits.pow2_exp(cm[2][1])
                if e_mod is None:
                    chk.broken("%s: modulus %s of modSwitchToTorus32 is not a power of two" % (gname, sym.show(cm[2][1])))
                mess = sym.mul(cm[2][0], ("op", "<<", I(1), sym.sub(I(32), e_mod)))
                jv, tt, bbv = en["loops"][1]["var"], en["loops"][1]["hi"], None
                for m_, _c in sym.poly_items(e_mod):
                    for a in m_:
                        if a != jv and a[0] in ("sym", "fld"):
                            bbv = a
                wit = None
                if bbv is not None:
                    from sa.secretflow import eval_term
                    for tv in range(1, 32):
                        for bv in range(1, 32):
                            if tv * bv > 31:
                                continue
                            ev = eval_term(e_mod, {jv: tv - 1, bbv: bv})
                            if ev is not None and ev > 30 and wit is None:
                                wit = (tv, bv, tv - 1, ev)
                if wit:
                    pre_problems.append("the message is computed by modSwitchToTorus32(.., 2^(%s)), whose modulus parameter is an int32: for the valid layout "
                                        "t = %d, basebit = %d the last digit (j = %d) needs 2^%d, which is not representable (the interval "
                                        "(2^63/Msize)*2 becomes 0 and the row encrypts 0 instead of h*s_i*2^-31)" % (
                                            sym.show(e_mod), wit[0], wit[1], wit[2], wit[3]))
            rest, e3 = bits.split_weight(mess)
            ren = {gj: j}
            # the generator's basebit symbol may be a field of the key: compare after naming it like the consumer's
            gb = None
            for m_, _c in sym.poly_items(e3):
                for a in m_:
                    if a != gj and a[0] in ("sym", "fld"):
                        gb = a
            e3n = sym.subst(sym.subst(e3, ren), {gb: W} if gb is not None else {})
            problems = list(pre_problems)
            if e3n != shift:
                problems.append("generator weight 2^(%s), consumer digit position 2^(%s)" % (sym.show(e3n), sym.show(shift)))
            # rest must be key[i] * h
            factors = set()
            for m, cf in sym.poly_items(rest):
                factors.update(m)
                if cf != 1:
                    problems.append("message coefficient %s" % cf)
            if gh not in factors or not any(a[0] == "idx" and a[2] == gi for a in factors) or len(factors) != 2:
                problems.append("message %s is not key[i]*h*weight" % sym.show(mess))
            row3 = en["args"][0]
            hl = en["loops"][2]
            def via_raw(ptr, vi, vj):
                """a row reached through the raw array: ks[i][j] = ks0_raw + (i*t + j)*base (the constructor's tables, R5), so
                &ks0_raw[(i*t + j)*base + r] is &ks[i][j][r] when r does not depend on i and j"""
                rb_, ro_ = sym.ptr_split(ptr)
                if not (rb_[0] == "fld" and rb_[2] == "ks0_raw"):
                    return ptr
                K_ = rb_[1]
                t_f, b_f, bb_f = sym.fld(K_, "t"), sym.fld(K_, "base"), sym.fld(K_, "basebit")
                ro2 = sym.rewrite(sym.trip_counts_nonneg(ro_), {("op", "<<", I(1), bb_f): b_f})
                r_ = sym.sub(ro2, sym.mul(sym.add(sym.mul(vi, t_f), vj), b_f))
                if sym.contains(r_, vi) or sym.contains(r_, vj):
                    return ptr
                return sym.addr(sym.idx(sym.idx(sym.idx(sym.fld(K_, "ks"), vi), vj), r_))
            row3 = via_raw(row3, gi, gj)
            for z in zero_rows:
                if len(z["loops"]) >= 2 and not z.get("_canon"):
                    z["args"] = [via_raw(z["args"][0], z["loops"][0]["var"], z["loops"][1]["var"])] + list(z["args"][1:])
                    z["_canon"] = True
            if not (row3[0] == "addr" and row3[1][0] == "idx" and row3[1][2] == gh and row3[1][1][0] == "idx" and row3[1][1][2] == gj
                    and row3[1][1][1][0] == "idx" and row3[1][1][1][2] == gi):
                # a row reached some other way (a pointer walking ks0_raw whose progress is not in closed form, ...): the rule
                # compares subscripts [i][j][h]; anything else is undecided here, not a violation
                chk.broken("%s: row operand %s is not of the form [i][j][h]" % (gname, sym.show(row3)[:120]))
            lo_h = sym.const_value(hl["lo"])
            if lo_h == 1:
                row0 = row3[1][1] if row3[0] == "addr" else None          # ks[i][j] == &ks[i][j][0]
                zr = [z for z in zero_rows if z["args"][1] == ZERO and len(z["loops"]) == 2 and
                      sym.subst(z["args"][0], {z["loops"][0]["var"]: gi, z["loops"][1]["var"]: gj}) == row0]
                if not zr:
                    problems.append("rows h >= 1 are generated but row 0 is not a trivial zero")
                if not skip:
                    problems.append("the consumer does not skip digit 0 although row 0 carries no key-dependent message")
            elif lo_h == 0:
                pass        # row 0 encrypts 0*s_i: subtracting it is harmless whether or not the consumer skips it
            else:
                problems.append("digit loop starts at %s" % sym.show(hl["lo"]))
            hi_h = hl["hi"] if hl["cmp"] == "<" else sym.add(hl["hi"], I(1))
            eb = bits.pow2_exp(hi_h)
            if eb is None or (gb is not None and sym.subst(eb, {gb: W}) != W):
                problems.append("digit loop ends at %s, not at 2^basebit" % sym.show(hi_h))
            chk.require(not problems, "R3", key3, where="%s:%s" % (g.file, en["line"]),
                        ok="message = key[i]*h*2^(%s); rows h in [%s, 2^basebit); row 0 %s" % (
                            sym.show(e3n), sym.show(hl["lo"]), "trivial zero, skipped by the consumer" if lo_h == 1 else "encrypts 0"),
                        bad="; ".join(problems), variant=vn)
            chk.vcount(vn, "R3.generators")
        # R4 entry point
        e = v.fn("lweKeySwitch")
        eps, _ = summ.pieces(v, e, hooks=NOINLINE)
        r, k, s = [p["n"] for p in e.params]
        triv = [p for p in eps if p["kind"] == "call" and p["name"] == "lweNoiselessTrivial"]
        tr = [p for p in eps if p["kind"] == "call" and p["name"] == "lweKeySwitchTranslate_fromArray"]
        if len(tr) != 1 or len(triv) != 1:
            # the translation written out in the entry point (or split over helpers): its digit extraction is not the function R1
            # decides, and the rule does not model it here -- undecided, not a violation
            chk.broken("lweKeySwitch does not consist of one lweNoiselessTrivial and one lweKeySwitchTranslate_fromArray call (%d/%d): "
                       "an entry point with its own digit extraction is not modelled" % (len(triv), len(tr)))
        ok = len(triv) == 1 and len(tr) == 1 and triv[0]["line"] < tr[0]["line"] and \
            triv[0]["args"][:3] == [sym.sym(r), P(s, "b"), P(k, "out_params")] and \
            tr[0]["args"] == [sym.sym(r), P(k, "ks"), P(k, "out_params"), P(s, "a"), P(k, "n"), P(k, "t"), P(k, "basebit")]
        chk.require(ok, "R4", "lweKeySwitch starts from (0, b) and translates by the rows selected from a with the key's own (n, t, basebit)",
                    where=e.where, ok="lweNoiselessTrivial(result, sample->b) then translate(result, ks->ks, sample->a, ks->n, ks->t, ks->basebit)",
                    bad="calls: %s" % [summ.show_piece(p) for p in eps if p["kind"] == "call"], variant=vn)
        # R5 table layout
        ctor = [c2 for c2 in v.defined() if c2.get("record") == "LweKeySwitchKey" and c2.get("kind") == "ctor" and not c2.get("implicit")]
        if len(ctor) != 1:
            chk.broken("LweKeySwitchKey constructor not found")
        cps, _ = summ.pieces(v, ctor[0], hooks=NOINLINE)
        cn = {p["n"]: sym.sym(p["n"]) for p in ctor[0].params}
        st = {sym.show(p["lv"]).split("[")[0]: p for p in cps if p["kind"] == "store" and p["loops"]}
        problems = []
        this = sym.sym("this")
        base_t = sym.arrow(this, "base")
        from sa import bounds
        # each table statement A[e] = &B[f] (index computed or carried by walking pointers, loops fused or not, filled directly or
        # through a local stored into the field afterwards): f == stride * e identically (sa/tables.py), and the indices e visit
        # [0, extent of A) exactly once for every (n, t) -- enumerated for n, t in 1..3
        import itertools
        from sa import tables, concrete
        from sa.secretflow import eval_term
        nps, fvals, norm = tables.normalised(v, ctor[0], this)
        base_v = fvals.get(base_t, base_t)
        want = {"ks1_raw": ("ks0_raw", base_v, sym.mul(cn["n"], cn["t"])), "ks": ("ks1_raw", cn["t"], cn["n"])}
        for A_, (B_, stride, extent) in want.items():
            B, c, sts = tables.table(nps, this, A_)
            if B is None:
                problems.append(c)
                continue
            if B != B_ or norm(c) != norm(stride):
                problems.append("%s[e] = %s + (%s)*e, expected %s + (%s)*e" % (A_, B, sym.show(c), B_, sym.show(norm(stride))))
                continue
            for nv, tv in itertools.product((1, 2, 3), repeat=2):
                env0 = {cn["n"]: nv, cn["t"]: tv, cn["basebit"]: 1}
                try:
                    xs = tables.visited(sts, env0)
                except concrete.NotEvaluable as e:
                    chk.broken("LweKeySwitchKey constructor: %s" % e)
                ext_v = eval_term(norm(extent), env0)
                if xs != list(range(ext_v)):
                    problems.append("with n = %d, t = %d the statements fill entries %s of %s, which has %d entries" % (nv, tv, xs[:8], A_, ext_v))
                    break
        basest = [p for p in cps if p["kind"] == "store" and p["lv"] == base_t]
        if len(basest) != 1 or bits.pow2_exp(fvals.get(base_t, basest[0]["val"])) != cn["basebit"]:
            problems.append("base is not 1 << basebit")
        ini = v.fn("init_LweKeySwitchKey")
        ips, _ = summ.pieces(v, ini, hooks=NOINLINE)
        al = [p for p in ips if p["kind"] == "call" and p["name"] == "new_LweSample_array"]
        inn = {p["n"]: sym.sym(p["n"]) for p in ini.params}
        if len(al) != 1:
            problems.append("row storage allocation not found")
        else:
            ext = al[0]["args"][0]
            rest, eb = bits.split_weight(ext)
            if eb != inn["basebit"] or rest != sym.mul(inn["n"], inn["t"]):
                problems.append("row storage has %s rows, expected n*t*2^basebit" % sym.show(ext))
        chk.require(not problems, "R5", "ks[i][j][h] addresses ks0_raw[(i*t+j)*base+h] within n*t*base rows", where=ctor[0].where,
                    ok="ks1_raw[p] = ks0_raw + base*p (p < n*t), ks[p] = ks1_raw + t*p (p < n), base = 2^basebit, n*t*base rows allocated",
                    bad="; ".join(problems), variant=vn)
