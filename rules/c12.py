"""C12 — gadget decomposition yields balanced digits that recompose to the input.

Decides (exact for all 2^32 values, all valid (l, Bgbit), both build variants): R1 the digit fields tile the top
l*Bgbit bits; R2 the offset adds halfBg to every field and every digit subtracts halfBg; R3 the gadget h[p] is the
weight of field p; R4 the offset added to the (const) input is removed again over the same range; R5 every
coefficient position is treated identically; R6 the AVX2 inline-asm path evaluates to the same (shift, mask,
subtract) triple as the C path and the TLWE wrapper applies it to all k+1 polynomials into disjoint windows.
"""
from sa import affine, asm, bits, bounds, summ, sym
from sa.facts import Program
from sa.symexec import Hooks, run_function, flat
from sa.sym import I, ZERO
from rules import c15

P = lambda p, f: sym.arrow(sym.sym(p), f)
NOINLINE = summ.LOCAL_HELPERS
FN = "tGswTorus32PolynomialDecompH"


def digit_statements(v, f):
    """-> list of dict(p loop, j range (lo,hi), dst, value term, source array, line, via) for both the C and the asm path,
    plus the add/remove statements on the input"""
    res, sample, params = [p["n"] for p in f.params]
    ps, eff = summ.pieces(v, f, hooks=NOINLINE)
    digits, touch = [], []
    src = P(sample, "coefsT")
    cells = {}
    # a working copy of the input: memcpy(buf, sample->coefsT, N*4) or buf[j] = sample->coefsT[j] over [0,N)
    work = {"kind": "in_place", "array": src}
    strip_ = lambda t: strip_(t[2]) if t and t[0] == "cast" else t
    for p in ps:
        if p["kind"] == "call" and p["name"] in ("memcpy", "std::memcpy", "memmove") and len(p["args"]) == 3 and strip_(p["args"][1]) == src and not p["loops"]:
            work = {"kind": "copy", "array": strip_(p["args"][0]), "bytes": p["args"][2], "line": p["line"]}
        elif p["kind"] == "store" and len(p["loops"]) == 1 and p["op"] == "=" and p["val"] == sym.idx(src, p["loops"][0]["var"]) and \
                p["lv"][0] == "idx" and p["lv"][2] == p["loops"][0]["var"] and sym.root_of(p["lv"]) != sym.sym(res):
            work = {"kind": "copy", "array": p["lv"][1], "loop": p["loops"][0], "line": p["line"]}
    warr = work["array"]
    on_work = lambda ptr: work["kind"] == "copy" and (ptr == warr or sym.contains(ptr, warr))
    for p in ps:
        if p["kind"] == "store" and p["lv"][0] == "var" and p["op"] == "=":
            cells[p["lv"]] = p["val"]
    for p in ps:
        if p["kind"] == "store" and sym.root_of(p["lv"]) == sym.sym(res):
            digits.append({"loops": p["loops"], "lv": p["lv"], "val": p["val"], "line": p["line"], "via": "C"})
        elif p["kind"] == "store" and work["kind"] == "copy" and work.get("loop") is not None and p["line"] == work["line"]:
            continue            # the copy statement itself
        elif p["kind"] == "store" and (sym.root_of(p["lv"]) == sym.sym(sample) or on_work(p["lv"])):
            touch.append({"loops": p["loops"], "lv": p["lv"], "op": p["op"], "val": p["val"], "line": p["line"], "via": "C",
                          "on_input": sym.root_of(p["lv"]) == sym.sym(sample) and not on_work(p["lv"])})
        elif p["kind"] == "asm":
            x = p["eff"]
            items = asm.inline_items(x["node"]["template"])
            regs, nout = asm.inline_operand_regs(x["node"])
            ins_terms = [t for _, t in x["ins"]]
            le = asm.lane_eval(items, regs, nout, ins_terms)
            if le["problems"]:
                return None, None, "asm at line %s: %s" % (p["line"], le["problems"][0])
            lb = None
            if le["loops"]:
                from rules.c16 import loop_bound_terms
                lb = loop_bound_terms(items, le["loops"][0], regs, nout, ins_terms)
            lane = sym.sym("lane@%s" % p["line"])
            for ptr, expr, in_loop in le["stores"]:
                base, off = bounds.split_base_offset(ptr)
                val = sym.subst(asm.lane_to_term(expr, lane), cells)
                # loads in the expression are relative to their own walking pointer: express them at the same lane
                lp = {"var": lane, "lo": lb[0] if lb else ZERO, "cmp": "<", "hi": lb[1] if lb else ("unk", "bound"), "step": I(1),
                      "asm": True, "l": p["line"]}
                rec = {"loops": p["loops"] + [lp], "lv": sym.idx(ptr, lane), "val": val, "line": p["line"], "via": "asm"}
                if sym.root_of(ptr) == sym.sym(res):
                    digits.append(rec)
                elif sym.root_of(ptr) == sym.sym(sample) or on_work(ptr):
                    rec["on_input"] = sym.root_of(ptr) == sym.sym(sample) and not on_work(ptr)
                    # add/remove: value is load(ptr) (+|-) bcast
                    d = sym.sub(val, sym.idx(ptr, lane))
                    opn, operand = ("+=", d)
                    cv = sym.poly_items(d)
                    if len(cv) == 1 and cv[0][1] < 0:
                        opn, operand = "-=", sym.neg(d)
                    rec.update(op=opn, val=operand)
                    touch.append(rec)
    digit_statements.work = work
    return digits, touch, None


def unify_digits(digits, N, R, L=None):
    """Several digit statements (an unrolled coefficient loop and its remainder, a first level peeled into another pass) as
    one.  Each statement is re-parameterised by the (level p, coefficient position j) it writes; all must then be the same
    map (p, j) -> digit (a statement for one fixed level is compared with the general map at that level); the statements of
    one level group must visit every position of [0, N) exactly once and the groups every level of [0, l) exactly once
    (index-coverage decisions).  -> (statement, coverage verdict, detail); LookupError when not comparable."""
    from sa import coverage, pam
    if len(digits) == 1 and len(digits[0]["loops"]) == 2:
        return digits[0], "single", ""
    J, Pv = sym.sym("j*"), sym.sym("p*")
    groups = {}
    for d in digits:
        lv = d["lv"]
        if not (lv[0] == "idx" and lv[1][0] == "fld" and lv[1][2] == "coefs" and lv[1][1][0] == "idx"):
            raise LookupError("digit statement at line %s writes %s, not result[p].coefs[j]" % (d["line"], sym.show(lv)[:60]))
        pe, je = lv[1][1][2], lv[2]
        jl = next((lp for lp in reversed(d["loops"]) if "var" in lp and sym.contains(je, lp["var"])), None)
        pl = next((lp for lp in d["loops"] if "var" in lp and lp is not jl and sym.contains(pe, lp["var"])), None)
        if jl is None or len(d["loops"]) != (2 if pl is not None else 1):
            raise LookupError("digit statement at line %s is not in a (p, j) nest" % d["line"])
        if pl is not None and pe != pl["var"]:
            raise LookupError("digit statement at line %s writes level %s" % (d["line"], sym.show(pe)))
        if pl is None and sym.const_value(pe) is None:
            raise LookupError("digit statement at line %s writes level %s outside a level loop" % (d["line"], sym.show(pe)))
        piece = {"loops": [jl], "lv": lv, "val": d["val"], "guards": [], "op": "=", "line": d["line"]}
        q = pam.normalise_dest(piece, lv[1])
        jq = q["loops"][-1]["var"]
        if q["lv"][2] != jq:
            raise LookupError("digit statement at line %s writes position %s, not a coefficient position of its loop" % (d["line"], sym.show(je)))
        ren = {jq: J}
        if pl is not None:
            ren[pl["var"]] = Pv
        gkey = ("loop", R(pl["lo"]), pl["cmp"], R(pl["hi"]), pl["step"]) if pl is not None else ("level", sym.const_value(pe))
        groups.setdefault(gkey, []).append((sym.subst(q["val"], ren), (dict(jl, lo=R(jl["lo"]), hi=R(jl["hi"])), je, 1), d))
    general = [g for g in groups if g[0] == "loop"]
    if not general:
        raise LookupError("no digit statement runs over the levels")
    gmaps = {m for g in general for m, _, _ in groups[g]}
    if len(gmaps) != 1:
        raise LookupError("the digit statements compute different maps: %s" % sorted(sym.show(m)[:80] for m in gmaps)[:2])
    gmap = next(iter(gmaps))
    for g in groups:
        if g[0] == "level":
            for m, _, d in groups[g]:
                if m != sym.subst(gmap, {Pv: I(g[1])}):
                    raise LookupError("the statement for level %d at line %s computes %s, the general statement gives %s at that level" % (
                        g[1], d["line"], sym.show(m)[:80], sym.show(sym.subst(gmap, {Pv: I(g[1])}))[:80]))
    for g, members in groups.items():
        status, detail = coverage.cover_1d([t for _, t, _ in members], N)
        if status == "unknown":
            raise LookupError(detail)
        if status == "refuted":
            return None, "refuted", "level group %s: %s" % (g[1] if g[0] == "level" else "[%s, %s)" % (sym.show(g[1]), sym.show(g[3])), detail)
    d0 = groups[general[0]][0][2]
    pl0 = next(lp for lp in d0["loops"] if "var" in lp and sym.contains(d0["lv"][1][1][2], lp["var"]))
    if len(groups) > 1 or L is not None:
        if L is None:
            raise LookupError("several level groups but the number of levels is not known")
        pterms = []
        for g in groups:
            if g[0] == "loop":
                u = sym.sym("p@%s" % len(pterms))
                pterms.append(({"var": u, "lo": g[1], "cmp": g[2], "hi": g[3], "step": g[4], "l": 0}, u, 1))
            else:
                u = sym.sym("p@%s" % len(pterms))
                pterms.append(({"var": u, "lo": I(g[1]), "cmp": "<", "hi": I(g[1] + 1), "step": I(1), "l": 0}, u, 1))
        status, detail = coverage.cover_1d(pterms, L)
        if status == "unknown":
            raise LookupError(detail)
        if status == "refuted":
            return None, "refuted", "levels: %s (n = l)" % detail
    one = {"loops": [dict(pl0, var=Pv, lo=ZERO, cmp="<", hi=L if L is not None else pl0["hi"], step=I(1)),
                     {"var": J, "lo": ZERO, "cmp": "<", "hi": N, "step": I(1), "l": d0["line"], "name": "j"}],
           "lv": sym.idx(sym.fld(sym.idx(d0["lv"][1][1][1], Pv), "coefs"), J), "val": gmap, "line": d0["line"], "via": d0["via"],
           "statements": len(digits)}
    return one, "proved", "%d statements in %d level group(s)" % (len(digits), len(groups))


_EVAL_CACHE = {}


def check_by_evaluation(chk, v, fname, rule="R9"):
    """The decomposition evaluated on concrete coefficients for small layouts (sa/concrete.IntMachine; the effect tree is evaluated,
    nothing runs): for every (l, Bgbit) of a grid that includes Bgbit = 1, l = 1 and l*Bgbit = 32, and every coefficient whose leading
    l*Bgbit + 2 bits take all patterns (boundary values for the wide layouts), the digits must lie in [-Bg/2, Bg/2), recompose to the
    coefficient within 2^(32 - l*Bgbit), and the input must be what it was.  Decides functions the statement rules do not cover (the
    coefficient-wise reference variant) and is a second, independent decision for the C path of the main one."""
    from sa import concrete, symexec
    f = v.fn(fname, required=False)
    vn = v.name
    key = "%s: digits in [-Bg/2, Bg/2), recomposition within 2^(32-l*Bgbit), input unchanged (evaluated on small layouts)" % fname
    if f is None:
        chk.note("%s is not defined in %s" % (fname, vn))
        return
    res, sample, params = [p_["n"] for p_ in f.params]
    effs = symexec.run_function(v, f, hooks=summ.LOCAL_HELPERS)[0]
    if any(x["e"] in ("asm",) for x in symexec.flat(effs)):
        chk.note("%s: %s uses inline assembly in this variant; evaluated in the variants that use the C path" % (vn, fname))
        return
    # the same source gives the same effect tree in every variant: evaluate it once per run
    import hashlib
    sig = hashlib.sha256((fname + repr([(x["e"], x.get("l")) for x in symexec.flat(effs)]) + open(v.prog.source_path(f.file)).read()).encode()).hexdigest()
    if sig in _EVAL_CACHE:
        st_, det_ = _EVAL_CACHE[sig]
        (chk.proved if st_ == "proved" else chk.refuted)(rule, key, where=f.where, variant=vn, detail=det_)
        return
    Nt = sym.arrow(P(params, "tlwe_params"), "N")
    layouts = [(1, 1), (2, 1), (3, 1), (5, 1), (1, 2), (2, 2), (3, 2), (1, 3), (2, 3), (3, 3), (1, 4), (2, 4), (2, 7), (3, 7), (2, 10), (4, 8), (2, 16), (16, 2), (32, 1)]
    nchecked = 0
    for l_, bb in layouts:
        Bg, half = 1 << bb, 1 << (bb - 1)
        offset = sum(half << (32 - (p_ + 1) * bb) for p_ in range(l_)) & 0xFFFFFFFF
        used = l_ * bb
        if used + 2 <= 8:
            vals = [(u << (32 - used - 2)) & 0xFFFFFFFF for u in range(1 << (used + 2))]
        else:
            edges = {0, 1, 0x7FFFFFFF, 0x80000000, 0x80000001, 0xFFFFFFFF, offset, (-offset) & 0xFFFFFFFF, (0x80000000 - offset) & 0xFFFFFFFF}
            for p_ in range(l_):
                w = 1 << (32 - (p_ + 1) * bb)
                for m_ in (half, half - 1, half + 1, Bg - 1, 1):
                    for d_ in (-1, 0, 1):
                        edges.add((m_ * w + d_) & 0xFFFFFFFF)
                        edges.add((m_ * w - offset + d_) & 0xFFFFFFFF)
            vals = sorted(edges)
        # N coefficients at a time
        nv = 16
        for start in range(0, len(vals), nv):
            chunk = (vals[start:start + nv] + [0] * nv)[:nv]
            scal = {Nt: nv, P(params, "l"): l_, P(params, "Bgbit"): bb, P(params, "Bg"): Bg, P(params, "halfBg"): half,
                    P(params, "maskMod"): Bg - 1, P(params, "offset"): offset, P(params, "kpl"): 2 * l_,
                    sym.arrow(P(params, "tlwe_params"), "k"): 1, P(sample, "N"): nv}
            im = concrete.IntMachine(scalars=scal)
            src = lambda j_: concrete.lvalue_location(sym.idx(P(sample, "coefsT"), I(j_)), {})
            for j_, x_ in enumerate(chunk):
                im.inputs[src(j_)] = x_
            try:
                concrete.interpret(effs, dict(scal), im.handler(), on_segment=im.segment)
            except concrete.NotEvaluable as e:
                chk.broken("%s: evaluation for (l, Bgbit) = (%d, %d): %s" % (fname, l_, bb, e))
            for j_, x_ in enumerate(chunk):
                now = concrete.Memory.read(im, src(j_))
                if isinstance(now, int) and (now - x_) & 0xFFFFFFFF:
                    det_ = "with (l, Bgbit) = (%d, %d): the input coefficient 0x%08x is 0x%08x after the call" % (l_, bb, x_, now & 0xFFFFFFFF)
                    _EVAL_CACHE[sig] = ("refuted", det_)
                    chk.refuted(rule, key, where=f.where, variant=vn, detail=det_)
                    return
                rec = 0
                for p_ in range(l_):
                    d_ = concrete.Memory.read(im, concrete.lvalue_location(sym.idx(sym.fld(sym.idx(sym.sym(res), I(p_)), "coefs"), I(j_)), {}))
                    if not isinstance(d_, int):
                        chk.broken("%s: digit %d of coefficient %d is not written for (l, Bgbit) = (%d, %d)" % (fname, p_, j_, l_, bb))
                    if d_ >= 1 << 31:
                        d_ -= 1 << 32
                    if not -half <= d_ < half:
                        det_ = "with (l, Bgbit) = (%d, %d) and the coefficient 0x%08x: digit %d is %d, outside [%d, %d)" % (l_, bb, x_, p_, d_, -half, half)
                        _EVAL_CACHE[sig] = ("refuted", det_)
                        chk.refuted(rule, key, where=f.where, variant=vn, detail=det_)
                        return
                    rec += d_ << (32 - (p_ + 1) * bb)
                err = (x_ - rec) & 0xFFFFFFFF
                if err >= 1 << 31:
                    err = (1 << 32) - err
                if err >= (1 << (32 - used)) or (used == 32 and err):
                    det_ = "with (l, Bgbit) = (%d, %d) and the coefficient 0x%08x: the digits recompose to a value %d units away (bound 2^%d)" % (
                        l_, bb, x_, err, 32 - used)
                    _EVAL_CACHE[sig] = ("refuted", det_)
                    chk.refuted(rule, key, where=f.where, variant=vn, detail=det_)
                    return
                nchecked += 1
    _EVAL_CACHE[sig] = ("proved", "%d coefficients over %d layouts" % (nchecked, len(layouts)))
    chk.proved(rule, key, where=f.where, variant=vn, detail="%d coefficients over %d layouts" % (nchecked, len(layouts)))


def run(chk):
    prog = Program()
    chk.explanation = (
        "The decomposition routine is reduced, in the debug build from its C loops and in the optim build from the "
        "lane-symbolic evaluation of its three AVX2 inline-asm blocks, to digit statements "
        "out_p[j] = ((x_j >> s_p) & M) - H and add/remove statements on the input; s_p, M, H and the offset are "
        "resolved through the TGswParams constructor (Bg = 2^Bgbit, halfBg = Bg/2, maskMod = Bg-1, offset = halfBg * "
        "sum_p 2^(s_p)) and compared as exponent polynomials in (p, l, Bgbit).")
    chk.trusted = ["clang 14 front end", "summariser", "AT&T parser and lane evaluator", "bit-field algebra"]
    chk.assume("the asm loops are bottom-tested over N/8 vectors: N is a multiple of 8 and >= 8 (ring degree 1024, C19.R3)")
    # R9 first, for every variant that has a C path: a semantic verdict on small layouts must not be hidden behind a shape the
    # statement rules below do not know
    for v in prog.variants():
        for fname_ in (FN, "Torus32PolynomialDecompH_old"):
            check_by_evaluation(chk, v, fname_)
    for v in prog.variants():
        chk.analysed["variants"] = chk.analysed.get("variants", 0) + 1
        # R8 the bit algebra of R1..R5 reads `>>` as the logical shift: every right shift of the gadget code must act on an unsigned
        # (or non-negative) operand -- `1 << (32 - Bgbit)` kept in a signed variable is INT32_MIN for Bgbit = 1
        from sa import shifts as _shifts
        _shifts.check(chk, v, "R8", ["libtfhe/tgsw.cpp", "libtfhe/tgsw-functions.cpp"], "gadget and decomposition")
        check_variant(chk, v)


def check_variant(chk, v):
    vn = v.name
    for fname_ in (FN, "Torus32PolynomialDecompH_old"):
        check_by_evaluation(chk, v, fname_)
    f = v.fn(FN)
    res, sample, params = [p["n"] for p in f.params]
    rel = bounds.ctor_relations(v)
    roots = {sym.sym(p["n"]): p["t"] for p in f.params}
    R = lambda t: bounds.apply_relations(v, t, roots, rel)
    B = P(params, "Bgbit")
    L = P(params, "l")
    N = sym.arrow(P(params, "tlwe_params"), "N")
    digits, touch, err = digit_statements(v, f)
    work = getattr(digit_statements, "work", {"kind": "in_place", "array": P(sample, "coefsT")})
    warr = work["array"]
    if digits is None:
        chk.broken(err)
    chk.vcount(vn, "R1.digit_statements", len(digits))
    chk.vcount(vn, "R4.input_touching_statements", len(touch))
    if not digits:
        chk.broken("%s: no digit statement found" % FN)
    try:
        d, cov_status, cov_detail = unify_digits(digits, N, R, L if len(digits) > 1 else None)
    except LookupError as e:
        chk.broken("%s: %s" % (FN, e))
    if cov_status == "refuted":
        via = digits[0]["via"]
        chk.refuted("R5", "every coefficient position j in [0,N) of every digit p in [0,l) is computed from input coefficient j alone [%s path]" % via,
                    where="%s:%s" % (f.file, digits[0]["line"]), detail="the %d digit statements do not visit every (level, position) exactly once: %s" % (
                        len(digits), cov_detail), variant=vn)
        return
    via = d["via"]
    if len(d["loops"]) != 2:
        chk.broken("digit statement is not in a (p, j) nest")
    pl, jl = d["loops"]
    if "var" not in pl or "var" not in jl:
        chk.broken("digit statement at line %s: a loop of its nest has no closed form" % d["line"])
    pv, jv = pl["var"], jl["var"]
    # value = field - H
    val = R(d["val"])
    items = sym.poly_items(val)
    fld_atom = [m[0] for m, c in items if c == 1 and len(m) == 1 and bits.field_of(m[0]) is not None]
    key1 = "digit fields ((x+offset) >> s_p) & maskMod tile the top l*Bgbit bits [%s path]" % via
    if len(fld_atom) != 1:
        anded = [m[0] for m, c in items if len(m) == 1 and m[0][0] == "op" and m[0][1] == "&"]
        if anded:
            chk.refuted("R1", key1, where="%s:%s" % (f.file, d["line"]),
                        detail="digit is %s: mask %s is not 2^w - 1" % (sym.show(val)[:120], sym.show(anded[0][3])[:60]), variant=vn)
            return
        chk.broken("digit value %s not recognised" % sym.show(val))
    x, shift, width = bits.field_of(fld_atom[0])
    ok, detail, lowest = bits.tiling(shift, width, pv, L)
    chk.require(ok and width == B, "R1", key1, where="%s:%s" % (f.file, d["line"]), ok=detail + "; mask width = Bgbit",
                bad=detail if not ok else "mask is %s bits wide, Bgbit is %s" % (sym.show(width), sym.show(B)), variant=vn)
    # source is the input coefficient at the same position
    srcx = x
    while srcx[0] == "cast":
        srcx = srcx[2]
    chk.require(srcx == sym.idx(warr, jv) and d["lv"] == sym.idx(sym.fld(sym.idx(sym.sym(res), pv), "coefs"), jv)
                and summ.visits(pl, ZERO, L) and jl["lo"] == ZERO and R(jl["hi"]) == N,
                "R5", "every coefficient position j in [0,N) of every digit p in [0,l) is computed from input coefficient j alone [%s path]" % via,
                where="%s:%s" % (f.file, d["line"]), ok="result[p].coefs[j] from %s[j], p < l, j < N" % ("sample->coefsT" if work["kind"] == "in_place" else "the working copy of sample->coefsT"),
                bad="dst %s from %s over p in [%s,%s), j in [%s,%s)" % (sym.show(d["lv"]), sym.show(srcx), sym.show(pl["lo"]), sym.show(pl["hi"]),
                                                                        sym.show(jl["lo"]), sym.show(jl["hi"])), variant=vn)
    # R2: subtract halfBg; offset adds halfBg to every field
    rest = sym.sub(val, fld_atom[0])
    e_half = bits.pow2_exp(sym.neg(rest))
    key2 = "each digit subtracts Bg/2 and the offset adds Bg/2 to every field [%s path]" % via
    problems = []
    if e_half is None or e_half != sym.sub(B, I(1)):
        problems.append("digit = field %+s: the subtracted constant is not 2^(Bgbit-1) (digits would lie in [0,Bg) instead of [-Bg/2,Bg/2): "
                        "noise power x4)" % sym.show(rest))
    # constructor: offset = halfBg * sum_{i<l} 2^(shift_i)
    ctor = [c for c in v.defined() if c.get("record") == "TGswParams" and c.get("kind") == "ctor" and not c.get("implicit")][0]
    cps, _ = summ.pieces(v, ctor, hooks=NOINLINE)
    cn = {p["n"]: sym.sym(p["n"]) for p in ctor.params}
    acc = [p for p in cps if p["kind"] == "local" and p["op"] == "+=" and len(p["loops"]) == 1]
    offs = [p for p in cps if p["kind"] == "store" and p["lv"] == sym.arrow(sym.sym("this"), "offset")]
    base = [p for p in offs if p["op"] == "=" and not p["guards"] and not p["loops"]]
    extras = [p for p in offs if p not in base]
    if len(acc) != 1 or len(base) != 1:
        chk.broken("TGswParams constructor: offset construction not recognised (%d accumulations, %d assignments)" % (len(acc), len(base)))
    else:
        al = acc[0]["loops"][0]
        e_acc = bits.pow2_exp(acc[0]["val"])
        want = sym.subst(shift, {pv: al["var"], B: cn["Bgbit"]})
        if e_acc != want:
            problems.append("offset accumulates 2^(%s), field p sits at 2^(%s)" % (sym.show(e_acc) if e_acc else sym.show(acc[0]["val"]), sym.show(want)))
        if not summ.visits(al, ZERO, cn["l"]):
            problems.append("offset accumulates over [%s,%s), not [0,l)" % (sym.show(al["lo"]), sym.show(al["hi"])))
        ov = base[0]["val"]
        fac = set()
        for m, c in sym.poly_items(ov):
            fac.update(m)
        if sym.arrow(sym.sym("this"), "halfBg") not in fac or len(fac) != 2:
            problems.append("offset = %s is not halfBg * (sum of field weights)" % sym.show(ov))
        # any further contribution e to the offset is not cancelled by the digits: the recomposition becomes
        # trunc_step(x + e), whose distance to x stays below step = 2^(32 - l*Bgbit) iff 0 <= e < step
        hstores = [p for p in cps if p["kind"] == "store" and p["loops"] and p["lv"][0] == "idx" and bits.pow2_exp(p["val"]) is not None]
        step_e = sym.sub(I(32), sym.mul(cn["l"], cn["Bgbit"]))
        for xp in extras:
            ev = xp["val"]
            if xp["op"] == "-=":
                problems.append("offset -= %s (line %s): a negative shift of the recomposition is not cancelled by the digits" % (sym.show(ev), xp["line"]))
                continue
            if xp["op"] != "+=" or xp["loops"]:
                chk.broken("TGswParams constructor: offset statement at line %s not recognised" % xp["line"])
            if ev == ZERO:
                continue
            # resolve a read of the gadget table written in the same constructor
            if len(hstores) == 1:
                hv, hl_ = hstores[0]["val"], hstores[0]["loops"][0]["var"]
                reads = [a for a in sym.atoms(ev) if a[0] == "idx" and a[1] == hstores[0]["lv"][1]]
                ev = sym.rewrite(ev, {a: sym.subst(hv, {hl_: a[2]}) for a in reads})
            ee = bits.pow2_exp(ev)
            if ee is None:
                chk.broken("TGswParams constructor: extra offset term %s at line %s is not a power of two" % (sym.show(ev), xp["line"]))
            facts = affine.guard_constraints(xp["guards"]) + [sym.sub(cn["l"], I(1)), sym.sub(cn["Bgbit"], I(1))]
            if affine.prove_nonneg(sym.sub(sym.sub(step_e, ee), I(1)), facts) and affine.prove_nonneg(ee, facts):
                continue          # 0 < e < step: a rounding offset inside the last step
            if affine.prove_nonneg(sym.sub(ee, step_e), facts):
                problems.append("offset += %s = 2^(%s) at line %s%s: not cancelled by the digits, the recomposition is shifted by "
                                "at least the whole precision step 2^(%s) (error reaches the bound for inputs that are multiples of the step)" % (
                                    sym.show(xp["val"]), sym.show(ee), xp["line"],
                                    " under %s" % [sym.show(g) for g in xp["guards"]] if xp["guards"] else "", sym.show(step_e)))
            else:
                chk.broken("TGswParams constructor: cannot compare the extra offset term 2^(%s) with the step 2^(%s)" % (sym.show(ee), sym.show(step_e)))
    adds = [t for t in touch if t["op"] == "+="]
    if len(adds) != 1:
        problems.append("the offset is not added to the input before extraction: %s" % [(t["op"], sym.show(t["val"])) for t in touch])
    elif adds[0]["line"] > d["line"]:
        problems.append("offset added after the digits are extracted")
    else:
        # added value = offset + e: the recomposition is trunc_step(x + e), within the step iff 0 <= e < 2^(32 - l*Bgbit)
        extra = sym.sub(adds[0]["val"], P(params, "offset"))
        step_x = sym.sub(I(32), sym.mul(L, B))

        def extra_ok(e, facts):
            """-> None if 0 <= e < step under facts, else a reason string; 'unknown' raises"""
            if e == ZERO:
                return None
            items = sym.poly_items(e) if e[0] == "poly" else None
            if e[0] == "cond" or (items is not None and len(items) == 1 and len(items[0][0]) == 1 and items[0][1] == 1 and items[0][0][0][0] == "cond"):
                c_ = e if e[0] == "cond" else items[0][0][0]
                for br, pol in ((c_[2], c_[1]), (c_[3], sym.unop("!", c_[1]))):
                    why = extra_ok(br, facts + affine.guard_constraints([pol]))
                    if why:
                        return why
                return None
            ee = bits.pow2_exp(e)
            if ee is None:
                chk.broken("%s: value added to the input, %s, is not offset + a power of two" % (FN, sym.show(adds[0]["val"])[:100]))
            fx = facts + [sym.sub(L, I(1)), sym.sub(B, I(1))]
            if affine.prove_nonneg(ee, fx) and affine.prove_nonneg(sym.sub(sym.sub(step_x, ee), I(1)), fx):
                return None
            if affine.prove_nonneg(sym.sub(ee, step_x), fx):
                return "the input is shifted by offset + 2^(%s): at least one whole precision step 2^(%s) more than the offset" % (sym.show(ee), sym.show(step_x))
            chk.broken("%s: cannot compare the extra term 2^(%s) added to the input with the step 2^(%s)" % (FN, sym.show(ee), sym.show(step_x)))
        if R(adds[0]["val"]) != P(params, "offset") and adds[0]["val"] != P(params, "offset"):
            why = extra_ok(extra, [])
            if why:
                problems.append(why)
    chk.require(not problems, "R2", key2, where="%s:%s" % (f.file, d["line"]),
                ok="digit = field - 2^(Bgbit-1); offset = halfBg * sum_{i<l} 2^(32-(i+1)Bgbit), added over [0,N) before extraction",
                bad="; ".join(problems)[:500], variant=vn)
    # R3 gadget
    hs = [p for p in cps if p["kind"] == "store" and p["loops"] and p["lv"][0] == "idx" and
          sym.show(p["lv"][1]).endswith("h") or (p["kind"] == "store" and p["loops"] and p["lv"][0] == "idx" and p["lv"][1][0] == "new")]
    hs = [p for p in cps if p["kind"] == "store" and p["loops"] and bits.pow2_exp(p["val"]) is not None]
    okh = False
    det = "no gadget table statement found"
    if len(hs) == 1:
        hl = hs[0]["loops"][0]
        eh = bits.pow2_exp(hs[0]["val"])
        want = sym.subst(shift, {pv: hl["var"], B: cn["Bgbit"]})
        okh = eh == want and summ.visits(hl, ZERO, cn["l"]) and hs[0]["lv"][2] == hl["var"]
        det = "h[i] = 2^(%s) for i in [%s,%s)" % (sym.show(eh), sym.show(hl["lo"]), sym.show(hl["hi"]))
    chk.require(okh, "R3", "gadget h[p] equals the weight 2^(32-(p+1)Bgbit) of digit field p", where=ctor.where, ok=det, bad=det, variant=vn)
    # derived constants
    want_rel = {("TGswParams", "Bg"): lambda t: bits.pow2_exp(t) is not None,
                ("TGswParams", "halfBg"): lambda t: True, ("TGswParams", "maskMod"): lambda t: True}
    Bg = R(P(params, "Bg"))
    half = R(P(params, "halfBg"))
    mm = R(P(params, "maskMod"))
    okc = bits.pow2_exp(Bg) == B and bits.pow2_exp(half) == sym.sub(B, I(1)) and bits.mask_width(mm) == B
    chk.require(okc, "R1", "Bg = 2^Bgbit, halfBg = Bg/2, maskMod = Bg-1 (constructor)", where=ctor.where,
                ok="Bg=%s halfBg=%s maskMod=%s" % (sym.show(Bg), sym.show(half), sym.show(mm)),
                bad="Bg=%s halfBg=%s maskMod=%s" % (sym.show(Bg), sym.show(half), sym.show(mm)), variant=vn)
    # R4 restore
    pidx = 1
    if work["kind"] == "in_place":
        okb, detb = c15.balanced_const_writes(v, f, pidx)
        chk.require(okb, "R4", "the offset added to the const input is removed over the same range [%s path]" % via, where=f.where,
                    ok=detb, bad=detb, variant=vn)
    else:
        # the routine works on a copy: the input must not be written at all, the copy must be complete and private to the call
        wrote = [t for t in touch if t.get("on_input")]
        full = False
        if "bytes" in work:
            nb = work["bytes"]
            while nb[0] == "cast":
                nb = nb[2]
            full = R(nb) == sym.mul(I(4), N)
        elif work.get("loop") is not None:
            lpw = work["loop"]
            full = (lpw["lo"], lpw["cmp"]) == (ZERO, "<") and R(lpw["hi"]) == N
        chk.require(not wrote and full, "R4", "the input is left untouched: the offset is applied to a complete working copy [%s path]" % via,
                    where="%s:%s" % (f.file, work["line"]), ok="copy of all N coefficients at line %s; no statement writes the input" % work["line"],
                    bad=("the input is still written at line %s" % wrote[0]["line"]) if wrote else "the copy does not cover N coefficients", variant=vn)
        root = sym.root_of(warr)
        private = root is not None and root[0] in ("new", "obj", "var") and not any(root == sym.sym(q["n"]) for q in f.params)
        chk.require(private, "R7", "the working copy is private to the call [%s path]" % via, where="%s:%s" % (f.file, work["line"]),
                    ok="local buffer %s" % sym.show(warr)[:60],
                    bad="the working copy is %s, storage reached through parameter '%s': it is shared by every call that uses the same object "
                        "(all threads evaluating with one key share its parameter objects), so concurrent decompositions read each other's "
                        "coefficients and the digits no longer recompose to the input" % (sym.show(warr), root[1] if root and root[0] == "sym" else "?"),
                    variant=vn)
    # R6 wrapper
    w = v.fn("tGswTLweDecompH")
    wps, _ = summ.pieces(v, w, hooks=NOINLINE)
    wr, ws, wp = [p["n"] for p in w.params]
    calls = [p for p in wps if p["kind"] == "call" and p["name"] == FN]
    okw = False
    detw = "calls: %s" % [summ.show_piece(c) for c in calls]
    if len(calls) == 1 and len(calls[0]["loops"]) == 1:
        lp = calls[0]["loops"][0]
        i = lp["var"]
        hi = lp["hi"] if lp["cmp"] == "<" else sym.add(lp["hi"], I(1))
        K = sym.arrow(P(wp, "tlwe_params"), "k")
        a = calls[0]["args"]
        okw = lp["lo"] == ZERO and hi == sym.add(K, I(1)) and a[0] == sym.padd(sym.sym(wr), sym.mul(i, P(wp, "l"))) and \
            a[1] == sym.addr(sym.idx(P(ws, "a"), i)) and a[2] == sym.sym(wp)
        detw = "component i in [0,k] -> digits [i*l, (i+1)*l)"
        if okw and calls[0]["guards"]:
            # the decomposition is skipped on some path (a shortcut): on that path all l digit polynomials of the window must
            # still be written -- index coverage of the writers that run when the guard fails
            from sa import coverage
            Lw = P(wp, "l")
            gset = calls[0]["guards"]
            alt = [p for p in wps if p is not calls[0] and p["kind"] in ("call", "store") and p["guards"] != gset and
                   ((p["kind"] == "call" and p["args"] and p["args"][0] is not None and sym.root_of(p["args"][0]) == sym.sym(wr)) or
                    (p["kind"] == "store" and sym.root_of(p["lv"]) == sym.sym(wr)))]
            terms = []
            for q in alt:
                if q["kind"] != "call":
                    chk.broken("tGswTLweDecompH: shortcut path writes the digits with a statement this rule does not analyse (line %s)" % q["line"])
                ptr = q["args"][0]
                base, off = bounds.split_base_offset(ptr)
                if base != sym.sym(wr):
                    chk.broken("tGswTLweDecompH: shortcut writer %s" % sym.show(ptr))
                rel_ = sym.sub(off, sym.mul(i, Lw))
                inner = [l_ for l_ in q["loops"] if l_ is not lp and l_["var"] != i]
                if inner:
                    terms.append((inner[-1], rel_, 1))
                else:
                    cst = sym.const_value(rel_)
                    if cst is None:
                        chk.broken("tGswTLweDecompH: shortcut writer offset %s" % sym.show(rel_))
                    u = sym.sym("u@%s" % q["line"])
                    terms.append(({"var": u, "lo": I(cst), "cmp": "<", "hi": I(cst + 1), "step": I(1), "l": q["line"]}, u, 1))
            if not terms:
                okw, detw = False, "when %s fails the digits of the window are not written at all" % [sym.show(g)[:60] for g in gset]
            else:
                status, why = coverage.cover_1d(terms, Lw)
                if status == "unknown":
                    chk.broken("tGswTLweDecompH: %s" % why)
                if status == "refuted":
                    okw = False
                    detw = ("on the shortcut path (when %s does not hold) only part of the window of l digit polynomials is written (%s, with n = l): "
                            "the remaining digits keep whatever the caller's buffer held" % ([sym.show(g)[:80] for g in gset][-1], why))
                else:
                    detw += "; shortcut path writes all l digits"
    chk.require(okw, "R6", "tGswTLweDecompH decomposes all k+1 polynomials into disjoint windows of l digits", where=w.where,
                ok=detw, bad=detw, variant=vn)
    chk.proved("R6", "%s build uses the %s path and yields the same (shift, mask, subtract) triple" % (v.cfg, via),
               where="%s:%s" % (f.file, d["line"]), detail="shift 32-(p+1)Bgbit, mask 2^Bgbit-1, minus 2^(Bgbit-1)", variant=vn)

