"""C02 — circuits of any depth stay correct: gate output noise bounded, input-independent.

Decides: R1 noise reset: every two-input gate's result is produced by exactly one sign bootstrap that ends in one key
switch on every path (MUX: two bootstraps without key switch, one key switch) and is not touched afterwards;
R2 input-independence as a data-dependence fact: inside the bootstrap the input sample is used only as the argument
of the modulus switch to 2N (its variance field and raw coefficients flow nowhere else) and no mutable static is read;
R3 noise budget: the closed-form noise model evaluated on the statically extracted parameter constants and
structural facts gives sigma <= stated bound, |mean| <= bound/4, MUX sigma <= 1.35 x bound, 3/64 >= 8 sigma;
R4 the key-switching-key noise is one Gaussian per row recentred by the floating-point mean of exactly those draws
(C07's rule for lweCreateKeySwitchKey), which the mean clause relies on; R5 every gate consumes its inputs before the first
write to its output (C15.R3): netlists with in-place updates are inside the quantifier.
Not decided: that the measured noise follows the formulas (independence heuristics, FFT error) and the statement about
whole netlists as such.
"""
from sa import api, bits, noise, summ, sym
from sa.facts import Program, walk
from sa.sym import I, ZERO
from rules import c19

P = lambda p, f: sym.arrow(sym.sym(p), f)
NOINLINE = summ.LOCAL_HELPERS
BOUNDS = {"128": 0.0037, "80": 0.0047}      # from the property statement
MUX_FACTOR = 1.35


def terms_with(t, atom, acc, parent=None):
    """(sub-term containing atom, its parent call) pairs"""
    if not isinstance(t, tuple) or not t:
        return
    if not isinstance(t[0], str):
        for y in t:
            terms_with(y, atom, acc, parent)
        return
    if t[0] == "call":
        for y in t[2]:
            terms_with(y, atom, acc, t)
        return
    if t[0] == "addr":
        # &p[i] is an address computation: only the subscripts are evaluated, the element is not read
        lv = t[1]
        while isinstance(lv, tuple) and lv and lv[0] in ("idx", "fld"):
            if lv[0] == "idx":
                terms_with(lv[2], atom, acc, parent)
            lv = lv[1]
        return
    if t[0] == "fld" and t[1][0] == "idx" and t[1][1] == atom and t[1][2] == ZERO and parent is None and t[2] == "a":
        return          # the mask pointer x->a itself (hoisted into a local): a pointer, not a coefficient
    if t == atom:
        acc.append(parent)
        return
    if t[0] == "poly":
        for m, _ in t[1]:
            for y in m:
                terms_with(y, atom, acc, parent)
        return
    for y in t[1:]:
        if isinstance(y, tuple):
            terms_with(y, atom, acc, parent)


def ks_facts(v):
    """(rounding offset present and exact, zero digit skipped)"""
    f = v.fn("lweKeySwitchTranslate_fromArray")
    ps, _ = summ.pieces(v, f, hooks=NOINLINE)
    subs = [p for p in ps if p["kind"] == "call" and p["name"] == "lweSubTo"]
    if len(subs) != 1 or len(subs[0]["loops"]) != 2:
        return None
    c = subs[0]
    row = c["args"][1]
    if not (row[0] == "addr" and row[1][0] == "idx"):
        return None
    if any(p_["kind"] == "store" and sym.root_of(p_["lv"]) == sym.sym(f.params[3]["n"]) for p_ in ps):
        return None          # the mask is patched in place between the level passes: the offset is not read off one statement
    digit = row[1][2]
    fld = bits.field_of(digit)
    if fld is None:
        return None
    x, shift, width = fld
    i, j = c["loops"][0]["var"], c["loops"][1]["var"]
    T = sym.sym(f.params[5]["n"])
    ok, _d, lowest = bits.tiling(shift, width, j, T)
    offs = sym.sub(x, sym.idx(sym.sym(f.params[3]["n"]), i))
    e = bits.pow2_exp(offs) if offs != ZERO else None
    rounding = ok and e is not None and lowest is not None and e == sym.sub(lowest, I(1))
    skip = any(g_ in (sym.binop("!=", digit, ZERO), ("op", "!=", digit, ZERO)) for g_ in c["guards"])
    return {"rounding": bool(rounding), "skip_zero": bool(skip)}


def decomp_facts(v):
    from rules import c12
    f = v.fn(c12.FN)
    digits, touch, err = c12.digit_statements(v, f)
    if not digits:
        return None
    from sa import bounds
    rel = bounds.ctor_relations(v)
    roots = {sym.sym(p["n"]): p["t"] for p in f.params}
    try:
        one, cov, _d = c12.unify_digits(digits, sym.arrow(P(f.params[2]["n"], "tlwe_params"), "N"),
                                        lambda t: bounds.apply_relations(v, t, roots, rel),
                                        P(f.params[2]["n"], "l") if len(digits) > 1 else None)
    except LookupError:
        return None
    if cov == "refuted":
        return None
    val = bounds.apply_relations(v, one["val"], roots, rel)
    B = P(f.params[2]["n"], "Bgbit")
    fa = [m[0] for m, c in sym.poly_items(val) if c == 1 and len(m) == 1 and bits.field_of(m[0]) is not None]
    if len(fa) != 1:
        return None
    rest = sym.sub(val, fa[0])
    e = bits.pow2_exp(sym.neg(rest)) if rest != ZERO else None
    adds = [t for t in touch if t["op"] == "+="]
    shape = e is not None and e == sym.sub(B, I(1)) and len(adds) == 1
    if not shape:
        # another arrangement of the decomposition (offset added to a local copy, digits peeled from the low end, ...): whether its
        # digits are balanced is what C12.R9 decides by evaluating the function on small layouts (digit range [-Bg/2, Bg/2))
        class _Rec:
            out = None

            def proved(self, *a_, **k_):
                self.out = self.out or "proved"

            def refuted(self, *a_, **k_):
                self.out = "refuted"

            def note(self, *a_, **k_):
                pass

            def vcount(self, *a_, **k_):
                pass

            def broken(self, msg):
                from sa.pipeline import AnalysisBroken
                raise AnalysisBroken(msg)
        rec = _Rec()
        c12.check_by_evaluation(rec, v, c12.FN)
        if rec.out == "proved":
            return {"balanced": True}
        # (rec.out is None: this variant uses the assembly path, which the evaluation does not cover; its statement form is the
        # lane-symbolic reading of the asm blocks, for which the shape answer stands)
    return {"balanced": bool(shape)}


def run(chk):
    prog = Program()
    chk.explanation = (
        "Noise reset and input independence are call-shape and data-dependence facts on the gate and bootstrap functions; "
        "the noise budget evaluates the closed-form model of sa/noise.py (CMux noise and truncation, n steps, key-switch "
        "noise and rounding) on the constants folded from both default parameter constructors and on structural facts "
        "re-derived from the code (balanced digits, key-switch rounding offset, zero digit skipped); when a structural "
        "fact is missing the corresponding worse transfer function is used, so the report names the cause.")
    chk.trusted = ["clang 14 front end", "summariser", "noise formulas of sa/noise.py (TFHE noise analysis under the usual independence heuristic)",
                   "bounds 0.0037 / 0.0047 / 1.35x / 3/64 taken from the property statement"]
    for v in prog.variants():
        vn = v.name
        chk.analysed["variants"] = chk.analysed.get("variants", 0) + 1
        # ---------------- R1 noise reset
        gates = {f.name[5:]: f for f in v.defined() if f.name.startswith("boots") and f.name[5:].isupper() and f.get("externC")}
        two_input = [g for g, f in gates.items() if sum(1 for p in f.params if "LweSample" in p["t"] and p["pointee_const"]) >= 2]
        chk.vcount(vn, "R1.bootstrapped_gates", len(two_input))
        for g in sorted(two_input):
            f = gates[g]
            ps, _ = summ.pieces(v, f, hooks=NOINLINE)
            res = sym.sym(f.params[0]["n"])
            cs = [p for p in ps if p["kind"] == "call" and not p["eff"].get("noreturn")]
            full = [c for c in cs if c["name"] == "tfhe_bootstrap_FFT"]
            woks = [c for c in cs if c["name"] == "tfhe_bootstrap_woKS_FFT"]
            ksw = [c for c in cs if c["name"] == "lweKeySwitch"]
            writers = [c for c in cs if c["args"] and c["args"][0] == res]
            guarded = [c for c in full + woks + ksw if c["guards"] or c["loops"]]
            if g == "MUX":
                ok = len(full) == 0 and len(woks) == 2 and len(ksw) == 1 and bool(writers) and writers[-1] is ksw[0] and not guarded
                want = "two bootstraps without key switch into private samples, one key switch into result"
            else:
                ok = len(full) == 1 and len(woks) == 0 and len(ksw) == 0 and bool(writers) and writers[-1] is full[0] and not guarded
                want = "one tfhe_bootstrap_FFT (sign bootstrap + key switch) into result"
            chk.require(ok, "R1", "boots%s: %s, unconditionally, as the last writer of result" % (g, want), where=f.where,
                        ok="writers of result: %s" % [c["name"] for c in writers],
                        bad="bootstraps %s, woKS %d, key switches %d, writers of result %s, conditional %d" % (
                            [c["name"] for c in full], len(woks), len(ksw), [c["name"] for c in writers], len(guarded)), variant=vn)
        # ---------------- R2 input independence
        for name in ("tfhe_bootstrap_woKS_FFT", "tfhe_bootstrap_woKS"):
            f = v.fn(name)
            ps, eff = summ.pieces(v, f, hooks=NOINLINE)
            ps = summ.fold_inline_calls(v, ps, ("modSwitchFromTorus32",))      # a switch expanded by hand is the switch
            x = f.params[3]["n"]
            X = sym.sym(x)
            uses = []
            for p in ps:
                for key in ("val", "lv"):
                    if isinstance(p.get(key), tuple):
                        acc = []
                        terms_with(p[key], X, acc)
                        uses += [(p["line"], u) for u in acc]
                for a in p.get("args") or []:
                    if isinstance(a, tuple):
                        acc = []
                        terms_with(a, X, acc)
                        uses += [(p["line"], u if u is not None else ("call", p.get("name"), ())) for u in acc]
                for lp in p["loops"]:
                    for lk in ("hi", "lo", "cond"):
                        if isinstance(lp.get(lk), tuple):
                            acc = []
                            terms_with(lp[lk], X, acc)
                            uses += [(p["line"], ("loopbound",)) for u in acc]
                for g_ in p.get("guards") or []:
                    acc = []
                    terms_with(g_, X, acc)
                    uses += [(p["line"], u if u is not None and u[0] == "call" else ("guard",)) for u in acc]
            bad = [(ln, u) for ln, u in uses if not (u is not None and u[0] == "call" and u[1] == "modSwitchFromTorus32")]
            fields = set()
            for p in ps:
                for key in ("val",):
                    t = p.get(key)
                    if isinstance(t, tuple):
                        for a in sym.atoms(t):
                            if a[0] == "fld" and sym.root_of(a) == X:
                                fields.add(a[2])
                for a in p.get("args") or []:
                    if isinstance(a, tuple):
                        for b in sym.atoms(a):
                            if b[0] == "fld" and sym.root_of(b) == X:
                                fields.add(b[2])
            chk.require(not bad and fields <= {"a", "b"} and uses, "R2",
                        "%s uses its input sample only as the argument of the modulus switch (fields a, b; never the variance)" % name, where=f.where,
                        ok="%d uses, all inside modSwitchFromTorus32(., 2N); fields read: %s" % (len(uses), sorted(fields)),
                        bad="other uses at lines %s; fields read: %s" % (sorted({ln for ln, _ in bad})[:5], sorted(fields)), variant=vn)
        # no mutable non-thread-local static is referenced by the bootstrap closure
        roots = [v.fn(n).usr for n in ("tfhe_bootstrap_FFT", "tfhe_bootstrap_woKS_FFT")]
        reach = v.reachable(roots)
        muts = {k: s for k, s in v.statics.items() if s["definition"] and not s.get("const") and not s.get("tls")
                and s["file"].startswith(("libtfhe", "include")) and "mutex" not in s["t"]}
        hits = []
        for u in reach:
            g = v.defs.get(u)
            if g is None:
                continue
            for n in walk([g.d.get("body"), g.d.get("inits")]):
                if n.get("k") == "ref" and n.get("q") in {s["q"] for s in muts.values()} and n.get("rk") in ("global", "static_local", "class_static"):
                    hits.append("%s references %s" % (g.q, n["q"]))
        chk.require(not hits, "R2", "the bootstrap closure reads no mutable process-wide state (no history)", where="libtfhe",
                    ok="%d functions in the closure, %d mutable statics in the library, none referenced" % (len(reach), len(muts)),
                    bad="; ".join(hits[:3]), variant=vn)
        # ---------------- R5 in-place updates (output wire = an input wire) are part of the quantifier: every gate consumes its
        # inputs before the first write to its output (C15.R3)
        from rules import c15 as _c15
        from sa import api as _api
        _E, _bal = _c15.evaluation_effects(v)
        _roles = _api.roles(v)
        _evalfns = [v.defs[u] for u, r in _roles.items() if r == "evaluation" and u in v.defs]
        from rules import c04 as _c04
        _c15.check_alias_safe_gates(_c04._Sub(chk, "R5"), v, _E, _evalfns)
        # ---------------- R6 the plaintext clause rests on the sign bootstrap every gate calls: C04's chain rules for the FFT path
        # (rounded phase, rotated test vector, rotation loop, extraction, key switch), re-evaluated here
        from rules import c04 as _c04b
        _c04b.evaluate(_c04b._Sub(chk, "R6"), v, ("_FFT",))
        # ---------------- R4 the key-switching-key noise is recentred (the mean bound relies on it: without it every gate output
        # under one key carries the same offset  -(number of selected rows) x (average row noise))
        from rules import c04, c07
        c07.check_ks_noise(c04._Sub(chk, "R4"), v, rule="R4")
        # the facts about the key switch below are read off the translation function: the entry point the gates call must be that
        # translation applied to the whole mask (C08's entry rule, re-evaluated: a digit level dropped in a hand-written copy of the
        # loop biases every gate output)
        from rules import c08
        c08.check_entry(chk, v, rule="R3")
        # ---------------- R3 noise budget
        kf = ks_facts(v)
        df = decomp_facts(v)
        if kf is None or df is None:
            chk.broken("structural facts for the noise model not derivable (key switch: %s, decomposition: %s)" % (kf, df))
        # the parameter sets the selector can hand out (a constructor per set, or one builder with arguments computed from the request)
        _sel, _pts, _outs, sets_ = c19.selected_parameter_sets(chk, v)
        sets = {k_[0] + ("(%s)" % ", ".join(map(str, k_[1])) if k_[1] else ""): (v.fn(k_[0]), ps_) for k_, ps_ in sets_.items()}
        chk.vcount(vn, "R3.parameter_sets", len(sets))
        if len(sets) != 2:
            chk.broken("expected two default parameter sets, found %s" % sorted(sets))
        for name, (f, c) in sorted(sets.items()):
            label = "128" if c["n"] >= 600 else "80"
            bound = BOUNDS[label]
            r = noise.gate_noise(c, balanced=df["balanced"], ks_rounding=kf["rounding"], ks_skip_zero=kf["skip_zero"])
            facts = "digits %s, key-switch rounding offset %s, zero digit %s" % (
                "balanced" if df["balanced"] else "NOT balanced", "present" if kf["rounding"] else "MISSING", "skipped" if kf["skip_zero"] else "not skipped")
            det = "sigma = %.5f (blind rotation %.3e + key switch %.3e), mean = %.2e; %s; n=%d N=%d l=%d Bgbit=%d t=%d basebit=%d sigma_bk=%.3g sigma_ks=%.3g" % (
                r["sigma_gate"], r["var_blind_rotation"], r["var_key_switch"], r["mean"], facts, c["n"], c["N"], c["l"], c["Bgbit"], c["ks_t"],
                c["ks_basebit"], c["bk_stdev"], c["ks_stdev"])
            chk.require(r["sigma_gate"] <= bound, "R3", "%s-bit set: gate output sigma <= %.4f" % (label, bound), where=f.where,
                        ok=det + " (ratio %.2f)" % (r["sigma_gate"] / bound), bad=det + " exceeds the bound (ratio %.2f)" % (r["sigma_gate"] / bound),
                        variant=vn, data={"model": r})
            chk.require(abs(r["mean"]) <= 0.25 * bound, "R3", "%s-bit set: |mean| of the gate output error <= %.5f" % (label, 0.25 * bound), where=f.where,
                        ok="mean %.2e (%s)" % (r["mean"], facts), bad="mean %.5f: %s" % (r["mean"], facts), variant=vn)
            chk.require(r["sigma_mux"] <= MUX_FACTOR * bound, "R3", "%s-bit set: MUX output sigma <= 1.35 x %.4f" % (label, bound), where=f.where,
                        ok="sigma_mux = %.5f (%.2f x the gate sigma)" % (r["sigma_mux"], r["sigma_mux"] / r["sigma_gate"]),
                        bad="sigma_mux = %.5f > %.5f" % (r["sigma_mux"], MUX_FACTOR * bound), variant=vn)
            chk.require(3.0 / 64 >= 8 * r["sigma_mux"], "R3", "%s-bit set: 3/64 is at least 8 sigma of any gate output" % label, where=f.where,
                        ok="3/64 = %.1f sigma_gate = %.1f sigma_mux" % (3.0 / 64 / r["sigma_gate"], 3.0 / 64 / r["sigma_mux"]),
                        bad="3/64 = %.1f sigma_mux" % (3.0 / 64 / r["sigma_mux"]), variant=vn)
