"""C07 — fresh ciphertexts and key rows carry exactly the configured noise, fresh masks.

Decides (def-use and coverage facts): R1 the sigma reaching every Gaussian draw of the generation API is the
caller-supplied alpha or <params>->alpha_min of the right object, unscaled; R2 the Gaussian term is a summand of b
for every row (key-switch: the number of draws equals the number of rows consuming them and the recentring
subtracts the mean of exactly those draws); R3 every mask coefficient is assigned a fresh full-range uniform draw
inside the encryption; R4 keys are drawn from {0,1}; R5 the process-wide generator is the only entropy source;
R6 seeding uses the whole seed range and nothing re-seeds.
Not decided: the distributions' empirical moments, uniformity and independence.
"""
import re

from sa import api, summ, sym
from sa.facts import Program, walk
from sa.sym import I, ZERO
from rules.c15 import rng_statics, referencing, RNG_CALLEES

P = lambda p, f: sym.arrow(sym.sym(p), f)
NOINLINE = summ.LOCAL_HELPERS

# entry point -> (description, expected sigma as a function of the parameter names)
def expected_sigma(f):
    names = [p["n"] for p in f.params]
    n = f.name
    if n == "bootsSymEncrypt":
        key = names[2]
        return sym.arrow(sym.arrow(P(key, "params"), "in_out_params"), "alpha_min")
    if n in ("lweCreateKeySwitchKey", "lweCreateKeySwitchKey_old"):
        out_key = names[2]
        return sym.arrow(P(out_key, "params"), "alpha_min")
    if n == "tfhe_createLweBootstrappingKey":
        return None     # two chains, checked separately
    dbl = [p["n"] for p in f.params if p["t"].replace("const ", "") == "double"]
    if dbl:
        return sym.sym(dbl[-1] if n != "lweSymEncryptWithExternalNoise" else dbl[-1])
    return None


STATEFUL_DISTRIBUTIONS = re.compile(r"\b(normal|lognormal|gamma|chi_squared|fisher_f|student_t|poisson|binomial|negative_binomial)_distribution\b")


def _scale_of(t, draw):
    """t == c * draw (floating product) -> c ; t == draw -> 1.0 ; else None"""
    if t == draw:
        return ("float", 1.0)
    if t and t[0] == "cast":
        return _scale_of(t[2], draw)
    if t and t[0] == "fop" and t[1] == "*":
        if t[2] == draw:
            return t[3]
        if t[3] == draw:
            return t[2]
    return None


def _find_scale(ps, draw):
    for q in ps:
        for cand in ([q.get("val")] if q.get("val") is not None else []) + list(q.get("args") or []):
            if cand is None:
                continue
            for st in sym.subterms(cand):
                c = _scale_of(st, draw)
                if c is not None and st != draw:
                    return c
    for q in ps:
        if q.get("val") is not None and sym.contains(q["val"], draw):
            return ("float", 1.0)
    return None


def gaussian_sites(ps, v=None):
    """(sigma term, piece) for every Gaussian draw: a normal_distribution(mean, sigma) constructed on the way, or a draw
    from a persistent (namespace-scope / static) normal_distribution(0, s0) whose result is scaled by c: sigma = c*s0"""
    out = []
    for p in ps:
        if p["kind"] != "call":
            continue
        if re.search(r"normal_distribution<.*>::normal_distribution$", p["name"]) and len(p["args"]) >= 2:
            out.append((p["args"][1], p))
        elif v is not None and re.search(r"normal_distribution<.*>::operator\(\)$", p["name"]) and p["args"] and p["args"][0][0] == "glob":
            g = v.statics.get(p["args"][0][1]) or next((s for s in v.statics.values() if s["name"] == p["args"][0][1].split("@")[0]), None)
            if g is None or not g.get("init"):
                continue
            ia = [a for a in g["init"].get("args", []) if isinstance(a, dict)]
            try:
                s0 = float(ia[1].get("cv", ia[1].get("v"))) if len(ia) >= 2 else 1.0
                m0 = float(ia[0].get("cv", ia[0].get("v"))) if ia else 0.0
            except (TypeError, ValueError):
                continue
            if m0 != 0.0:
                continue
            draw = p["eff"].get("ret") if p.get("eff") else None
            c = _find_scale([q for q in ps if q.get("stack") == p.get("stack")], draw) if draw is not None else None
            if c is None:
                continue
            sg = c if s0 == 1.0 else ("fop", "*", c, ("float", s0))
            out.append((sg, p))
    return out


def _strip_casts(t):
    while t and t[0] == "cast":
        t = t[2]
    return t


def recentring_mean(v, fn, ps, rec, draw, sizeks):
    """the value subtracted from every draw is the floating-point arithmetic mean of exactly those draws -> problems"""
    from sa.pipeline import AnalysisBroken
    arr = draw["lv"][1]
    V = _strip_casts(rec["val"])
    if not (V[0] in ("fop", "op") and V[1] == "/"):
        raise AnalysisBroken("lweCreateKeySwitchKey: recentring value %s is not a quotient" % sym.show(rec["val"])[:80])
    num, den = _strip_casts(V[2]), _strip_casts(V[3])
    out = []
    if den != sizeks:
        out.append("the sum is divided by %s, there are %s draws" % (sym.show(den), sym.show(sizeks)))
    if V[0] == "op":
        out.append("the mean is computed by an integer division (line %s): its value is truncated to a whole number, i.e. 0 for noise of "
                   "magnitude 1e-5, so nothing is subtracted" % rec["line"])
    if num[0] == "var":
        decl = [p for p in ps if p["kind"] == "local" and p.get("id") == num[2] and p["op"] == "decl"]
        accs = [p for p in ps if p["kind"] == "local" and p.get("id") == num[2] and p["op"] == "+="]
        other = [p for p in ps if p["kind"] == "local" and p.get("id") == num[2] and p["op"] not in ("decl", "+=", "=")]
        if len(decl) != 1 or decl[0]["val"] not in (("float", 0.0),):
            out.append("the accumulator %s is not a floating-point variable starting at 0 (initialiser %s)" % (
                num[1], sym.show(decl[0]["val"]) if decl else None))
        if other or len(accs) != 1 or len(accs[0]["loops"]) != 1:
            out.append("the accumulator %s is not fed by exactly one '+=' in one loop" % num[1])
        else:
            lp = accs[0]["loops"][0]
            if not summ.visits(lp, ZERO, sizeks) or accs[0]["val"] != sym.idx(arr, lp["var"]):
                out.append("the accumulator sums %s over [%s,%s), not the draws noise[i] over [0, n*t*(base-1))" % (
                    sym.show(accs[0]["val"])[:60], sym.show(lp["lo"]), sym.show(lp["hi"])))
    elif num[0] == "call" and num[1] in ("std::accumulate", "accumulate") and len(num[2]) >= 3:
        a = num[2]
        if a[0] != arr or a[1] != sym.padd(arr, sizeks):
            out.append("std::accumulate runs over [%s, %s), not over the %s draws" % (sym.show(a[0])[:40], sym.show(a[1])[:60], sym.show(sizeks)))
        node = next((n for n in walk(fn.d.get("body")) if n.get("k") == "call" and n.get("callee") in ("std::accumulate", "accumulate")), None)
        ty = (node or {}).get("t", "")
        if ty.replace("const ", "") not in ("double", "long double", "float"):
            out.append("std::accumulate is instantiated with an initial value of type %s (line %s): every partial sum is converted to %s, "
                       "so the sum of draws of magnitude 1e-5 is 0 and nothing is subtracted; the key-switching noise keeps its random mean" % (
                           ty or "?", (node or {}).get("l"), ty or "?"))
    else:
        raise AnalysisBroken("lweCreateKeySwitchKey: sum of the draws %s not recognised" % sym.show(num)[:80])
    return out


def contains_call(t, name):
    if not isinstance(t, tuple) or not t:
        return False
    if t[0] == "call" and t[1] == name:
        return True
    if not isinstance(t[0], str):
        return any(contains_call(x, name) for x in t)
    if t[0] == "poly":
        return any(any(contains_call(a, name) for a in m) for m, _ in t[1])
    return any(contains_call(x, name) for x in t[1:] if isinstance(x, tuple))


def check_ks_noise(chk, v, rule="R2"):
    """key-switching key: one Gaussian per row, recentred by the floating mean of exactly those draws, consumed in order"""
    vn = v.name
    # ---------------- R2 noise is added: key switch bookkeeping
    ks = v.fn("lweCreateKeySwitchKey")
    kps, _ = summ.pieces(v, ks, hooks=NOINLINE)
    res, in_key, out_key = [p["n"] for p in ks.params]
    n_, t_, bb = P(res, "n"), P(res, "t"), P(res, "basebit")
    base = ("op", "<<", I(1), bb)
    sizeks = sym.mul(sym.mul(n_, t_), sym.sub(base, I(1)))
    problems = []
    draws = [p for p in kps if p["kind"] == "store" and p["loops"] and p["val"][0] in ("call", "obj") and "operator()" in p["val"][1]]
    if len(draws) != 1 or (draws[0]["loops"][0]["lo"], draws[0]["loops"][0]["hi"]) != (ZERO, sizeks) or draws[0]["lv"][2] != draws[0]["loops"][0]["var"]:
        problems.append("noise draws: %s; expected noise[i] for i in [0, n*t*(base-1))" % [summ.show_piece(p)[:100] for p in draws])
    # consumers: every statement that reads noise[X] other than the draw, the running sum and the recentring
    from sa.pipeline import AnalysisBroken
    narr = draws[0]["lv"][1] if draws else None
    consumers = []
    for p in kps:
        if narr is None or p in draws:
            continue
        terms = list(p.get("args") or []) + ([p["val"]] if p.get("val") is not None else [])
        reads = [st for t in terms if t is not None for st in sym.subterms(t) if st[0] == "idx" and st[1] == narr]
        if not reads:
            continue
        if p["kind"] == "local" and p["op"] == "+=" and len(p["loops"]) == 1:
            continue            # running sum of the draws
        if p["kind"] == "local" and p["op"] in ("decl", "=", "++", "--"):
            continue            # a named copy (its uses carry the value) or a walking pointer (an address, not a read)
        if p["kind"] == "store" and p["lv"][0] == "idx" and p["lv"][1] == narr:
            continue            # recentring statement
        if p["kind"] == "call" and p["name"] in ("std::accumulate", "accumulate"):
            continue
        consumers.append((p, reads))
    idx_inc = [p for p in kps if p["kind"] == "local" and p["op"] in ("+=", "++") and p["loops"]]
    inline_centre = None
    if not consumers:
        # the noise may be consumed through a pointer whose progress the executor could not put in closed form (advanced under a
        # condition, e.g. `if (h == 0) {...; continue;} use(*noise_it++)`): undecided, not a violation
        opaque = [p for p in kps if p["kind"] == "call" and any(
            isinstance(a_, tuple) and any(st_[0] == "idx" and sym.root_of(st_) is not None and sym.root_of(st_)[0] == "var" for st_ in sym.subterms(a_))
            for a_ in p["args"] if a_ is not None)]
        if opaque:
            chk.broken("lweCreateKeySwitchKey: %s at line %s reads through a local pointer that is not resolved to the noise array" % (
                opaque[0]["name"], opaque[0]["line"]))
        problems.append("the recentred draws are never added to a row")
    elif len(consumers) != 1:
        raise AnalysisBroken("lweCreateKeySwitchKey: %d statements consume the noise array" % len(consumers))
    else:
        cons, reads = consumers[0]
        nz = reads[0]
        if len(set(reads)) != 1:
            raise AnalysisBroken("lweCreateKeySwitchKey: the consuming statement reads several noise entries: %s" % [sym.show(r) for r in reads])
        from sa import secretflow
        dims = [n_, t_, bb]
        import itertools

        def visits(loops, guards, env, term=None):
            """values of term (or None) at every iteration of the nest that passes the guards, in execution order"""
            seen = []

            def go(k, env):
                if k == len(loops):
                    for g_ in guards:
                        gv = secretflow.eval_term(g_, env)
                        if gv is None:
                            raise AnalysisBroken("lweCreateKeySwitchKey: guard %s not evaluable" % sym.show(g_))
                        if not gv:
                            return
                    tv = secretflow.eval_term(term, env) if term is not None else None
                    if term is not None and tv is None:
                        raise AnalysisBroken("lweCreateKeySwitchKey: noise index %s not evaluable" % sym.show(term)[:200])
                    seen.append(tv)
                    return
                l = loops[k]
                lo, hi, stp = secretflow.eval_term(l["lo"], env), secretflow.eval_term(l["hi"], env), sym.const_value(l["step"])
                if lo is None or hi is None or not stp or l["cmp"] not in ("<", "<=", ">", ">="):
                    raise AnalysisBroken("lweCreateKeySwitchKey: loop at line %s not evaluable" % l.get("l"))
                i_ = lo
                while {"<": i_ < hi, "<=": i_ <= hi, ">": i_ > hi, ">=": i_ >= hi}[l["cmp"]]:
                    e2 = dict(env)
                    e2[l["var"]] = i_
                    go(k + 1, e2)
                    i_ += stp
                    if len(seen) > 100000:
                        raise AnalysisBroken("lweCreateKeySwitchKey: loop at line %s does not terminate on the grid" % l.get("l"))
            go(0, env)
            return seen
        running = nz[2][0] == "var"
        if running:
            # a running index the executor could not put in closed form: it must start at 0 and advance once per row
            inc = [p for p in idx_inc if p.get("id") == nz[2][2]]
            if len(inc) != 1 or inc[0]["loops"] != cons["loops"] or inc[0]["guards"] != cons["guards"] or \
                    (inc[0]["op"] == "+=" and inc[0]["val"] != I(1)):
                problems.append("the noise index is not advanced exactly once per consuming row")
            decl = [p for p in kps if p["kind"] == "local" and p.get("id") == nz[2][2] and p["op"] == "decl"]
            if len(decl) != 1 or decl[0]["val"] != ZERO:
                problems.append("the noise index does not start at 0")
        # the rows consume exactly the draws, each once, for every (n, t, basebit): index sets enumerated on a small grid
        if draws:
            for vals in itertools.product((1, 2, 3), repeat=3):
                env = dict(zip(dims, vals))
                drawn = visits(draws[0]["loops"], draws[0]["guards"], env, draws[0]["lv"][2])
                used = visits(cons["loops"], cons["guards"], env, None if running else nz[2])
                if running:
                    used = list(range(len(used)))
                if sorted(used) != sorted(drawn):
                    if len(used) != len(drawn):
                        problems.append("with n=%d, t=%d, basebit=%d: %d Gaussians are drawn and recentred, %d rows consume one (line %s): the mean "
                                        "subtracted is not the mean of the values actually used" % (vals[0], vals[1], vals[2], len(drawn), len(used), cons["line"]))
                    else:
                        dup = sorted({u for u in used if used.count(u) > 1})
                        problems.append("with n=%d, t=%d, basebit=%d: the rows consume noise entries %s, the draws fill %s (line %s)%s" % (
                            vals[0], vals[1], vals[2], sorted(used)[:12], sorted(drawn)[:12], cons["line"],
                            ": entries %s are used by several rows, which then share one noise value" % dup[:6] if dup else ""))
                    break
        if cons["kind"] == "call" and cons["name"] == "lweSymEncryptWithExternalNoise":
            a2 = _strip_casts(cons["args"][2])
            if a2 == nz:
                pass
            elif a2[0] == "fop" and a2[1] == "-" and _strip_casts(a2[2]) == nz:
                inline_centre = a2[3]
            else:
                problems.append("row noise operand is %s, not noise[index]" % sym.show(cons["args"][2])[:120])
            if cons["args"][4] != sym.sym(out_key):
                problems.append("rows are encrypted under %s, not under the output key" % sym.show(cons["args"][4]))
    # recentring: err = sum / sizeks ; noise[i] -= err over the same range, or noise[index] - err where a row takes its noise
    recentre = [p for p in kps if p["kind"] == "store" and p["op"] == "-=" and p["loops"] and draws and p["lv"][1] == draws[0]["lv"][1]]
    if inline_centre is not None and not recentre and draws:
        problems += recentring_mean(v, ks, kps, {"val": inline_centre, "line": consumers[0][0]["line"]}, draws[0], sizeks)
    elif inline_centre is not None and recentre:
        problems.append("the draws are recentred in place and the mean is subtracted again where a row takes its noise: every row is off by the mean")
    else:
        if len(recentre) != 1 or (recentre[0]["loops"][0]["lo"], recentre[0]["loops"][0]["hi"]) != (ZERO, sizeks):
            problems.append("recentring does not cover exactly the draws")
        if len(recentre) == 1 and draws:
            problems += recentring_mean(v, ks, kps, recentre[0], draws[0], sizeks)
    chk.require(not problems, rule, "lweCreateKeySwitchKey: one recentred Gaussian per row (i, j, h>=1), consumed in order", where=ks.where,
                ok="n*t*(base-1) draws; mean of those draws subtracted from each; row (i,j,h) takes noise[index++] under the output key",
                bad="; ".join(problems)[:500], variant=vn)


def run(chk):
    prog = Program()
    chk.explanation = (
        "Every generation entry point is folded with all library callees inlined; the standard deviation argument of "
        "each normal_distribution constructed on the way is a closed term over the entry point's parameters and must "
        "be the caller's alpha or the alpha_min field of the right parameter object (no literal, no alpha_max, no "
        "scaling); mask stores and key stores are checked for full index ranges and for their source distribution "
        "(bounds read from the static initialisers); RNG objects and entropy calls are inventoried over the call graph.")
    chk.trusted = ["clang 14 front end", "summariser", "libstdc++ distributions behave as specified"]
    for v in prog.variants():
        vn = v.name
        chk.analysed["variants"] = chk.analysed.get("variants", 0) + 1
        # R7 the messages of the key-switching rows (and the recentring of the old generator) are computed with logical shifts only
        from sa import shifts as _shifts
        _shifts.check(chk, v, "R7", ["libtfhe/lwe-keyswitch-functions.cpp", "libtfhe/lwe-functions.cpp"], "key-switching key generation")
        roles = api.roles(v)
        gen = [v.defs[u] for u, r in roles.items() if r == "generation" and u in v.defs]
        chk.vcount(vn, "R1.generation_entry_points", len(gen))
        full = summ.InlineLib()
        # ---------------- R1 provenance
        nsites = 0
        for f in sorted(gen, key=lambda f: f.name):
            if f.name in ("tfhe_random_generator_setSeed", "gaussian32", "torusPolynomialUniform", "lweKeyGen", "tLweKeyGen", "tGswKeyGen",
                          "new_random_gate_bootstrapping_secret_keyset", "tLweExtractKey", "lweSymEncryptWithExternalNoise"):
                continue
            ps, _ = summ.pieces(v, f, hooks=full)
            sites = gaussian_sites(ps, v)
            if not sites:
                chk.refuted("R1", "%s draws Gaussian noise" % f.name, where=f.where, detail="no Gaussian draw is reachable: the output would be noiseless",
                            variant=vn)
                continue
            nsites += len(sites)
            names = [p["n"] for p in f.params]
            want = expected_sigma(f)
            for sg, p in sites:
                key = "%s: sigma of the Gaussian drawn at %s" % (f.name, "/".join(p["stack"][-2:]) or f.name)
                where = "%s:%s" % (f.file, p["line"])
                if f.name == "tfhe_createLweBootstrappingKey":
                    bk, key_in, rgsw = names
                    okset = {sym.arrow(sym.arrow(P(bk, "bk_params"), "tlwe_params"), "alpha_min"): "bootstrapping rows: bk_params->tlwe_params->alpha_min",
                             sym.arrow(P(key_in, "params"), "alpha_min"): "key-switch rows: output key's params->alpha_min"}
                    chk.require(sg in okset, "R1", key, where=where, ok=okset.get(sg, ""), bad="sigma is %s" % sym.show(sg), variant=vn)
                    continue
                if want is None:
                    chk.broken("%s: no expected sigma rule" % f.name)
                bad = None
                if sg != want:
                    if sg[0] == "float":
                        bad = "a literal %s" % sg[1]
                    elif "alpha_max" in sym.show(sg):
                        bad = "%s (the upper noise bound, not the fresh-sample noise)" % sym.show(sg)
                    elif sym.contains(sg, want):
                        bad = "%s: the configured value is rescaled" % sym.show(sg)
                    else:
                        bad = sym.show(sg)
                chk.require(bad is None, "R1", key, where=where, ok="sigma = %s" % sym.show(want), bad="sigma is %s, expected %s" % (bad, sym.show(want)),
                            variant=vn)
        chk.vcount(vn, "R1.gaussian_sites", nsites)
        # gaussian32 itself: message + dtot32(N(0, sigma))
        g = v.fn("gaussian32")
        gps, _ = summ.pieces(v, g, hooks=NOINLINE)
        msg, sig = [p["n"] for p in g.params]
        ctor = gaussian_sites(gps, v)
        ret = [p for p in gps if p["kind"] == "return"]
        draw = [p for p in gps if p["kind"] == "call" and p["name"].endswith("::operator()")]
        ok = len(ctor) == 1 and ctor[0][0] == sym.sym(sig) and len(ret) == 1 and len(draw) == 1 and ("glob", "generator") in draw[0]["args"]
        if ok and ctor[0][1]["name"].endswith("::normal_distribution"):
            ok = ctor[0][1]["args"][0] in (("float", 0.0), ZERO)
        lin = sym.linear_in(ret[0]["val"], sym.sym(msg)) if ret else None
        ok = ok and lin is not None and lin[0] == I(1) and contains_call(lin[1], "dtot32")
        chk.require(ok, "R2", "gaussian32(message, sigma) = message + dtot32(N(0, sigma)) drawn from the process generator", where=g.where,
                    ok="normal_distribution(0, sigma)(generator); return message + dtot32(err)", bad=[summ.show_piece(p)[:100] for p in gps], variant=vn)
        check_ks_noise(chk, v)
        # a fresh LWE ciphertext carries exactly the configured noise only if the mask terms cancel in the phase: C03.R1's decision
        # for both encryption functions, re-evaluated here
        from rules import c03 as _c03, c04 as _c04
        _c03.check_lwe_encrypt(_c04._Sub(chk, "R2"), v, 1, "R2")
        en = v.fn("lweSymEncryptWithExternalNoise")
        eps, _ = summ.pieces(v, en, hooks=NOINLINE)
        eps = summ.fold_accumulators(eps)
        r, m, nz, al, ky = [p["n"] for p in en.params]
        binit = [p for p in eps if p["kind"] == "store" and p["lv"] == P(r, "b") and p["op"] == "="]
        # b is assigned once, and what it is assigned is linear in dtot32(noise) and in the message with coefficient 1 (the mask
        # terms may be part of the same expression); no other statement on b mentions the noise
        Dn, Mn = ("call", "dtot32", (sym.sym(nz),)), sym.sym(m)
        okn = len(binit) == 1 and not binit[0]["loops"] and not binit[0]["guards"]
        if okn:
            for atom in (Dn, Mn):
                lin = sym.linear_in(binit[0]["val"], atom)
                okn = okn and lin is not None and lin[0] == I(1) and not sym.contains(lin[1], atom)
            others = [p for p in eps if p["kind"] == "store" and p["lv"] == P(r, "b") and p is not binit[0]]
            okn = okn and not any(sym.contains(p["val"], Dn) or sym.contains(p["val"], sym.sym(nz)) for p in others)
        chk.require(okn, "R2", "lweSymEncryptWithExternalNoise adds the supplied noise to b exactly once", where=en.where, ok="b = message + dtot32(noise) + <a,s>",
                    bad=[summ.show_piece(p)[:80] for p in binit], variant=vn)
        # TLWE: every b coefficient gets its own Gaussian
        ez = v.fn("tLweSymEncryptZero")
        zps, _ = summ.pieces(v, ez, hooks=NOINLINE)
        zr, za, zk = [p["n"] for p in ez.params]
        # (the sample's own copy of k, set by its constructor from the parameter object, is the key's k)
        _kk = {P(zr, "k"): sym.arrow(P(zk, "params"), "k")}
        zps = [dict(p_, loops=[dict(l_, lo=sym.subst(l_["lo"], _kk), hi=sym.subst(l_["hi"], _kk)) if "var" in l_ else l_ for l_ in p_["loops"]]) for p_ in zps]
        from sa import coverage
        zfp = summ.forward_local_arrays(zps)          # a draw may reach b through a scratch buffer private to the call
        stz, detz, nz_ = coverage.filled_by(
            zfp, sym.arrow(P(zr, "b"), "coefsT"), sym.arrow(P(zk, "params"), "N"),
            lambda val, ix: None if summ.is_gaussian_draw(zps, val, sym.sym(za)) else
            "b[%s] = %s is not gaussian32(0, alpha)" % (sym.show(ix), sym.show(val)[:60]))
        if stz == "unknown":
            chk.broken("tLweSymEncryptZero: %s" % detz)
        if stz == "refuted":
            later = summ.noise_added_later(zps, sym.arrow(P(zr, "b"), "coefsT"))
            opq = [q_ for q_ in summ.opaque_writers(v, zps) if q_["kind"] in ("while", "unknown", "asm")]
            if later is None and opq:
                chk.broken("tLweSymEncryptZero: %s may write b, which the analysis does not see through" % summ.show_opaque(opq))
            if later is not None:
                chk.broken("tLweSymEncryptZero: the noise is added to b after the products (line %s), an arrangement this rule does not decide" % later["line"])
        if stz == "proved":
            once = summ.value_not_redrawn(zps, sym.arrow(P(zr, "b"), "coefsT"), lambda c_: c_["name"] == "gaussian32" or c_["name"].endswith("operator()"))
            if once is not None:
                stz, detz = "refuted", ("the Gaussian stored by the statement at line %s is drawn once, outside the loop that stores it: all %s "
                                        "coefficients of b receive the same error value (in-row variance 0)" % (once["line"], "N"))
        chk.require(stz == "proved", "R2", "tLweSymEncryptZero draws an independent Gaussian for each of the N coefficients of b", where=ez.where,
                    ok="b[j] = gaussian32(0, alpha), j < N (%d statement(s); %s)" % (nz_, detz), bad=detz, variant=vn)
        # ---------------- R3 masks
        uni = v.statics.get("uniformTorus32_distrib")
        okb = False
        det = "distribution object not found"
        if uni and uni.get("init"):
            args = [a.get("cv", a.get("v")) for a in uni["init"].get("args", []) if isinstance(a, dict)]
            okb = args == [str(-2 ** 31), str(2 ** 31 - 1)]
            det = "bounds %s" % args
        chk.require(okb, "R3", "uniformTorus32_distrib spans the whole torus [INT32_MIN, INT32_MAX]", where=uni["loc"] if uni else "", ok=det, bad=det,
                    variant=vn)
        for name in ("lweSymEncrypt", "lweSymEncryptWithExternalNoise"):
            f = v.fn(name)
            ps, _ = summ.pieces(v, f, hooks=NOINLINE)
            r = f.params[0]["n"]
            ky = f.params[-1]["n"]
            def fresh_uniform(val, ix):
                while val[0] == "cast":
                    val = val[2]
                if val[0] in ("call", "obj") and "operator()" in val[1] and \
                        ("glob", "uniformTorus32_distrib") in [sym.root_of(a) if a[0] == "addr" else a for a in val[2]] + list(val[2]) \
                        and ("glob", "generator") in list(val[2]):
                    return None
                return "a[%s] = %s is not a draw from uniformTorus32_distrib with the process generator itself" % (sym.show(ix), sym.show(val)[:80])
            ms = [p for p in summ.forward_local_arrays(summ.forward_stored_calls(ps)) if not p.get("byref")]
            stm, detm, nm_ = coverage.filled_by(ms, P(r, "a"), sym.arrow(P(ky, "params"), "n"), fresh_uniform)
            if stm == "proved":
                once = summ.value_not_redrawn(ps, P(r, "a"), lambda c_: "operator()" in c_["name"])
                if once is not None:
                    stm, detm = "refuted", "the value stored by the statement at line %s is drawn once, outside the loop that stores it: every mask coefficient is the same" % once["line"]
            if stm == "unknown":
                chk.broken("%s: mask statements: %s" % (name, detm))
            chk.require(stm == "proved", "R3", "%s assigns every mask coefficient a fresh uniformTorus32 draw" % name, where=f.where,
                        ok="a[i] = uniformTorus32_distrib(generator), i < n, inside the encryption (%d statement(s); %s)" % (nm_, detm),
                        bad="%s (every coefficient must be drawn from uniformTorus32_distrib with the process generator itself)" % detm, variant=vn)
        tu = v.fn("torusPolynomialUniform")
        tps, _ = summ.pieces(v, tu, hooks=NOINLINE)
        r = tu.params[0]["n"]
        def uniform_draw(val, ix):
            while val[0] == "cast":
                val = val[2]
            if val[0] in ("call", "obj") and "operator()" in str(val[1]) and ("glob", "uniformTorus32_distrib") in val[2]:
                return None
            return "coefsT[%s] = %s is not a uniformTorus32 draw" % (sym.show(ix), sym.show(val)[:80])
        stt, dett, nt_ = coverage.filled_by([p for p in tps if not p.get("byref")], P(r, "coefsT"), P(r, "N"), uniform_draw)
        if stt == "unknown":
            chk.broken("torusPolynomialUniform: %s" % dett)
        chk.require(stt == "proved", "R3", "torusPolynomialUniform draws all N coefficients from uniformTorus32", where=tu.where,
                    ok="coefsT[i] = uniformTorus32_distrib(generator), i < N (%d statement(s); %s)" % (nt_, dett), bad=dett, variant=vn)
        us = [p for p in zps if p["kind"] == "call" and p["name"] == "torusPolynomialUniform"]
        # every mask component exactly once, whatever the loop structure: the component offsets of all calls are enumerated for k in 1..4
        from sa import concrete as _conc
        ok, whyu = bool(us), "no call of torusPolynomialUniform"
        for c_ in us:
            b0, _o = sym.ptr_split(c_["args"][0])
            if b0 != P(zr, "a") and sym.root_of(b0) not in (sym.sym(zr), sym.sym(zk)):
                chk.broken("tLweSymEncryptZero: the polynomial drawn at line %s is not resolved to the parameters: %s" % (c_["line"], sym.show(b0)[:80]))
            if b0 != P(zr, "a"):
                ok, whyu = False, "draws into %s" % sym.show(c_["args"][0])[:80]
        if ok:
            for kv in (1, 2, 3, 4, 5, 6, 9):
                try:
                    seen = sorted(x_[0] for x_ in _conc.visited_tuples(us, lambda c_: (sym.ptr_split(c_["args"][0])[1],), {sym.arrow(P(zk, "params"), "k"): kv}))
                except _conc.NotEvaluable as e:
                    chk.broken("tLweSymEncryptZero: %s" % e)
                if seen != list(range(kv)):
                    ok, whyu = False, "with k = %d the components drawn are %s, the mask has components 0..%d" % (kv, seen, kv - 1)
                    break
        chk.require(ok, "R3", "tLweSymEncryptZero draws a fresh uniform polynomial for each of the k mask components", where=ez.where,
                    ok="torusPolynomialUniform(&result->a[i]), i < k (enumerated for k = 1..4)", bad=[whyu] + [summ.show_piece(p)[:100] for p in us], variant=vn)
        # ---------------- R4 binary keys
        for name, depth in (("lweKeyGen", 1), ("tLweKeyGen", 2)):
            f = v.fn(name)
            ps, _ = summ.pieces(v, f, hooks=NOINLINE)
            ctor = [p for p in ps if p["kind"] == "call" and re.search(r"uniform_int_distribution<.*>::uniform_int_distribution$", p["name"])]
            st = [p for p in ps if p["kind"] == "store" and p["loops"] and not p.get("byref")]
            r = f.params[0]["n"]
            problems = []
            if len(ctor) != 1 or ctor[0]["args"][:2] != [ZERO, I(1)]:
                problems.append("key distribution bounds %s, expected (0, 1)" % ([sym.show(a) for a in ctor[0]["args"][:2]] if ctor else None))
            if len(st) != 1 or len(st[0]["loops"]) != depth or "operator()" not in str(st[0]["val"][1]) or ("glob", "generator") not in st[0]["val"][2]:
                problems.append("key coefficients are not all drawn from it")
            else:
                dims = [(l["lo"], l["cmp"], l["hi"]) for l in st[0]["loops"]]
                want = [(ZERO, "<", sym.arrow(P(r, "params"), "n"))] if depth == 1 else \
                    [(ZERO, "<", sym.arrow(P(r, "params"), "k")), (ZERO, "<", sym.arrow(P(r, "params"), "N"))]
                if dims != want:
                    problems.append("ranges %s" % [[sym.show(x) if isinstance(x, tuple) else x for x in d] for d in dims])
            chk.require(not problems, "R4", "%s draws every key coefficient from {0,1}" % name, where=f.where, ok="uniform_int_distribution(0,1)(generator) over the full range",
                        bad="; ".join(problems), variant=vn)
        # ---------------- R5 single entropy source
        rs = rng_statics(v)
        names = sorted(s["name"] for s in rs.values())
        engines = [s for s in rs.values() if re.search(r"engine|mersenne|linear_congruential", s["t"])]
        chk.require(len(engines) == 1 and engines[0]["name"] == "generator", "R5", "exactly one random engine object exists in the library", where=engines[0]["loc"] if engines else "",
                    ok="engine 'generator'; distributions %s" % [n for n in names if n != "generator"], bad="engines: %s" % [s["name"] for s in engines],
                    variant=vn)
        for e_ in engines:
            chk.require(not e_.get("tls"), "R5", "the engine '%s' is one process-wide object (what tfhe_random_generator_setSeed seeds is what every thread draws from)" % e_["name"],
                        where=e_["loc"], ok="static storage duration, not thread_local",
                        bad="the engine is thread_local: tfhe_random_generator_setSeed seeds only the calling thread's copy; every other thread draws from a "
                            "default-constructed engine, i.e. the same unseeded stream in each thread (identical keys, masks and ciphertexts)", variant=vn)
        pubs = [u for u in api.public_functions(v) if u in v.defs]
        reach = v.reachable(pubs)
        bad = []
        for u in reach:
            f = v.defs.get(u)
            if f is None or not f.file.startswith(("libtfhe", "include")):
                continue
            if f.name.endswith("_test"):
                continue
            for n in walk(f.d.get("body")):
                if n.get("k") in ("call", "mcall", "construct") and n.get("callee") and RNG_CALLEES.search(n["callee"]):
                    bad.append("%s calls %s at %s:%s" % (f.q, n["callee"], f.file, n["l"]))
                if n.get("k") == "var" and "&" not in n.get("t", "") and "*" not in n.get("t", "") and re.search(r"random_device|mt19937|default_random_engine|minstd|linear_congruential_engine|mersenne_twister_engine|subtract_with_carry_engine|"
                                                    r"discard_block_engine|shuffle_order_engine|ranlux|knuth_b", n.get("t", "")):
                    bad.append("%s declares a local engine object '%s' at %s:%s (a copy of the process generator repeats its stream on every call; a fresh engine ignores the seed)" % (f.q, n["n"], f.file, n["l"]))
        chk.require(not bad, "R5", "no other entropy source (rand, random_device, clock, local engines) is reachable from the public API", where="libtfhe",
                    ok="%d reachable functions inspected" % len(reach), bad="; ".join(bad[:3]), variant=vn)
        # ---------------- R6 seeding
        sd = v.fn("tfhe_random_generator_setSeed")
        sps, _ = summ.pieces(v, sd, hooks=NOINLINE)
        vals, size = [p["n"] for p in sd.params]
        sq = [p for p in sps if p["kind"] == "call" and "seed_seq" in p["name"] and p["eff"].get("kind") == "construct"]
        seedc = [p for p in sps if p["kind"] == "call" and p["name"].endswith("::seed")]
        ok = len(sq) == 1 and sq[0]["args"][:2] == [sym.sym(vals), sym.padd(sym.sym(vals), sym.sym(size))] and len(seedc) == 1 and \
            seedc[0]["eff"].get("this") == sym.addr(("glob", "generator"))
        chk.require(ok, "R6", "tfhe_random_generator_setSeed seeds the generator from the whole [values, values+size) range", where=sd.where,
                    ok="seed_seq(values, values+size); generator.seed(seeds)", bad=[summ.show_piece(p)[:120] for p in sps], variant=vn)
        # a distribution object that outlives a call and keeps internal state (std::normal_distribution caches the second
        # value of each generated pair) carries that state across a re-seed unless setSeed resets it
        persistent = [s_ for s_ in rs.values() if STATEFUL_DISTRIBUTIONS.search(s_["t"])]
        chk.set_count("R6.persistent_stateful_distributions", len(persistent))
        resets = set()
        for n in walk(sd.d.get("body")):
            if n.get("k") == "mcall" and n.get("method") == "reset":
                for r_ in walk(n.get("obj") or n.get("this") or n):
                    if r_.get("k") == "ref":
                        resets.add(r_.get("n"))
        for s_ in persistent:
            chk.require(s_["name"] in resets, "R6", "re-seeding resets the persistent distribution object %s" % s_["name"], where=s_["loc"],
                        ok="%s.reset() in tfhe_random_generator_setSeed" % s_["name"],
                        bad="%s is a %s that lives across calls and keeps a cached value; tfhe_random_generator_setSeed does not reset() it, so the "
                            "first draws after re-seeding depend on what was drawn before (same seed, different keys/ciphertexts)" % (
                                s_["name"], re.sub(r"^.*?(\w+_distribution).*$", r"\1", s_["t"])), variant=vn)
        reseed = []
        for u, f in v.defs.items():
            if u == sd.usr or not f.file.startswith("libtfhe"):
                continue
            for n in walk(f.d.get("body")):
                if n.get("k") == "mcall" and n.get("method") == "seed":
                    reseed.append("%s:%s" % (f.file, n["l"]))
        chk.require(not reseed, "R6", "nothing else re-seeds the generator", where="libtfhe", ok="no other call to seed()", bad=str(reseed), variant=vn,
                    nontrivial=False)
