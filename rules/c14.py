"""C14 — ciphertext linear operations act exactly linearly on phases, for every dimension.

Decides: R1 a/b homomorphism of every LWE operation against an operator table; R2 full coverage
[0, params->n) for every n >= 1, including the strip-mined AVX2 subtraction; R3 variance annotation;
R4 TLWE operations apply the polynomial operation to all k+1 components; R5 sample/key extraction index
maps for every index; R6 in-place forms read and write the same index only.
R7 tLweMulByXaiMinusOne hands the exponent (or an exact reduction mod 2N) to the polynomial routine for all k+1 components.
"""
from sa import affine, pam, summ, sym
from sa.facts import Program
from sa.sym import I, ZERO

P = lambda p, f: sym.arrow(sym.sym(p), f)


def _f(op, expr):
    return (op, expr)


# name -> (operator, value of one coordinate as a function of (s = the sample's coordinate, p, mu), variance op, variance value)
LWE_OPS = {
    "lweClear": ("=", lambda s, p, mu: ZERO, lambda s, p, mu: ZERO, "=", "zero"),
    "lweCopy": ("=", lambda s, p, mu: s, None, "=", "var"),
    "lweNegate": ("=", lambda s, p, mu: sym.neg(s), None, "=", "var"),
    "lweNoiselessTrivial": ("=", lambda s, p, mu: ZERO, lambda s, p, mu: mu, "=", "zero"),
    "lweAddTo": ("+=", lambda s, p, mu: s, None, "+=", "var"),
    "lweSubTo": ("-=", lambda s, p, mu: s, None, "+=", "var"),
    "lweAddMulTo": ("+=", lambda s, p, mu: sym.mul(p, s), None, "+=", "p2var"),
    "lweSubMulTo": ("-=", lambda s, p, mu: sym.mul(p, s), None, "+=", "p2var"),
}

# TLWE op -> (operator, coordinate value as a function of (s, p)) applied to every coefficient of every component
TLWE_OPS = {
    "tLweClear": ("=", lambda s, p: ZERO, "zero", False),
    "tLweCopy": ("=", lambda s, p: s, "var", False),
    "tLweAddTo": ("+=", lambda s, p: s, "var+", False),
    "tLweSubTo": ("-=", lambda s, p: s, "var+", False),
    "tLweAddMulTo": ("+=", lambda s, p: sym.mul(p, s), "p2var", False),
    "tLweSubMulTo": ("-=", lambda s, p: sym.mul(p, s), "p2var", False),
}


def variance_ok(kind, op, val, sample, p):
    V = lambda n: P(n, "current_variance")
    if kind == "zero":
        return op == "=" and (val == ZERO or val == ("float", 0.0))
    if kind == "var":
        return val == V(sample)
    if kind == "p2var":
        pp = sym.mul(p, p)
        return val in (("fop", "*", ("cast", "double", pp), V(sample)), ("fop", "*", V(sample), ("cast", "double", pp)))
    return False


def _canon_variance(V):
    """`cv = cv + x` (the sum formed from the entry value, in either order, anywhere before the store) is `cv += x`: the
    function has one variance statement, so nothing changes cv in between"""
    if V["op"] == "=" and isinstance(V["val"], tuple) and V["val"][0] == "fop" and V["val"][1] == "+" and len(V["val"]) == 4:
        a_, b_ = V["val"][2], V["val"][3]
        if a_ == V["lv"]:
            return dict(V, op="+=", val=b_)
        if b_ == V["lv"]:
            return dict(V, op="+=", val=a_)
    return V


def _canon_update(op, val):
    """x -= v is x += -v: one form for additive updates"""
    if op == "-=" and isinstance(val, tuple):
        return "+=", sym.neg(val)
    return op, val


def check_lwe_op(chk, v, name, spec):
    op, fa, fb, vop, vkind = spec
    f = v.fn(name)
    ps, _ = summ.pieces(v, f)
    ps = summ.memcpy_as_stores(v, f, ps)        # a block copy of the mask is the element statement it stands for
    res = f.params[0]["n"]
    sample = next((p["n"] for p in f.params[1:] if "LweSample" in p["t"]), None)
    par = next((p["n"] for p in f.params if "LweParams" in p["t"]), None)
    pint = next((sym.sym(p["n"]) for p in f.params if p["t"].replace("const ", "") == "int"), None)
    mu = pint if name == "lweNoiselessTrivial" else None
    stores = [p for p in ps if p["kind"] == "store" and sym.root_of(p["lv"]) == sym.sym(res)]
    bad_shape = [p for p in ps if p["kind"] in ("asm", "while", "unknown")]
    if bad_shape:
        chk.broken("%s: unrecognised shape at line %s" % (name, bad_shape[0]["line"]))
    a_st = [p for p in stores if p["lv"][0] == "idx" and p["lv"][1] == P(res, "a")]
    b_st = [p for p in stores if p["lv"] == P(res, "b")]
    v_st = [p for p in stores if p["lv"] == P(res, "current_variance")]
    others = [p for p in stores if p not in a_st + b_st + v_st]
    where = f.where
    vn = v.name
    # R1 homomorphism + oracle
    k1 = "%s: the statement on a[i] and the statement on b are the same map, '%s'" % (name, op)
    problems = []
    if (not a_st or len(b_st) != 1 or len(v_st) != 1) and summ.opaque_writers(v, ps):
        chk.broken("%s: memory may be written by %s, which the analysis does not see through" % (name, summ.show_opaque(summ.opaque_writers(v, ps))))
    if not a_st or len(b_st) != 1 or others:
        problems.append("expected mask statements and one b statement, found %d/%d (+%d others)" % (len(a_st), len(b_st), len(others)))
    else:
        B = b_st[0]
        sb = P(sample, "b") if sample else None
        want_b = (fb or fa)(sb, pint, mu)
        if _canon_update(B["op"], B["val"]) != _canon_update(op, want_b):
            problems.append("b: '%s %s %s', expected '%s %s'" % (sym.show(B["lv"]), B["op"], sym.show(B["val"]), op, sym.show(want_b)))
        terms = []
        asm_st = [A for A in a_st if A["loops"] and A["loops"][-1].get("asm")]
        if asm_st and len(a_st) != 1:
            chk.broken("%s: assembly kernel mixed with other mask statements" % name)
        reads_bad = []
        for A in a_st:
            lp = A["loops"][-1] if A["loops"] else None
            e = A["lv"][2]
            if A["guards"] and lp is not None:
                # a guard that holds for every dimension n >= 1 (if (n > 0) ...) does not restrict the statement
                from sa import affine
                facts_n = [sym.sub(P(par, "n"), I(1)), sym.sub(lp["hi"], I(1)) if lp["hi"] != P(par, "n") else sym.sub(P(par, "n"), I(1))]
                if all(affine.infeasible(facts_n + affine.guard_constraints([sym.unop("!", g_)])) and affine.guard_constraints([sym.unop("!", g_)])
                       for g_ in A["guards"]):
                    A = dict(A, guards=[])
            if lp is None or len(A["loops"]) != 1 or A["guards"]:
                chk.broken("%s: mask statement at line %s is not in a single unguarded loop" % (name, A["line"]))
            sa = sym.idx(P(sample, "a"), e) if sample else None
            want_a = fa(sa, pint, mu)
            if _canon_update(A["op"], A["val"]) != _canon_update(op, want_a):
                problems.append("mask: '%s %s %s', the operation %s denotes '%s %s'" % (
                    sym.show(A["lv"]), A["op"], sym.show(A["val"]), name, op, sym.show(want_a)))
            if fb is None and sample:
                mapped = sym.subst(A["val"], {sa: sb})
                if _canon_update(A["op"], mapped) != _canon_update(B["op"], B["val"]):
                    problems.append("b statement is not the mask statement under a[i] -> b")
            terms.append((lp, e, 1))
            reads = [t for t in _elem_reads(A["val"]) if t[1] in (P(res, "a"), P(sample, "a") if sample else None)]
            reads_bad += [t for t in reads if t[2] != e]
        # R2 coverage
        k2 = "%s covers every mask coefficient for every n >= 1" % name
        A0 = a_st[0]
        if asm_st:
            lp = asm_st[0]["loops"][-1]
            full = lp["lo"] == ZERO and lp["cmp"] == "<" and lp["hi"] == P(par, "n") and lp["step"] == I(1) and not A0["guards"]
            det = "range [%s %s %s)" % (sym.show(lp["lo"]), lp["cmp"], sym.show(lp["hi"]))
            cl = A0["asm"]
            det += "; strip-mined asm: %d-lane main loop (%s), tails %s" % (
                cl["facts"].get("main_width"), "guarded" if cl["facts"].get("main_loop_guarded") else "UNGUARDED", cl["facts"].get("tails"))
            if not cl["ok"]:
                full = False
                det += "; " + "; ".join(cl["problems"])
        else:
            from sa import coverage
            status, det = coverage.cover_1d(terms, P(par, "n"))
            if status == "unknown":
                chk.broken("%s: %s" % (name, det))
            full = status == "proved"
        chk.require(full, "R2", k2, where="%s:%s" % (f.file, A0["line"]), ok=det, bad=det, variant=vn)
        # R6 same index
        chk.require(not reads_bad, "R6", "%s reads and writes the same index only (result may alias the operand)" % name,
                    where=where, ok="%d mask statement(s), every element read at the index written" % len(a_st),
                    bad="cross-index read %s" % [sym.show(t) for t in reads_bad], variant=vn)
    chk.require(not problems, "R1", k1, where=where, ok="mask and b statements agree with the table", bad="; ".join(problems)[:500], variant=vn)
    # R3 variance
    k3 = "%s: variance annotation" % name
    if len(v_st) != 1:
        chk.refuted("R3", k3, where=where, detail="%d variance statements" % len(v_st), variant=vn)
    else:
        V = _canon_variance(v_st[0])
        okv = V["op"] == vop and variance_ok(vkind, V["op"], V["val"], sample, pint)
        chk.require(okv, "R3", k3, where="%s:%s" % (f.file, V["line"]), ok="%s %s" % (V["op"], sym.show(V["val"])),
                    bad="found '%s %s', expected %s %s" % (V["op"], sym.show(V["val"]), vop, vkind), variant=vn)
    chk.vcount(vn, "R1.lwe_operations")


def _elem_reads(t, acc=None):
    acc = [] if acc is None else acc
    if not isinstance(t, tuple) or not t:
        return acc
    if not isinstance(t[0], str):
        for y in t:
            _elem_reads(y, acc)
        return acc
    if t[0] == "fld" and t[1][0] == "idx" and t[1][2] == ZERO:
        return _elem_reads(t[1][1], acc)
    if t[0] == "idx":
        acc.append(t)
    if t[0] == "poly":
        for m, _ in t[1]:
            for y in m:
                _elem_reads(y, acc)
        return acc
    for y in t[1:]:
        if isinstance(y, tuple):
            _elem_reads(y, acc)
    return acc


def check_tlwe_op(chk, v, name, spec):
    op, fn, vkind, _ = spec
    f = v.fn(name)
    ps, _ = summ.pieces(v, f)
    res = f.params[0]["n"]
    sample = next((p["n"] for p in f.params[1:] if "TLweSample" in p["t"]), None)
    par = next((p["n"] for p in f.params if "TLweParams" in p["t"]), None)
    pint = next((sym.sym(p["n"]) for p in f.params if p["t"].replace("const ", "") == "int"), None)
    vn = v.name
    stores = [p for p in ps if p["kind"] == "store" and sym.root_of(p["lv"]) == sym.sym(res)]
    coef = [p for p in stores if p["lv"][0] == "idx" and p["lv"][1][0] == "fld" and p["lv"][1][2] == "coefsT"]
    var = [p for p in stores if p["lv"] == P(res, "current_variance")]
    key = "%s applies '%s' to every coefficient of all k+1 components" % (name, op)
    problems = []
    if pint is not None and any(sym.contains(g_, pint) for p_ in coef for g_ in p_["guards"]):
        # alternatives selected by the value of the integer multiplier (shortcuts for 0 and +-1): the statements of different
        # alternatives are not one update; deciding each alternative for its own multipliers is not implemented
        chk.broken("%s: the statements are selected by tests on the multiplier %s (special cases for some values): not decided" % (name, sym.show(pint)))
    K = P(par, "k")
    # every statement applies the operator to the coefficient it writes, from the same (component, position) of the sample
    # (symbolic, per statement); together the statements visit every (component <= k, position < N) exactly once -- the loop
    # nests (blocked, unrolled, peeled, any direction) are enumerated for k in 1..3 and N in 1..17
    from sa import concrete
    import itertools
    has_b = False
    parsed = []
    for p in coef:
        polyref = p["lv"][1][1]          # the polynomial object lvalue: result->a[i]  or *result->b
        je = p["lv"][2]
        if polyref[0] == "idx" and polyref[1] == P(res, "a"):
            ci = polyref[2]
        elif polyref == sym.idx(P(res, "b"), ZERO):
            ci = K
            has_b = True
        else:
            problems.append("statement at line %s does not address a component of the result" % p["line"])
            continue
        if sample:
            spoly = sym.subst(polyref, {sym.sym(res): sym.sym(sample)})
            s_el = sym.idx(sym.fld(spoly, "coefsT"), je)
        else:
            s_el = None
        want = fn(s_el, pint)
        if _canon_update(p["op"], p["val"]) != _canon_update(op, want):
            problems.append("line %s: '%s %s %s', expected '%s %s'" % (p["line"], sym.show(p["lv"])[:40], p["op"], sym.show(p["val"])[:40], op, sym.show(want)[:40]))
            continue
        parsed.append((p, ci, je))
    Nt = P(par, "N")
    if not problems:
        for kv, nv in itertools.product((1, 2, 3), range(1, 18)):
            env0 = {K: kv, Nt: nv}
            for q_ in f.params:
                if "TLweSample" in q_["t"] or "TorusPolynomial" in q_["t"]:
                    env0[P(q_["n"], "k")] = kv
            hits = {}
            try:
                for p, ci, je in parsed:
                    # a polynomial's own N field is the ring degree N of the parameters
                    nrm = lambda t_: sym.rewrite(t_, {st_: Nt for st_ in sym.subterms(t_) if st_[0] == "fld" and st_[2] == "N"}) if isinstance(t_, tuple) else t_
                    loops_ = [dict(l_, lo=nrm(l_["lo"]), hi=nrm(l_["hi"])) if "var" in l_ else l_ for l_ in p["loops"]]
                    for e2 in concrete.iterate(loops_, env0):
                        if any(not concrete.eval_term(g_, e2) for g_ in p["guards"] if concrete.eval_term(g_, e2) is not None):
                            continue
                        cv, jv = concrete.eval_term(ci, e2), concrete.eval_term(je, e2)
                        if cv is None or jv is None:
                            raise concrete.NotEvaluable("index %s / %s" % (sym.show(ci), sym.show(je)))
                        hits[(cv, jv)] = hits.get((cv, jv), 0) + 1
            except concrete.NotEvaluable as e:
                # bounds read from the polynomials themselves (result->a[i].N): name them N
                chk.broken("%s: %s" % (name, e))
            wantset = {(c_, j_) for c_ in range(kv + 1) for j_ in range(nv)}
            if set(hits) != wantset or any(c_ != 1 for c_ in hits.values()):
                opq = summ.opaque_writers(v, ps)
                if opq:
                    chk.broken("%s: memory may be written by %s, which the analysis does not see through" % (name, summ.show_opaque(opq)))
                miss = sorted(wantset - set(hits))
                extra = sorted(set(hits) - wantset)
                dup = sorted(h_ for h_, c_ in hits.items() if c_ > 1)
                problems.append("with k = %d, N = %d: %s" % (kv, nv, "; ".join(
                    (["coefficient %d of component %d is never written" % (miss[0][1], miss[0][0])] if miss else []) +
                    (["coefficient %d of component %d is outside the sample" % (extra[0][1], extra[0][0])] if extra else []) +
                    (["coefficient %d of component %d is written %d times" % (dup[0][1], dup[0][0], hits[dup[0]])] if dup else []))))
                break
    chk.require(not problems, "R4", key, where=f.where, ok="%d statement(s): %s" % (
        len(coef), "a[0..k] " if not has_b else "a[0..k) and b"), bad="; ".join(problems)[:500], variant=vn)
    if len(var) == 1:
        V = _canon_variance(var[0])
        Vs = P(sample, "current_variance") if sample else None
        okv = {"zero": V["op"] == "=" and V["val"] in (ZERO, ("float", 0.0)),
               "var": V["op"] == "=" and V["val"] == Vs,
               "var+": V["op"] == "+=" and V["val"] == Vs,
               "p2var": V["op"] == "+=" and pint is not None and V["val"] == ("fop", "*", ("cast", "double", sym.mul(pint, pint)), Vs)}[vkind]
        chk.require(okv, "R3", "%s: variance annotation" % name, where="%s:%s" % (f.file, V["line"]),
                    ok="%s %s" % (V["op"], sym.show(V["val"])), bad="found '%s %s' (%s expected)" % (V["op"], sym.show(V["val"]), vkind), variant=vn)
    else:
        chk.refuted("R3", "%s: variance annotation" % name, where=f.where, detail="%d variance statements" % len(var), variant=vn)
    chk.vcount(vn, "R4.tlwe_operations")


def check_trivial(chk, v, rule="R8"):
    """tLweNoiselessTrivial(result, mu) / tLweNoiselessTrivialT(result, mu): afterwards every coefficient of the k mask components is
    0 and b is mu (the polynomial, resp. the constant polynomial mu) -- so the phase is exactly mu -- whatever the sample held
    before.  The functions are interpreted with polynomial abstract values (sa/concrete.PolyState) for k in 1..3 and N in
    1..10, 13, 16, 17 with the previous contents of the sample and the coefficients of mu as indeterminates; the library's
    clear / copy primitives are inlined (memset / memcpy / std::copy as the element loops they stand for, a byte count that is
    not a multiple of the element size clears only the whole elements it covers).  An unknown call that receives part of the sample
    makes the rule undecided."""
    from sa import concrete, symexec
    vn = v.name
    for name in ("tLweNoiselessTrivial", "tLweNoiselessTrivialT"):
        f = v.fn(name, required=False)
        if f is None:
            continue
        res, mu, par = [p["n"] for p in f.params]
        is_poly = "TorusPolynomial" in f.params[1]["t"]
        K, Nn = P(par, "k"), P(par, "N")
        effs = symexec.run_function(v, f, hooks=summ.InlineLib())[0]
        # a polynomial's own N field is the ring degree N of the parameters (established by the constructors, C16)
        effs = concrete.map_terms(effs, lambda t_: sym.rewrite(t_, {st_: Nn for st_ in sym.subterms(t_) if st_[0] == "fld" and st_[2] == "N" and st_ != Nn}))
        key = "%s leaves the sample (0, ..., 0, mu) whatever it held before" % name
        wit = None
        ncase = 0
        at = lambda t: ("init", concrete.lvalue_location(t, {}))
        for kv in (1, 2, 3):
            def alias(loc, kv=kv):
                r_, path = loc
                if len(path) >= 3 and path[0] == 0 and path[1] == "b" and path[2] == 0:
                    return r_, (0, "a", kv) + tuple(path[3:])
                return loc
            for nv in (1, 2, 3, 4, 5, 6, 7, 8, 9, 10, 13, 16, 17):
                if wit:
                    break
                st = concrete.PolyState(alias=alias)

                def h(kind, xx, env):
                    if kind in ("local", "store"):
                        st.assign(xx, env)
                    elif kind == "cond":
                        c_ = xx["cond"]
                        neg = False
                        while c_[0] == "un" and c_[1] == "!":
                            c_, neg = c_[2], not neg
                        if c_[0] == "op" and c_[1] in ("!=", "==") and sym.root_of(c_[2]) is not None and sym.root_of(c_[3]) is not None \
                                and sym.root_of(c_[2]) != sym.root_of(c_[3]) and sym.root_of(c_[2])[0] == "sym" and sym.root_of(c_[3])[0] == "sym":
                            r_ = c_[1] == "!="            # the output sample and the message are different objects (the API's contract)
                            return (not r_) if neg else r_
                        return None
                    elif kind in ("call", "asm", "unknown"):
                        if kind == "call" and xx.get("noreturn"):
                            return None
                        raise concrete.NotEvaluable("%s at line %s" % (xx.get("name") or kind, xx.get("l")))
                    return None
                env = {Nn: nv, K: kv}
                for q_ in range(kv + 1):
                    env[sym.fld(sym.idx(P(res, "a"), I(q_)), "N")] = nv
                env[sym.arrow(P(res, "b"), "N")] = nv
                env[P(res, "k")] = kv
                if is_poly:
                    env[P(mu, "N")] = nv
                try:
                    concrete.interpret(effs, env, h, on_segment=st.segment)
                except concrete.NotEvaluable as e:
                    chk.broken("%s: by interpretation with k = %d, N = %d: %s" % (name, kv, nv, e))
                ncase += 1
                for c_ in range(kv + 1):
                    for j_ in range(nv):
                        got = st.read(concrete.lvalue_location(sym.idx(sym.fld(sym.idx(P(res, "a"), I(c_)), "coefsT"), I(j_)), {}))
                        if c_ < kv:
                            want = {}
                        elif is_poly:
                            want = {(at(sym.idx(P(mu, "coefsT"), I(j_))),): 1}
                        else:
                            want = {(sym.sym(mu),): 1} if j_ == 0 else {}
                        # (the constant read through its own address, &mu, is the constant)
                        is_mu = lambda a_: a_ == sym.sym(mu) or (isinstance(a_, tuple) and len(a_) == 2 and a_[0] == "init" and a_[1][1] in ((), (0,)) and
                                                              isinstance(a_[1][0], tuple) and a_[1][0][0] in ("sym", "var") and a_[1][0][1] == mu)
                        norm = lambda d_: {tuple(sym.sym(mu) if is_mu(a_) else a_ for a_ in m_): c2 % (1 << 32) for m_, c2 in d_.items() if c2 % (1 << 32)}
                        if got is None or norm(got) != norm(want):
                            what = "not a number (only part of it is cleared)" if got is None else concrete.show_poly(got, 3) or "0"
                            wit = "with k = %d, N = %d: coefficient %d of %s is %s afterwards, expected %s" % (
                                kv, nv, j_, ("mask component %d" % c_) if c_ < kv else "b", what,
                                "0" if not want else concrete.show_poly(want, 3))
                            break
                    if wit:
                        break
        chk.require(wit is None, rule, key, where=f.where, ok="interpreted for k in 1..3 and 13 ring degrees: every coefficient of the "
                    "k+1 components is determined (mask 0, b = mu)", bad=wit or "", variant=vn)
        chk.vcount(vn, "%s.trivial_constructors" % rule)


def extraction_by_interpretation(chk, v, f, why):
    """-> None or a witness (k, N, index, position)"""
    from sa import concrete, symexec
    res, x, index, params, rparams = [p["n"] for p in f.params]
    N, K, IDX = P(rparams, "N"), P(rparams, "k"), sym.sym(index)
    effs = symexec.run_function(v, f, hooks=summ.LOCAL_HELPERS)[0]
    at = lambda t: ("init", concrete.lvalue_location(t, {}))
    for kv in (1, 2, 3):
        for nv in (1, 2, 3, 4, 5, 6, 8, 9, 10, 13):          # beyond every plausible unrolling factor plus its remainders
            for ix in range(nv):
                st = concrete.PolyState()

                def h(kind, xx, env):
                    if kind in ("local", "store"):
                        st.assign(xx, env)
                    elif kind in ("call", "asm", "unknown", "alloc", "delete"):
                        if kind == "call" and xx.get("noreturn"):
                            return None
                        raise concrete.NotEvaluable("%s at line %s" % (kind, xx.get("l")))
                    return None
                try:
                    concrete.interpret(effs, {N: nv, K: kv, IDX: ix, P(params, "n"): kv * nv}, h, on_segment=st.segment)
                except concrete.NotEvaluable as e:
                    chk.broken("tLweExtractLweSampleIndex: %s; by interpretation: %s" % (why, e))
                for i_ in range(kv):
                    for j_ in range(nv):
                        got = st.read(concrete.lvalue_location(sym.idx(P(res, "a"), I(i_ * nv + j_)), {}))
                        src = at(sym.idx(sym.fld(sym.idx(P(x, "a"), I(i_)), "coefsT"), I((ix - j_) % nv)))
                        want = {(src,): 1 if j_ <= ix else -1}
                        if got is None or {m: c % (1 << 32) for m, c in got.items() if c % (1 << 32)} != {m: c % (1 << 32) for m, c in want.items()}:
                            return "with k = %d, N = %d, index = %d: mask coefficient %d (component %d, position %d) is %s, expected %s%s" % (
                                kv, nv, ix, i_ * nv + j_, i_, j_, "not a number" if got is None else concrete.show_poly(got, 3),
                                "+" if j_ <= ix else "-", concrete.show_atom(src))
                gb = st.read(concrete.lvalue_location(P(res, "b"), {}))
                if gb != {(at(sym.idx(sym.arrow(P(x, "b"), "coefsT"), I(ix))),): 1}:
                    return "with k = %d, N = %d, index = %d: b is %s" % (kv, nv, ix, "not a number" if gb is None else concrete.show_poly(gb, 3))
    return None


def check_extraction(chk, v, rule="R5"):
    vn = v.name
    f = v.fn("tLweExtractLweSampleIndex")
    ps, _ = summ.pieces(v, f)
    res, x, index, params, rparams = [p["n"] for p in f.params]
    N, K, IDX = P(rparams, "N"), P(rparams, "k"), sym.sym(index)
    stores = [p for p in ps if p["kind"] == "store" and sym.root_of(p["lv"]) == sym.sym(res)]
    mask = [p for p in stores if p["lv"][0] == "idx" and p["lv"][1] == P(res, "a")]
    bst = [p for p in stores if p["lv"] == P(res, "b")]
    key = "tLweExtractLweSampleIndex: coefficient i*N+j of the mask is (+/-)a_i[(index - j) mod N] with sign (-1)^wraps, for every index"
    problems = []
    facts = [IDX, sym.sub(sym.sub(N, I(1)), IDX), sym.sub(N, I(1))]       # 0 <= index <= N-1
    infos = []
    pieces2 = []
    shape = []
    for p in mask:
        if len(p["loops"]) != 2:
            shape.append("mask statement at line %s is not in an (i, j) nest" % p["line"])
            continue
        il, jl = p["loops"]
        i, j = il["var"], jl["var"]
        within = sym.sub(p["lv"][2], sym.mul(i, N))       # position inside component i's block of N coefficients
        if sym.contains(within, i) or p["op"] != "=" or sym.contains(p["val"], P(res, "a")):
            shape.append("statement at line %s on index %s is not `a[i*N + (a term of the inner loop)] = source`" % (p["line"], sym.show(p["lv"][2])))
            continue
        if not summ.visits(il, ZERO, K):
            problems.append("component loop covers [%s %s %s), expected [0,k)" % (sym.show(il["lo"]), il["cmp"], sym.show(il["hi"])))
        src_arr = sym.fld(sym.idx(P(x, "a"), i), "coefsT")
        q = dict(p)
        q["lv"] = sym.idx(("sym", "$out"), within)
        q["val"] = sym.subst(p["val"], {src_arr: ("sym", "$in")})
        q["loops"] = [jl]
        pieces2.append(q)
    okmsg = ""
    opq_ = summ.opaque_writers(v, ps)
    if opq_:
        # part of the mask may be written by something the statement view does not show (an algorithm over iterators, ...):
        # the interpretation decides, or says it cannot
        shape.append("memory may be written by %s" % summ.show_opaque(opq_))
    if not problems and not shape:
        ok, detail, infos = pam.check_map(pieces2, ("sym", "$out"), ("sym", "$in"), N, -1, IDX, facts, want_op="=")
        if ok is None:
            shape.append(detail)
        elif not ok:
            problems.append(detail)
    if not shape and (len(bst) != 1 or bst[0]["op"] != "=" or bst[0]["val"] != sym.idx(sym.arrow(P(x, "b"), "coefsT"), IDX)):
        problems.append("b is not x->b[index]: %s" % [summ.show_piece(p) for p in bst])
    if shape:
        # the mask is not written by element statements in an (i, j) nest (a reversed copy, a separate negation pass, ...): the
        # function is interpreted for k in 1..3, N up to 13 and every index, with the sample's coefficients as indeterminates
        wit = extraction_by_interpretation(chk, v, f, "; ".join(shape))
        if wit:
            problems.append(wit)
        okmsg = "interpreted for k in 1..3, N in {1..6, 8, 9, 10, 13}, every index: a[i*N+j] = (+/-) a_i[(index-j) mod N], b = b[index]"
    chk.require(not problems, rule, key, where=f.where, ok=okmsg or "; ".join("%s<-%s%s" % (i["range"], "-" if i["sign"] < 0 else "+", i["src"]) for i in infos)
                + "; b = b[index]", bad="; ".join(problems)[:500], variant=vn, data={"pieces": infos})
    # the index-free wrapper uses index 0
    g = v.fn("tLweExtractLweSample")
    gps, _ = summ.pieces(v, g, hooks=summ.InlineLib(only=lambda c: False))
    calls = [p for p in gps if p["kind"] == "call" and p["name"] == "tLweExtractLweSampleIndex"]
    ok = len(calls) == 1 and calls[0]["args"][2] == ZERO
    chk.require(ok, rule, "tLweExtractLweSample extracts coefficient 0", where=g.where, ok="index 0", bad="calls %s" % [summ.show_piece(c) for c in calls],
                variant=vn, nontrivial=False)
    # key extraction: key[i*N+j] = key_i[j]
    check_extract_key(chk, v, rule)


def check_extract_key(chk, v, rule):
    """tLweExtractKey: the LWE key is the concatenation of the k key polynomials, key[i*N+j] = key_i[j].
    Statements (element stores and memcpy calls, the latter as u -> dst[u] = src[u], u < bytes/4) are enumerated on a small
    grid of (k, N) from their loop descriptors: every destination index in [0, k*N) must be written exactly once, from
    coefficient j < N of polynomial i (each polynomial is its own array of N coefficients)."""
    from sa.pipeline import AnalysisBroken
    from sa.secretflow import eval_term
    import itertools
    vn = v.name
    h = v.fn("tLweExtractKey")
    hps, _ = summ.pieces(v, h)
    r, kk = [p["n"] for p in h.params]
    Nk, Kk = sym.arrow(P(kk, "params"), "N"), sym.arrow(P(kk, "params"), "k")
    dstarr = P(r, "key")
    stmts = []
    strip_ = lambda t: strip_(t[2]) if t and t[0] == "cast" else t
    for p in hps:
        if p["kind"] == "store" and sym.root_of(p["lv"]) == sym.sym(r) and p["lv"][0] == "idx":
            if p["op"] != "=":
                chk.broken("tLweExtractKey: operator %s on the key" % p["op"])
            stmts.append((p["loops"], p["guards"], p["lv"], p["val"], p["line"]))
        elif p["kind"] == "call" and p["name"] in ("memcpy", "std::memcpy", "memmove") and len(p["args"]) == 3 and \
                sym.root_of(strip_(p["args"][0])) == sym.sym(r):
            u = sym.sym("u@%s" % p["line"])
            nbytes = strip_(p["args"][2])
            cnt = sym.binop("/", nbytes, I(4)) if sym.const_value(nbytes) is None else I(sym.const_value(nbytes) // 4)
            lp = {"var": u, "lo": ZERO, "cmp": "<", "hi": cnt, "step": I(1), "l": p["line"]}
            stmts.append((p["loops"] + [lp], p["guards"], sym.idx(strip_(p["args"][0]), u), sym.idx(strip_(p["args"][1]), u), p["line"]))
        elif p["kind"] in ("asm", "while", "unknown"):
            chk.broken("tLweExtractKey: construct at line %s not recognised" % p["line"])
    problems = []
    if not stmts:
        problems.append("nothing is written to the extracted key")
    for kv, nv in itertools.product((1, 2, 3), (1, 2, 4)):
        if problems:
            break
        env0 = {Kk: kv, Nk: nv}
        seen = {}

        def go(loops, k_, env, rec):
            from sa import concrete
            try:
                for e2 in concrete.iterate(loops, env):
                    rec(e2)
            except concrete.NotEvaluable as e:
                raise AnalysisBroken("tLweExtractKey: %s" % e)
        for loops, guards, lv, val, line in stmts:
            def rec(env, lv=lv, val=val, line=line, guards=guards):
                for g_ in guards:
                    gv = eval_term(g_, env)
                    if gv is None:
                        raise AnalysisBroken("tLweExtractKey: guard not evaluable")
                    if not gv:
                        return
                if lv[1] != dstarr:
                    raise AnalysisBroken("tLweExtractKey: destination %s" % sym.show(lv))
                d = eval_term(lv[2], env)
                sv = strip_(val)
                if not (sv[0] == "idx" and sv[1][0] == "fld" and sv[1][2] == "coefs" and sv[1][1][0] == "idx" and sv[1][1][1] == P(kk, "key")):
                    raise AnalysisBroken("tLweExtractKey: source %s is not key->key[i].coefs[j]" % sym.show(val))
                si, sj = eval_term(sv[1][1][2], env), eval_term(sv[2], env)
                if d is None or si is None or sj is None:
                    raise AnalysisBroken("tLweExtractKey: index not evaluable at line %s" % line)
                seen.setdefault(d, []).append((si, sj, line))
            go(loops, 0, env0, rec)
        for d in range(kv * nv):
            got = seen.get(d, [])
            want = (d // nv, d % nv)
            if len(got) != 1:
                problems.append("with k=%d, N=%d: key[%d] is written %d times" % (kv, nv, d, len(got)))
                break
            si, sj, line = got[0]
            if sj >= nv or si >= kv:
                problems.append("with k=%d, N=%d: key[%d] is read from coefficient %d of key polynomial %d (line %s), but each key polynomial is a "
                                "separate array of N = %d coefficients: the read runs past its end" % (kv, nv, d, sj, si, line, nv))
                break
            if (si, sj) != want:
                problems.append("with k=%d, N=%d: key[%d] <- key_%d[%d], the extracted-sample layout needs key_%d[%d]" % (kv, nv, d, si, sj, want[0], want[1]))
                break
        extra = sorted(x for x in seen if x < 0 or x >= kv * nv)
        if extra and not problems:
            problems.append("with k=%d, N=%d: key[%d] is written, the extracted key has k*N = %d coefficients" % (kv, nv, extra[0], kv * nv))
    chk.require(not problems, rule, "tLweExtractKey concatenates the key polynomials in the same i*N+j order", where=h.where,
                ok="key[i*N+j] = key_i[j] over [0,k) x [0,N) (%d statement(s); index sets enumerated for k in 1..3, N in {1,2,4})" % len(stmts),
                bad="; ".join(problems), variant=vn)


def run(chk):
    prog = Program()
    chk.explanation = (
        "Each LWE/TLWE linear operation is folded to its loop pieces (callees inlined; the AVX2 subtraction kernel is "
        "classified as a strip-mined element-wise loop: guarded main loop of 8 lanes, tails 4/2/1, same lane "
        "operation in every block) and compared with an operator table: the statement on a[i] equals the statement on b "
        "under a[i] -> b (phase linearity mod 2^32), ranges are exactly [0, n), variance annotations follow "
        "var1 + p^2 var2, TLWE operations reach all k+1 components, extraction is the negacyclic reversal map.")
    chk.trusted = ["clang 14 front end", "summariser", "AT&T asm parser and strip-mine classifier", "affine prover"]
    for v in prog.variants():
        chk.analysed["variants"] = chk.analysed.get("variants", 0) + 1
        for name, spec in LWE_OPS.items():
            check_lwe_op(chk, v, name, spec)
        check_trivial(chk, v)
        for name, spec in TLWE_OPS.items():
            check_tlwe_op(chk, v, name, spec)
        check_extraction(chk, v)
        check_tlwe_monomial(chk, v)
        # R7 rests on the polynomial routine it delegates to: (X^a - 1) * p for every a in [0, 2N), a = 0 included (C11.R1 re-evaluated)
        from rules import c11 as _c11, c04 as _c04
        _c11.check_monomial(_c04._Sub(chk, "R7"), v, "torusPolynomialMulByXaiMinusOne", "coefsT", True)


def tlwe_monomial_by_interpretation(chk, v, f):
    """tLweMulByXaiMinusOne interpreted with the coefficients of bk as indeterminates (sa/concrete.PolyState; b is component k of the
    mask array, established by the TLweSample constructor, C03.R3) for k in 1..3, N in 1..4, ai in [0, 2N); the library's polynomial
    routine acts by its specification (C11.R1).  -> None or a witness"""
    from sa import concrete, symexec
    res, ai, bk, par = [p["n"] for p in f.params]
    K, Nn, A = P(par, "k"), P(par, "N"), sym.sym(ai)
    effs = symexec.run_function(v, f, hooks=summ.LOCAL_HELPERS)[0]
    for kv in (1, 2, 3):
        def alias(loc, kv=kv):
            r_, path = loc
            if len(path) >= 3 and path[0] == 0 and path[1] == "b" and path[2] == 0:
                return r_, (0, "a", kv) + tuple(path[3:])
            return loc
        for nv in (1, 2, 3, 4, 5, 6, 8, 9):
            for av in range(2 * nv):
                st = concrete.PolyState(alias=alias)
                coef = lambda ptr, j_, env: (lambda rp: (rp[0], rp[1] + ("coefsT", j_)))(concrete.location(ptr, env))

                def h(kind, x, env):
                    if kind in ("local", "store"):
                        st.assign(x, env)
                    elif kind == "call" and x["name"] in ("torusPolynomialMulByXaiMinusOne", "torusPolynomialMulByXai"):
                        a_ = x["args"]
                        e_ = concrete.eval_term(a_[1], env)
                        if e_ is None or not 0 <= e_ < 2 * nv:
                            raise concrete.NotEvaluable("exponent %s = %s outside [0, 2N)" % (sym.show(a_[1])[:40], e_))
                        src = [st.read(coef(a_[2], j_, env)) for j_ in range(nv)]
                        if any(s_ is None for s_ in src):
                            raise concrete.NotEvaluable("source polynomial is not a number")
                        for j_ in range(nv):
                            q = (j_ - e_) % (2 * nv)
                            val = concrete.lin_add({}, src[q % nv], -1 if q >= nv else 1)
                            if x["name"].endswith("MinusOne"):
                                val = concrete.lin_add(val, src[j_], -1)
                            st.write(coef(a_[0], j_, env), val)
                    elif kind == "call" and x.get("noreturn"):
                        pass
                    elif kind in ("call", "asm", "unknown", "alloc", "delete"):
                        raise concrete.NotEvaluable("%s %s at line %s" % (kind, x.get("name", ""), x.get("l")))
                    return None
                try:
                    concrete.interpret(effs, {K: kv, Nn: nv, A: av}, h, on_segment=st.segment)
                except concrete.NotEvaluable as e:
                    chk.broken("tLweMulByXaiMinusOne: not one library call per component; by interpretation: %s" % e)
                for i_ in range(kv + 1):
                    for j_ in range(nv):
                        got = st.read(concrete.lvalue_location(sym.idx(sym.fld(sym.idx(P(res, "a"), I(i_)), "coefsT"), I(j_)), {}))
                        q = (j_ - av) % (2 * nv)
                        at = lambda jj: ("init", concrete.lvalue_location(sym.idx(sym.fld(sym.idx(P(bk, "a"), I(i_)), "coefsT"), I(jj)), {}))
                        want = concrete.lin_add({(at(q % nv),): -1 if q >= nv else 1}, {(at(j_),): 1}, -1)
                        norm = lambda d: {m: c % (1 << 32) for m, c in d.items() if c % (1 << 32)}
                        if got is None or norm(got) != norm(want):
                            return "with k = %d, N = %d, ai = %d: coefficient %d of component %d is %s, (X^ai - 1)*bk has %s there" % (
                                kv, nv, av, j_, i_, "not a number" if got is None else concrete.show_poly(got, 3), concrete.show_poly(want, 3))
    return None


def check_tlwe_monomial(chk, v):
    """R7: tLweMulByXaiMinusOne applies (X^ai - 1) to every one of the k+1 components: the polynomial routine (whose map
    C11.R1 decides for 0 <= a < 2N) is called on (&result->a[i], e, &bk->a[i]) for i in [0, k], where the exponent e is ai
    itself or an exact reduction of ai modulo 2N.  `ai & (2N-1)` is such a reduction only when N is a power of two, which
    the property does not grant (every dimension N)."""
    vn = v.name
    f = v.fn("tLweMulByXaiMinusOne", required=False)
    if f is None:
        chk.broken("tLweMulByXaiMinusOne not found")
    ps, _ = summ.pieces(v, f, hooks=summ.InlineLib(only=lambda fn: False))
    res, ai, bk, par = [p["n"] for p in f.params]
    K, Nn = P(par, "k"), P(par, "N")
    calls = [p for p in ps if p["kind"] == "call" and p["name"] == "torusPolynomialMulByXaiMinusOne"]
    other = [p for p in ps if p["kind"] == "store" and sym.root_of(p["lv"]) == sym.sym(res) and not p.get("byref")]
    key = "tLweMulByXaiMinusOne multiplies each of the k+1 components by X^ai - 1 for every ring degree"
    problems = []
    canonical = len(calls) == 1 and not other and len(calls[0]["loops"]) == 1 and not calls[0]["guards"]
    if canonical:
        lp_ = calls[0]["loops"][0]
        hi_ = lp_["hi"] if lp_["cmp"] == "<" else sym.add(lp_["hi"], I(1)) if lp_["cmp"] == "<=" else None
        a_ = calls[0]["args"]
        canonical = (lp_["lo"] == ZERO and hi_ == sym.add(K, I(1)) and lp_.get("step", I(1)) == I(1)
                     and a_[0] == sym.addr(sym.idx(P(res, "a"), lp_["var"])) and a_[2] == sym.addr(sym.idx(P(bk, "a"), lp_["var"])))
    if not canonical:
        # not one library call per component (the rotation written out, a peeled body, helpers): by interpretation
        wit = tlwe_monomial_by_interpretation(chk, v, f)
        chk.require(wit is None, "R7", key, where=f.where, ok="interpreted for k in 1..3, N in {1..6, 8, 9} and every ai in [0, 2N): component i of the result is "
                    "(X^ai - 1) * component i of bk, for all k+1 components", bad=wit or "", variant=vn)
        chk.vcount(vn, "R7.tlwe_monomial_functions")
        return
    c = calls[0]
    lp = c["loops"][0]
    i = lp["var"]
    hi = lp["hi"] if lp["cmp"] == "<" else sym.add(lp["hi"], I(1)) if lp["cmp"] == "<=" else None
    if lp["lo"] != ZERO or hi != sym.add(K, I(1)):
        problems.append("components [%s, %s) are processed, a TLWE sample has k+1" % (sym.show(lp["lo"]), sym.show(hi) if hi is not None else "?"))
    a = c["args"]
    if a[0] != sym.addr(sym.idx(P(res, "a"), i)) or a[2] != sym.addr(sym.idx(P(bk, "a"), i)):
        problems.append("called on (%s, ., %s), expected (&result->a[i], ., &bk->a[i])" % (sym.show(a[0])[:40], sym.show(a[2])[:40]))
    e = a[1]
    while e[0] == "cast":
        e = e[2]
    A = sym.sym(ai)
    twoN = sym.mul(I(2), Nn)
    if e == A:
        why = None
    elif e[0] == "op" and e[1] == "%" and e[2] == A and e[3] == twoN:
        why = None              # exact reduction for ai >= 0 (the documented domain of the rotation amounts)
    elif e[0] == "op" and e[1] == "&" and A in (e[2], e[3]):
        m = e[3] if e[2] == A else e[2]
        if m == sym.sub(twoN, I(1)):
            why = ("the exponent is reduced with ai & (2N-1), which is ai mod 2N only when N is a power of two: for any other ring degree "
                   "(e.g. N = 3, ai = 2: 2 & 5 = 0, but 2 mod 6 = 2) exponents are replaced by different ones")
        else:
            why = "the exponent passed on is %s" % sym.show(e)
    else:
        chk.broken("tLweMulByXaiMinusOne: exponent expression %s not recognised" % sym.show(e))
    if why:
        problems.append(why)
    chk.require(not problems, "R7", key, where=f.where, ok="torusPolynomialMulByXaiMinusOne(&result->a[i], %s, &bk->a[i]) for i in [0, k]" % sym.show(e),
                bad="; ".join(problems), variant=vn)
    chk.vcount(vn, "R7.tlwe_monomial_functions")
