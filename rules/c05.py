"""C05 — export followed by import reproduces every object exactly, on both transports.

Decides (shape): R1 writer/reader symmetry of the op sequences, with field-level flow of every
text property into the constructed object; R2 both transports reach the same writer/reader and
every stream implementation overrides every primitive; R3 the real-number text format round-trips
doubles; R4 every mutable field of every serialised record is read by the writer; R5 the FFT image
of the bootstrapping key is recomputed from the key that was read.
Not decided: byte-identical ciphertexts from a reloaded key (runtime statement).
R6 every Istream::getLine hands over every character of the line it consumes (no fixed-size line buffer, nothing but
CR / LF / EOF dropped).
"""
import re

from sa import api, ioseq, sym
from sa.facts import Program, walk
from sa.ioseq import IOHooks, extract_ops, attach_reader_details, flat_ops, show_op
from sa.symexec import run_function, flat, Hooks
from sa.sym import ZERO, I

OBJ = sym.sym("$obj")
PAR = sym.sym("$params")


def bind_args(fn):
    non_stream = [i for i, p in enumerate(fn.params) if not any(t in p["t"] for t in ("FILE", "ostream", "istream", "Ostream", "Istream"))]
    args = [None] * len(fn.params)
    if len(non_stream) >= 1:
        args[non_stream[0]] = OBJ
    if len(non_stream) >= 2:
        args[non_stream[1]] = PAR
    return args


class DeepHooks(IOHooks):
    """reader view: also inline lifecycle functions and constructors whose pointer parameters are
    parameter objects (so that the constructed object's fields are expressed in what was read)"""

    def want_inline(self, ex, callee, node):
        if IOHooks.want_inline(self, ex, callee, node):
            return True
        if not callee.file.startswith(("libtfhe/", "include/")):
            return False
        if callee.get("record") in ("TfheGarbageCollector", "MapTextModeProperties", "TextModeProperties"):
            return False
        if callee.get("kind") == "ctor":
            return not callee.get("copy") and not callee.get("implicit")
        if callee.get("static") and not callee.get("record") and callee.file == ex.fn.file:
            return True            # a file-local helper is part of its caller (e.g. the function that distributes a block just read)
        if not re.match(r"^(new|init|alloc)_", callee.name):
            return False
        for i, p in enumerate(callee.params):
            t = p["t"]
            if "*" in t or "&" in t:
                rec = ioseq._record_in_type(ex.v, t)
                if rec is None:
                    continue
                if rec.endswith(("Params", "ParameterSet", "Parameters")):
                    continue
                if i == 0 and re.match(r"^init_", callee.name):
                    continue   # the object being initialised
                if i == 1 and re.match(r"^init_.*_array$", callee.name):
                    continue
                return False       # conversion constructors (e.g. FFT image of a key) are not inlined
        return True


def object_paths(effects, result):
    """pointer-valued object terms -> canonical path from $obj (shortest of all fields that hold it)"""
    return object_model(effects, result)[0]


def object_model(effects, result):
    """(canonical path per object, alias map path->canonical path, heap: canonical lvalue -> stored value)
    derived from the stores performed while the reader constructs its result"""
    allpaths = {}
    if result is not None:
        allpaths[result] = {OBJ}
    stores = [x for x in flat(effects) if x["e"] == "store" and x["op"] == "="]
    for _ in range(12):
        changed = False
        for x in stores:
            val = x["val"]
            if isinstance(val, tuple) and val[0] in ("new", "obj"):
                r = sym.root_of(x["lv"])
                if r in allpaths:
                    for rp in list(allpaths[r]):
                        pth = sym.subst(x["lv"], {r: rp})
                        if pth not in allpaths.setdefault(val, set()):
                            allpaths[val].add(pth)
                            changed = True
        if not changed:
            break
    canon = {o: min(ps, key=lambda t: (len(sym.show(t)), sym.show(t))) for o, ps in allpaths.items()}
    alias = {}
    for o, ps in allpaths.items():
        for pth in ps:
            if pth != canon[o]:
                alias[pth] = canon[o]
    heap = {}
    for x in stores:
        r = sym.root_of(x["lv"])
        if r in canon:
            lv = sym.rewrite(sym.subst(x["lv"], canon), alias)
            val = x["val"]
            if isinstance(val, tuple) and val[0] in ("new", "obj"):
                continue
            heap[lv] = val
    return canon, alias, heap



def _deep_replace(x, old, new):
    if x == old:
        return new
    if isinstance(x, tuple):
        return tuple(_deep_replace(y, old, new) for y in x)
    if isinstance(x, list):
        return [_deep_replace(y, old, new) for y in x]
    if isinstance(x, dict):
        return {k: (_deep_replace(y, old, new) if k != "fn" else y) for k, y in x.items()}
    return x


def _deep_replace_loads(x, old, new):
    """like _deep_replace, but the left-hand sides of stores keep their lvalue"""
    if isinstance(x, dict):
        return {k: (y if k in ("fn", "lv") else _deep_replace_loads(y, old, new)) for k, y in x.items()}
    if isinstance(x, list):
        return [_deep_replace_loads(y, old, new) for y in x]
    return _deep_replace(x, old, new)


def _conjuncts(c):
    if isinstance(c, tuple) and c and c[0] == "op" and c[1] == "&&":
        return _conjuncts(c[2]) + _conjuncts(c[3])
    return [c]


def _comparison_helper_kind(v, name):
    """'exact' when the two-parameter helper returns a == b; ('inexact', eps) when it returns |a - b| < eps (or <=) for a positive
    literal eps (then a = 0, b = eps/2 are told equal); None when its body is something else"""
    fs = [f for f in v.fns(name) if f.get("defined", True)] if hasattr(v, "fns") else []
    if len(fs) != 1 or len(fs[0].params) != 2:
        return None
    try:
        eff, st, ex = run_function(v, fs[0], hooks=Hooks())
    except Exception:
        return None
    rets = [x for x in flat(eff) if x["e"] == "return"]
    if len(rets) != 1 or rets[0].get("val") is None:
        return None
    a, b = (sym.sym(p_["n"]) for p_ in fs[0].params)
    val = rets[0]["val"]
    if val in (("op", "==", a, b), ("op", "==", b, a), ("fop", "==", a, b), ("fop", "==", b, a)):
        return "exact"
    if val[0] in ("op", "fop") and val[1] in ("<", "<=") and val[3][0] in ("int", "float"):
        lhs, eps = val[2], val[3][1]
        d1, d2 = ("fop", "-", a, b), ("fop", "-", b, a)
        if lhs[0] == "call" and lhs[1] in ("fabs", "std::fabs", "abs", "std::abs", "fabsl", "fabsf") and len(lhs[2]) == 1 and lhs[2][0] in (d1, d2):
            try:
                if float(eps) > 0:
                    return ("inexact", float(eps))
            except (TypeError, ValueError):
                return None
    return None


def resolve_cache_lookups(v, eff):
    """A reader helper that returns EITHER the object it has just built from the stream OR an object found in a process-wide cache
    (the executor's `multi-return` value).  For the round trip the cached object may stand for the fresh one exactly when the guard
    of the lookup pins every field of the record to the value just read by an exact comparison; then the fresh object is
    substituted.  A field compared through a tolerance (or not at all) is a violation with a witness: a second import whose value
    differs from an earlier one inside the tolerance comes back with the earlier value.  Anything else: undecided.
    -> (effects, [problem texts])"""
    from sa.pipeline import AnalysisBroken
    problems = []
    for node in [x for x in flat(eff) if x["e"] == "inlined"]:
        unk = ("unk", "multi-return:%s" % node["name"])
        if node.get("ret") != unk:
            continue
        body = node["body"]
        fresh = [x["val"] for x in body if x["e"] == "return" and isinstance(x.get("val"), tuple) and x["val"][0] == "new"]
        loops = [x for x in body if x["e"] == "while" and x.get("kind") == "forrange"]
        other = [x for x in body if x["e"] == "return" and x not in [y for y in body if y["e"] == "return" and y.get("val") in fresh]]
        if len(fresh) != 1 or len(loops) != 1 or other:
            raise AnalysisBroken("%s returns one of several objects (line %s) and is not a cache lookup of the modelled form: "
                                 "which object the reader hands on is not decided" % (node["name"], node.get("l")))
        A = fresh[0]
        rec = next((r for r in v.records.values() if r["name"] == A[1]), None) if hasattr(v, "records") else None
        lp = loops[0]
        hits = []       # (guard, returned value)

        def scan(effs, conds):
            for x in effs:
                if x["e"] == "if":
                    scan(x["then"], conds + [x["cond"]])
                    scan(x["else"], conds)
                elif x["e"] == "return":
                    hits.append((conds, x.get("val")))
                elif x["e"] in ("while", "loop"):
                    raise AnalysisBroken("%s: nested loop in a cache lookup: not decided" % node["name"])
        scan(lp["body"], [])
        # the values the fresh object's fields hold
        fields = {}
        for x in flat(body):
            if x["e"] == "store" and x["op"] == "=" and sym.root_of(x["lv"]) == A and x["lv"][0] == "fld":
                fields[x["lv"][2]] = x["val"]
        if rec is None or not fields or not hits:
            raise AnalysisBroken("%s: cache lookup whose fresh object's fields are not visible: not decided" % node["name"])
        for conds, val in hits:
            if not (isinstance(val, tuple) and val[0] == "var"):
                raise AnalysisBroken("%s: the lookup returns %s: not decided" % (node["name"], sym.show(val) if val else val))
            cj = [c for g in conds for c in _conjuncts(g)]
            for f in rec["fields"]:
                fname = f["n"]
                if fname not in fields:
                    raise AnalysisBroken("%s: field %s of the fresh %s has no visible value: not decided" % (node["name"], fname, A[1]))
                cached = ("fld", ("idx", val, I(0)), fname)
                want = fields[fname]
                state = None
                for c in cj:
                    if c in (("op", "==", cached, want), ("op", "==", want, cached)):
                        state = "exact"
                        break
                    if c[0] == "call" and len(c[2]) == 2 and set(c[2]) == {cached, want}:
                        k_ = _comparison_helper_kind(v, c[1])
                        if k_ is None:
                            raise AnalysisBroken("%s: field %s is compared through %s, whose meaning is not decided" % (node["name"], fname, c[1]))
                        state = k_
                        if k_ == "exact":
                            break
                if state == "exact":
                    continue
                if state is None:
                    problems.append("%s (line %s) returns a cached %s without comparing its field %s with the value just read: a second import "
                                    "that differs in %s only comes back with the first one's value" % (node["name"], lp.get("l"), A[1], fname, fname))
                else:
                    problems.append("%s (line %s) returns a cached %s when field %s differs from the value just read by less than %g (%s): "
                                    "importing %s = 0 and then %s = %g in one process gives the second object the value 0" % (
                                        node["name"], lp.get("l"), A[1], fname, state[1], "a tolerance, not equality", fname, fname, state[1] / 2))
        # the lookup itself performs no I/O (checked) and its outcome is now represented by the fresh object: drop the loop from the view
        for x in flat(lp["body"]):
            if x["e"] == "call" and not (re.match(r"^(delete_|destroy_|free$|operator delete)", x["name"]) or
                                         _comparison_helper_kind(v, x["name"]) is not None):
                raise AnalysisBroken("%s: the cache lookup calls %s (line %s): not decided" % (node["name"], x["name"], x.get("l")))
            if x["e"] == "store" and not (x["lv"][0] == "var" or x.get("local")):
                raise AnalysisBroken("%s: the cache lookup writes %s (line %s): not decided" % (node["name"], sym.show(x["lv"]), x.get("l")))
        node["body"] = [x for x in body if x is not lp]
        eff = _deep_replace(eff, unk, A)
        # loads of the fresh object's fields that the executor could not fold while the object was unknown (fields written once)
        once = {f_: val_ for f_, val_ in fields.items()
                if sum(1 for x in flat(eff) if x["e"] == "store" and sym.root_of(x["lv"]) == A and x["lv"][0] == "fld" and x["lv"][2] == f_) == 1}
        for f_, val_ in once.items():
            for load in {sym.arrow(A, f_), sym.fld(sym.idx(A, I(0)), f_), ("fld", ("idx", A, I(0)), f_)}:
                eff = _deep_replace_loads(eff, load, val_)
    return eff, problems


def view(v, fn, deep):
    hooks = DeepHooks() if deep else IOHooks()
    eff, st, ex = run_function(v, fn, args=bind_args(fn), hooks=hooks)
    cache_problems = []
    if deep:
        eff, cache_problems = resolve_cache_lookups(v, eff)
    ops = extract_ops(eff, "r" if deep else "w")
    secs = attach_reader_details(eff, ops)
    result = None
    for x in eff:
        if x["e"] == "return" and x.get("val") is not None:
            result = x["val"]
    roots = {a: fn.params[i]["t"] for i, a in enumerate(bind_args(fn)) if a is not None}
    return {"ops": ops, "eff": eff, "secs": secs, "result": result, "hooks": hooks, "roots": roots, "cache_problems": cache_problems}


def erase_streams(struct):
    """the stream wrapper object differs between transports by design; erase it from canonical forms"""
    def go(t):
        if isinstance(t, tuple):
            if len(t) == 4 and t and t[0] == "obj" and isinstance(t[1], str) and \
                    t[1].split("::")[0] in ("CIstream", "StdIstream", "COstream", "StdOstream"):
                return ("stream",)
            return tuple(go(x) for x in t)
        if isinstance(t, list):
            return [go(x) for x in t]
        return t
    return go(struct)


def const_member(v, fieldterm):
    """value of a const data member with a constant in-class initialiser (`const int32_t TYPE_UID = 43;`), else None"""
    if fieldterm[0] != "fld":
        return None
    vals = set()
    for r in v.records.values():
        for fl in r["fields"]:
            if fl["n"] == fieldterm[2] and fl.get("const") and isinstance(fl.get("init"), dict):
                cv = fl["init"].get("cv", fl["init"].get("v") if fl["init"].get("k") == "int" else None)
                if cv is not None:
                    vals.add(int(cv))
    return vals.pop() if len(vals) == 1 else None


def glob_const(v, term):
    """value of &global-const pointer terms (tag constants)"""
    if term[0] == "addr" and term[1][0] == "fld":
        return const_member(v, term[1])
    if term[0] == "addr" and term[1][0] == "glob":
        s = v.statics.get(term[1][1])
        if s and s.get("const") and s.get("init") and "cv" in s["init"]:
            return int(s["init"]["cv"])
        if s and s.get("const") and s.get("init") and s["init"].get("k") == "int":
            return int(s["init"]["v"])
    return None


_V = [None]          # variant used by tag_checks for const data members


def tag_checks(eff):
    """id(fread effect) -> (constant, mismatch is fatal?, line) for the test that follows the read of a tag into a local cell:
    if (cell != CONST) die  /  if (cell == CONST) return; die.  Keyed by the read, so a tag-reading helper inlined at two call
    sites gives two entries; also cell -> last test, for reads that are not followed by their own test."""
    from sa.ioseq import mismatch_is_fatal
    out = {}
    seq = list(flat(eff))
    last_read = {}
    for i, x in enumerate(seq):
        if x["e"] == "call" and x["name"].endswith("::fread") and x.get("args") and x["args"][0] is not None:
            a0 = x["args"][0]
            cell = a0[1] if a0[0] == "addr" else a0
            if cell[0] == "var":
                last_read[cell] = id(x)
            continue
        if x["e"] != "if":
            continue
        c = x["cond"]
        if not (c[0] == "op" and c[1] in ("!=", "==")):
            continue
        for cell, other in ((c[2], c[3]), (c[3], c[2])):
            if cell[0] != "var":
                continue
            val = None
            if other[0] == "int":
                val = other[1]
            elif other[0] == "fld" and _V[0] is not None and const_member(_V[0], other) is not None:
                val = const_member(_V[0], other)
            if val is None:
                continue
            rec = (val, mismatch_is_fatal(seq, i), x["l"])
            out[cell] = rec
            if cell in last_read:
                out[last_read[cell]] = rec
            break
    return out


KIND_OK = {("int64_t", "int64_t"), ("int64_t", "double"), ("double", "double"), ("string", "string")}


def search_loops(eff):
    """loops whose trip count the analysis does not have: loops without a closed form, and counted loops left by `break` (a search):
    the op sequences folded out of code containing them are not the sequences it performs"""
    from sa.symexec import flat as _flat
    out = []

    def has_break(body):
        for x_ in body:
            if x_["e"] == "break":
                return True
            if x_["e"] == "if" and (has_break(x_["then"]) or has_break(x_["else"])):
                return True
            if x_["e"] == "inlined" and has_break(x_["body"]):
                return True
        return False
    for x_ in _flat(eff):
        if x_["e"] == "while" and x_.get("kind") != "forrange":
            out.append(x_)
        elif x_["e"] == "loop" and has_break(x_.get("body") or []):
            out.append(x_)
    return out


def undecided_if_search_loops(tname, W, R, problems):
    if problems:
        from sa.pipeline import AnalysisBroken
        for side, view_ in (("reader", R), ("writer", W)):
            wl = search_loops(view_["eff"])
            if wl:
                raise AnalysisBroken("%s: the %s contains a loop whose trip count is not known (a search left by break, or no closed form) at line %s; "
                                     "a mismatch of the op sequences proves nothing: not decided" % (tname, side, wl[0].get("l")))


def compare(chk, v, tname, W, R, where, vn):
    """structural comparison of writer ops W and reader ops R.  Reader terms are rewritten to canonical
    $obj paths; writer sizes and bounds are evaluated in the heap the reader builds (so a field the
    constructor derives, e.g. base = 1 << basebit, compares equal to what the reader computes)."""
    canon, alias, heap = object_model(R["eff"], R["result"])
    # a reader that reads blocks into a private staging buffer (an allocation that is not part of the object it builds) and distributes
    # them afterwards: the comparison of transfers does not see where the bytes end up.  Not modelled (the writer-side counterpart
    # is): undecided, never a violation.
    staged_read = None
    for o in flat_ops(R["ops"]):
        sr_ = ioseq._staging_root(o["ptr"]) if o["op"] == "bin" and o.get("dir") == "r" else None
        if sr_ is not None and sr_[0] not in canon:
            staged_read = o
    rsecs = [o for o in flat_ops(R["ops"]) if o["op"] == "text"]
    secidx = {o["id"]: i for i, o in enumerate(rsecs)}

    def norm_props(t):
        if not isinstance(t, tuple) or not t:
            return t
        if not isinstance(t[0], str):
            return tuple(norm_props(x) for x in t)
        if t[0] == "prop":
            return ("prop", secidx.get(t[1], -1), t[2], t[3])
        if t[0] == "cast" and isinstance(t[2], tuple) and t[2] and t[2][0] == "prop":
            return norm_props(t[2])
        if t[0] == "poly":
            r = ZERO
            for m, c in t[1]:
                prod = ("int", c)
                for x in m:
                    prod = sym.mul(prod, norm_props(x))
                r = sym.add(r, prod)
            return r
        if t[0] == "op":
            return sym.binop(t[1], norm_props(t[2]), norm_props(t[3]))
        return tuple(norm_props(x) if isinstance(x, tuple) else x for x in t)

    heap_n = {k: norm_props(sym.rewrite(sym.subst(val, canon), alias)) for k, val in heap.items()}
    rw = lambda t: norm_props(sym.rewrite(sym.subst(t, canon), alias))       # reader term -> canonical
    wa = lambda t: sym.rewrite(t, alias)                                      # writer pointer -> canonical
    wv = lambda t: sym.rewrite(sym.rewrite(t, alias), heap_n)                 # writer value in the reader's heap
    _V[0] = v
    tags = tag_checks(R["eff"])

    def tag_handed_on(cell):
        """the tag read into `cell` is not tested where it is read but its value is used afterwards (returned by a helper, combined
        into a value tested later): a deferred test, not modelled -> undecided"""
        for x_ in flat(R["eff"]):
            if (x_["e"] in ("local", "store", "return") and isinstance(x_.get("val"), tuple) and sym.contains(x_["val"], cell)) or \
                    (x_["e"] == "inlined" and isinstance(x_.get("ret"), tuple) and sym.contains(x_["ret"], cell)):
                return True
        return False

    def next_tag(cell, op=None):
        """the test that follows this read of the tag cell"""
        if op is not None and op.get("eff_id") in tags:
            return tags[op["eff_id"]]
        return tags.get(cell)
    dest = {}
    for x in flat(R["eff"]):
        if x["e"] == "store" and x["op"] == "=" and isinstance(x["val"], tuple):
            val = x["val"]
            while val[0] == "cast":
                val = val[2]
            if val[0] == "prop":
                dest.setdefault((val[1], val[2]), []).append(sym.rewrite(sym.subst(x["lv"], canon), alias))
    # fatal consistency guards:  if (prop != X) die  ->  the value read must equal X
    guards = {}
    for x in flat(R["eff"]):
        if x["e"] == "if" and x["cond"][0] == "op" and x["cond"][1] in ("!=", "=="):
            fatal = (x.get("then_status") == "exit") if x["cond"][1] == "!=" else (x.get("else_status") == "exit")
            if not fatal:
                continue
            a, b = x["cond"][2], x["cond"][3]
            for p_, o_ in ((a, b), (b, a)):
                while p_[0] == "cast":
                    p_ = p_[2]
                if p_[0] == "prop":
                    guards.setdefault((p_[1], p_[2]), []).append(rw(o_))
    problems = list(R.get("cache_problems", ()))
    nontriv = [0]
    expanded = []

    def cmp_seq(ws, rs, loopmap, ctx):
        """structural comparison first (a proof for all dimensions); when the two op trees differ in shape -- loops unrolled, peeled,
        split, written with other bounds -- both are expanded to their sequences of transfers for small concrete dimensions and
        compared transfer by transfer (sizes, destinations, tags), which decides whether they describe the same byte stream"""
        saved = len(problems)
        nt0 = nontriv[0]
        _cmp_struct(ws, rs, loopmap, ctx)
        if len(problems) > saved:
            res = expand_compare(ws, rs, loopmap, ctx)
            if res is True:
                del problems[saved:]
            elif isinstance(res, list):
                problems[saved:] = res
            # res is None: expansion not possible, the structural report stands

    class _NoExpansion(Exception):
        pass

    def expand_compare(ws, rs, loopmap, ctx, totals_only=False, staged=False):
        from sa.secretflow import eval_term
        wvars, rvars = set(), set()

        def loopvars(ops, acc):
            for o in ops:
                if o["op"] == "rep":
                    acc.add(o["var"])
                    loopvars(o["body"], acc)
                elif o["op"] == "if":
                    loopvars(o["then"], acc); loopvars(o["else"], acc)
        loopvars(ws, wvars); loopvars(rs, rvars)
        # dimension fields a constructor derives from others (kpl = (k+1)*l, base = 1 << basebit) are replaced by their definition,
        # so that the assignments of the dimensions below are ones a real object can have
        from sa import bounds as _bounds
        if not hasattr(v, "_ctor_rel"):
            v._ctor_rel = _bounds.ctor_relations(v)
        roots_ = dict(W.get("roots") or {})
        roots_.update(R.get("roots") or {})
        rel_ = lambda t: _bounds.apply_relations(v, t, roots_, v._ctor_rel) if isinstance(t, tuple) else t
        wt = lambda t: rel_(wv(t))
        rt = lambda t: rel_(sym.subst(rw(t), loopmap))
        # dimension atoms: everything a bound / condition mentions that is not a loop variable
        dims = []

        def leaves(t):
            """maximal non-arithmetic sub-terms (fields, property values, symbols): the quantities a bound depends on"""
            if not isinstance(t, tuple) or not t:
                return []
            if t[0] in ("int", "float"):
                return []
            if t[0] == "poly":
                return [x for m, _ in t[1] for a in m for x in leaves(a)]
            if t[0] == "op":
                return leaves(t[2]) + leaves(t[3])
            if t[0] == "un":
                return leaves(t[2])
            if t[0] == "cast":
                return leaves(t[2])
            if t[0] == "cond":
                return leaves(t[1]) + leaves(t[2]) + leaves(t[3])
            if t[0] == "call" and t[1] == "$loop_end":
                return [x for y in t[2][:3] for x in leaves(y)]
            return [t]

        def collect(ops, tr, lv):
            for o in ops:
                ts = []
                if o["op"] == "rep":
                    ts = [o["lo"], o["hi"], o["step"]]
                    collect(o["body"], tr, lv)
                elif o["op"] == "if":
                    ts = [o["cond"]]
                    collect(o["then"], tr, lv); collect(o["else"], tr, lv)
                elif o["op"] in ("bin", "unstage"):
                    ts = [o["size"]]
                for t in ts:
                    for a in leaves(tr(t)):
                        if a not in lv and a not in dims:
                            dims.append(a)
        collect(ws, wt, wvars | set(loopmap.values()))
        collect(rs, rt, rvars | set(loopmap.values()))
        dims.sort(key=repr)
        if len(dims) > 12:
            import os
            if os.environ.get("VERIF_DEBUG"): print("DIMS", ctx, [sym.show(d) for d in dims])
            return None

        def trace(ops, tr, env):
            out = []

            def go(ops, env):
                for i, o in enumerate(ops):
                    if o["op"] == "rep":
                        lo, hi, st = eval_term(tr(o["lo"]), env), eval_term(tr(o["hi"]), env), eval_term(tr(o["step"]), env)
                        if lo is None or hi is None or not st:
                            raise _NoExpansion("loop bound %s" % sym.show(tr(o["hi"]))[:80])
                        x = lo
                        n_it = 0
                        while {"<": x < hi, "<=": x <= hi, ">": x > hi, ">=": x >= hi, "!=": x != hi}[o["cmp"]]:
                            e2 = dict(env)
                            e2[o["var"]] = x
                            go(o["body"], e2)
                            x += st
                            n_it += 1
                            if n_it > 4096:
                                raise _NoExpansion("loop does not terminate on the grid")
                    elif o["op"] == "if":
                        c_ = eval_term(tr(o["cond"]), env)
                        if c_ is None:
                            raise _NoExpansion("condition %s" % sym.show(tr(o["cond"]))[:80])
                        go(o["then"] if c_ else o["else"], env)
                    elif o["op"] in ("bin", "text", "unstage"):
                        out.append((o, dict(env), ops, i))
                    else:
                        raise _NoExpansion("op %s" % o["op"])
            go(ops, env)
            return out

        def inst(t, env):
            return sym.fold(sym.subst(t, {k_: I(v_) for k_, v_ in env.items() if isinstance(v_, int)}))
        def flat_rows(t, asg):
            """X->ks[i][j][k] with literal subscripts is X->ks0_raw[(i*t + j)*base + k] (the constructor's tables, C08.R5): one name
            for a key-switch row whichever table it is reached through"""
            if not isinstance(t, tuple) or not t or not isinstance(t[0], str):
                return t
            if t[0] == "idx" and t[1][0] == "idx" and t[1][1][0] == "idx" and t[1][1][1][0] == "fld" and t[1][1][1][2] == "ks" and \
                    all(x_[0] == "int" for x_ in (t[2], t[1][2], t[1][1][2])):
                X = t[1][1][1][1]
                tv = eval_term(inst(wt(sym.fld(X, "t")), {}), asg)
                bv = eval_term(inst(wt(sym.fld(X, "base")), {}), asg)
                if tv is not None and bv is not None:
                    return sym.idx(sym.fld(X, "ks0_raw"), I((t[1][1][2][1] * tv + t[1][2][1]) * bv + t[2][1]))
            if t[0] == "poly":
                return t
            return tuple(flat_rows(x_, asg) if isinstance(x_, tuple) else x_ for x_ in t)

        def destage(trace_r, asg):
            """reader transfers with staged reads resolved: a read into a private buffer followed by the statements that copy out of it
            is the sequence of transfers into their destinations, in buffer order; the copies must tile the bytes read exactly.
            -> new trace, or a problem text"""
            out, pend = [], [None]

            def flush():
                if pend[0] is None:
                    return None
                P_ = pend[0]
                pend[0] = None
                segs = sorted(P_["segs"], key=lambda s_: s_[0])
                pos = 0
                for off, size, dst, es, line in segs:
                    if off != pos:
                        return "of the %d bytes read into the staging buffer at line %s, bytes [%d, %d) are %s" % (
                            P_["size"], P_["l"], min(pos, off), max(pos, off), "never delivered" if off > pos else "delivered twice")
                    pos += size
                if pos != P_["size"]:
                    return "of the %d bytes read into the staging buffer at line %s only %d are delivered to the object" % (P_["size"], P_["l"], pos)
                run = None
                for off, size, dst, es, line in segs:
                    b_, o_ = sym.ptr_split(dst)
                    oi = sym.const_value(o_)
                    if run is not None and oi is not None and run["base"] == b_ and run["next"] == oi and run["es"] == es:
                        run["size"] += size
                        run["next"] += size // es
                        continue
                    if run is not None:
                        out.append(({"op": "bin", "dir": "r", "ptr": run["ptr"], "size": I(run["size"]), "l": run["l"], "synth": True}, {}, [], 0))
                    run = {"base": b_, "next": (oi + size // es) if oi is not None else None, "es": es, "ptr": dst, "size": size, "l": line}
                if run is not None:
                    out.append(({"op": "bin", "dir": "r", "ptr": run["ptr"], "size": I(run["size"]), "l": run["l"], "synth": True}, {}, [], 0))
                return None
            for o_, e_, ops_, i_ in trace_r:
                if o_["op"] == "bin" and o_.get("dir") == "r":
                    sr0 = ioseq._staging_root(o_["ptr"])
                    sr_ = ioseq._staging_root(inst(rt(o_["ptr"]), e_)) if sr0 is not None and sr0[0] not in canon else None
                    if sr_ is not None:
                        pb = flush()
                        if pb:
                            return pb
                        sz = eval_term(inst(rt(o_["size"]), e_), asg)
                        if sz is None:
                            raise _NoExpansion("size of the staged read")
                        pend[0] = {"size": sz, "root": sr_[0], "segs": [], "l": o_["l"]}
                        continue
                if o_["op"] == "unstage":
                    sr0 = ioseq._staging_root(o_["src"])
                    if sr0 is None or sr0[0] in canon:
                        continue                      # a copy out of an array of the object itself: not a staged read
                    src = inst(rt(o_["src"]), e_)
                    sr_ = ioseq._staging_root(src)
                    if sr_ is None:
                        raise _NoExpansion("source of a copy out of the staging buffer")
                    if pend[0] is None or sr_[0] != pend[0]["root"]:
                        raise _NoExpansion("copy out of a buffer that was not just read")
                    off = eval_term(sr_[1], asg)
                    size = eval_term(inst(rt(o_["size"]), e_), asg)
                    if off is None or size is None:
                        raise _NoExpansion("offset of a copy out of the staging buffer")
                    pend[0]["segs"].append((off * sr_[2], size, flat_rows(inst(rt(o_["dst"]), e_), asg), o_["es"], o_["l"]))
                    continue
                pb = flush()
                if pb:
                    return pb
                out.append((o_, e_, ops_, i_))
            pb = flush()
            return pb if pb else out
        assignments = [{d: 2 + (k_ % 2) for k_, d in enumerate(dims)}, {d: 3 - (k_ % 2) for k_, d in enumerate(dims)}, {d: 1 for d in dims}]
        # an object's own copy of a dimension (`TLweSample::k`, set by its constructor from the parameter object it is created with)
        # has the value of that dimension: tied to the one dimension of that name the comparison knows
        ties = {}
        alias_ = _bounds.dim_field_alias(v)
        for d in dims:
            if d[0] != "fld":
                continue
            try:
                rec_ = ioseq._record_in_type(v, ioseq.type_of(v, d[1], roots_))
            except Exception:
                rec_ = None
            tgt = alias_.get((rec_, d[2]))
            if not tgt:
                continue
            cands = []
            for e_ in dims:
                if e_ is d:
                    continue
                if e_[0] == "prop" and len(e_) > 2 and e_[2] == tgt[1]:
                    cands.append(e_)
                elif e_[0] == "fld" and e_[2] == tgt[1]:
                    try:
                        if ioseq._record_in_type(v, ioseq.type_of(v, e_[1], roots_)) == tgt[0]:
                            cands.append(e_)
                    except Exception:
                        pass
            if len(cands) == 1:
                ties[d] = cands[0]
        for asg_ in assignments:
            for d, c_ in ties.items():
                asg_[d] = asg_[c_]
        checked = 0
        for asg in assignments:
            try:
                tw = trace(ws, wt, dict(asg))
                trr = trace(rs, rt, dict(asg))
            except _NoExpansion as e_:
                import os
                if os.environ.get("VERIF_DEBUG"): print("NOEXP", ctx, e_)
                return None
            if totals_only:
                # staged reads: where the bytes end up is not modelled, but how many are requested is
                def total(tr_, tf):
                    n_ = 0
                    for o_, e_, _ops, _i in tr_:
                        if o_["op"] != "bin":
                            continue
                        sz = eval_term(inst(tf(o_["size"]), e_), asg)
                        if sz is None:
                            raise _NoExpansion("size")
                        n_ += sz
                    return n_
                try:
                    bw, br = total(tw, wt), total(trr, rt)
                except _NoExpansion:
                    return None
                if bw != br:
                    dimtxt = ", ".join("%s=%d" % (sym.show(d)[:30], asg[d]) for d in dims[:6])
                    return ["%s: with %s the writer produces %d bytes of binary data and the reader requests %d" % (ctx, dimtxt, bw, br)]
                continue
            dimtxt = ", ".join("%s=%d" % (sym.show(d)[:30], asg[d]) for d in dims[:6])
            if staged:
                try:
                    trr = destage(trr, asg)
                except _NoExpansion as e_:
                    import os
                    if os.environ.get("VERIF_DEBUG"): print("NODESTAGE", ctx, e_)
                    return None
                if isinstance(trr, str):
                    return ["%s: with %s: %s" % (ctx, dimtxt, trr)]
                # the writer's transfers at the same granularity: a run of elements is one transfer on both sides
                tw = [(dict(o_, ptr=flat_rows(inst(wa(o_["ptr"]), e_), asg), size=I(eval_term(inst(wt(o_["size"]), e_), asg) or -1), synth=True), {}, ops_, i_)
                      if o_["op"] == "bin" and glob_const(v, o_["ptr"]) is None and not (sym.root_of(o_["ptr"]) or ("",))[0] == "var" else (o_, e_, ops_, i_)
                      for o_, e_, ops_, i_ in tw]
            if len(tw) != len(trr):
                k_ = min(len(tw), len(trr))
                extra = (tw if len(tw) > len(trr) else trr)[k_]
                return ["%s: with %s the writer makes %d transfers and the reader %d; first unmatched: %s at line %s" % (
                    ctx, dimtxt, len(tw), len(trr), show_op(extra[0], canon)[:100], extra[0]["l"])]
            for (w, ew, wops, wi), (r, er, rops, ri) in zip(tw, trr):
                if w["op"] != r["op"]:
                    return ["%s: with %s: writer %s (line %s) is matched by reader %s (line %s)" % (ctx, dimtxt, show_op(w)[:80], w["l"], show_op(r, canon)[:80], r["l"])]
                checked += 1
                if w["op"] == "text":
                    sub = []
                    before = len(problems)
                    _cmp_struct([w], [r], loopmap, ctx)
                    if len(problems) > before:
                        sub = problems[before:]
                        del problems[before:]
                        return sub
                    continue
                sw = eval_term(w["size"], {}) if w.get("synth") else eval_term(inst(wt(w["size"]), ew), asg)
                sr = eval_term(r["size"], {}) if r.get("synth") else eval_term(inst(rt(r["size"]), er), asg)
                if sw is None or sr is None:
                    import os
                    if os.environ.get("VERIF_DEBUG"): print("SIZE", ctx, sym.show(inst(wt(w["size"]), ew)), sym.show(inst(rt(r["size"]), er)))
                    return None
                if sw != sr:
                    return ["%s: with %s: %d bytes written at line %s (%s), %d read at line %s" % (ctx, dimtxt, sw, w["l"], sym.show(w["ptr"])[:60], sr, r["l"])]
                wp = w["ptr"] if w.get("synth") else inst(wa(w["ptr"]), ew)
                rp = r["ptr"] if r.get("synth") else inst(rt(r["ptr"]), er)
                wc = None if w.get("synth") else glob_const(v, w["ptr"])
                if wc is not None:
                    cell = rp[1] if rp[0] == "addr" else rp
                    tc = next_tag(cell, r)
                    if tc is None and tag_handed_on(cell):
                        return None
                    if tc is None or tc[0] != wc or not tc[1]:
                        return ["%s (line %s): tag %d written; the reader %s" % (ctx, r["l"], wc, "never tests what it read" if tc is None else
                                                                         "expects %d" % tc[0] if tc[0] != wc else "is not stopped by a mismatch")]
                    continue
                wr_, rr_ = sym.root_of(wp), sym.root_of(rp)
                if staged and rr_ is not None and rr_[0] == "var" and not (wr_ is not None and wr_[0] == "var"):
                    return None         # the destination is a local pointer whose progress is not in closed form: undecided
                if wr_ is not None and wr_[0] == "var" and rr_ is not None and rr_[0] == "var":
                    nxt = wops[wi + 1] if wi + 1 < len(wops) else None
                    why = summary_is_max(W["eff"], wr_, nxt)
                    if why:
                        return ["%s (line %s): %s" % (ctx, w["l"], why)]
                    continue
                if wp != rp:
                    return ["%s: with %s: transfer %d: writer stores %s (line %s), reader fills %s (line %s)" % (
                        ctx, dimtxt, checked, sym.show(wp)[:70], w["l"], sym.show(rp)[:70], r["l"])]
        nontriv[0] += 1
        expanded.append("%s: op trees of different shape describe the same transfers (%d compared on 3 assignments of %d dimensions)" % (ctx, checked, len(dims)))
        return True

    def _cmp_struct(ws, rs, loopmap, ctx):
        if len(ws) != len(rs):
            problems.append("%s: writer has %d ops, reader %d: W=[%s] R=[%s]" % (
                ctx, len(ws), len(rs), "; ".join(show_op(o) for o in ws)[:300], "; ".join(show_op(o, canon) for o in rs)[:300]))
            return
        for i, (w, r) in enumerate(zip(ws, rs)):
            c = "%s.%d" % (ctx, i)
            if w["op"] != r["op"]:
                problems.append("%s: writer %s vs reader %s" % (c, show_op(w), show_op(r, canon)))
                continue
            lm = lambda t: sym.subst(rw(t), loopmap)
            if w["op"] == "bin":
                nontriv[0] += 1
                ws_, rs_ = wv(w["size"]), lm(r["size"])
                if ws_ != rs_:
                    problems.append("%s (line %s/%s): size %s written (= %s after the round trip), %s read" % (
                        c, w["l"], r["l"], sym.show(w["size"]), sym.show(ws_), sym.show(rs_)))
                wp, rp = wa(w["ptr"]), lm(r["ptr"])
                wc = glob_const(v, w["ptr"])
                if wc is not None:
                    cell = rp[1] if rp[0] == "addr" else rp
                    tc = next_tag(cell, r)
                    if tc is None and tag_handed_on(cell):
                        from sa.pipeline import AnalysisBroken
                        raise AnalysisBroken("%s (line %s): the tag is not tested where it is read but handed on (a deferred test): not modelled" % (c, r["l"]))
                    if tc is None:
                        problems.append("%s (line %s): tag %d written but the reader never tests what it read" % (c, r["l"], wc))
                    elif tc[0] != wc:
                        problems.append("%s (line %s): tag %d written, reader expects %d" % (c, r["l"], wc, tc[0]))
                    elif not tc[1]:
                        problems.append("%s (line %s): tag mismatch does not stop the reader" % (c, tc[2]))
                    continue
                wr, rr = sym.root_of(wp), sym.root_of(rp)
                if wr is not None and wr[0] == "var" and rr is not None and rr[0] == "var":
                    # a value the writer computes into a local and the reader stores from a local: the advisory variance,
                    # which must be the maximum over exactly the rows dumped after it
                    nxt = ws[i + 1] if i + 1 < len(ws) else None
                    why = summary_is_max(W["eff"], wr, nxt)
                    if why:
                        problems.append("%s (line %s): %s" % (c, w["l"], why))
                    continue
                if wp != rp:
                    problems.append("%s (line %s/%s): writer stores %s, reader fills %s" % (c, w["l"], r["l"], sym.show(wp), sym.show(rp)))
            elif w["op"] == "text":
                nontriv[0] += 1
                if r.get("title_checked") != w["title"]:
                    problems.append("%s: section title '%s' written, reader checks '%s'" % (c, w["title"], r.get("title_checked")))
                wk = {k: (kd, val) for k, kd, val, _ in w["props"]}
                rk = {k: kd for k, kd in r["props"]}
                if set(wk) != set(rk):
                    problems.append("%s: section %s keys written %s, read %s" % (c, w["title"], sorted(wk), sorted(rk)))
                for k in sorted(set(wk) & set(rk)):
                    if (wk[k][0], rk[k]) not in KIND_OK:
                        problems.append("%s: key %s written as %s, read as %s" % (c, k, wk[k][0], rk[k]))
                    d = dest.get((r["id"], k), [])
                    g = guards.get((r["id"], k), [])
                    if g and wv(wk[k][1]) in g:
                        continue   # validated against the value the constructor derives for that field
                    if not d:
                        problems.append("%s: key %s is read but its value reaches no field of the result" % (c, k))
                    elif wa(wk[k][1]) not in d:
                        problems.append("%s: key %s holds %s in the writer but initialises %s in the reader" % (
                            c, k, sym.show(wa(wk[k][1])), ", ".join(sym.show(x) for x in d)[:200]))
            elif w["op"] == "rep":
                nontriv[0] += 1
                lm2 = dict(loopmap)
                lm2[r["var"]] = w["var"]
                lmm = lambda t: sym.subst(rw(t), lm2)
                wb = (wv(w["lo"]), w["cmp"], wv(w["hi"]), w["step"])
                rb = (lmm(r["lo"]), r["cmp"], lmm(r["hi"]), lmm(r["step"]))
                if wb != rb:
                    problems.append("%s (line %s/%s): loop %s %s %s written (= %s after the round trip), %s %s %s read" % (
                        c, w["l"], r["l"], sym.show(w["lo"]), w["cmp"], sym.show(w["hi"]), sym.show(wb[2]),
                        sym.show(rb[0]), r["cmp"], sym.show(rb[2])))
                _cmp_struct(w["body"], r["body"], lm2, c)
            elif w["op"] == "if":
                problems.append("%s: undecided branch in the op sequence (%s)" % (c, show_op(w)))
            else:
                problems.append("%s: unrecognised op %s" % (c, w["op"]))

    if staged_read is not None:
        # a reader that reads blocks into a private staging buffer (an allocation that is not part of the object it builds) and
        # distributes them afterwards: where the bytes end up is not modelled (the writer-side counterpart is).  What is decided is the
        # number of bytes requested against the number written, on small dimensions; beyond that the pair is undecided, never a violation.
        res = expand_compare(W["ops"], R["ops"], {}, tname, totals_only=True)
        if isinstance(res, list):
            return res, 1
        # then the distribution: the statements that copy out of the buffer are paired with the read that filled it
        rops = ioseq.extract_ops(R["eff"], "r", unstage=True)
        ioseq.attach_reader_details(R["eff"], rops)
        res = expand_compare(W["ops"], rops, {}, tname, staged=True)
        if isinstance(res, list):
            return res, 1
        if res is True:
            return [], 1
        from sa.pipeline import AnalysisBroken
        raise AnalysisBroken("%s: the reader reads into a private staging buffer at line %s and distributes the bytes afterwards; the byte "
                             "counts agree, the distribution of staged reads is not modelled" % (tname, staged_read["l"]))
    cmp_seq(W["ops"], R["ops"], {}, tname)
    return problems, nontriv[0]


def summary_is_max(eff, cell, payload):
    """None if the writer's local `cell` is the maximum of <row>.current_variance over the loop nest of the payload that
    follows it; otherwise a description of what it is"""
    from sa import summ
    stores = []
    for x, loops, guards, stack, pre in summ.walk_all(eff):
        if x["e"] == "store" and x["lv"] == cell:
            stores.append((x, loops, guards))
    init = [s_ for s_ in stores if not s_[1]]
    upd = [s_ for s_ in stores if s_[1]]
    if payload is None or payload["op"] != "rep":
        return None
    nest = []
    o = payload
    while o["op"] == "rep":
        nest.append((o["lo"], o["cmp"], o["hi"]))
        inner = [b for b in o["body"] if b["op"] == "rep"]
        if len(inner) == 1 and len(o["body"]) == 1:
            o = inner[0]
        else:
            break
    if len(upd) != 1:
        vals = [sym.show(s_[0]["val"]) for s_ in stores]
        return "the value written once before the rows is %s, not the maximum of the rows' variances" % (vals[-1] if vals else "never assigned")
    x, loops, guards = upd[0]
    rng = [(l["lo"], l["cmp"], l["hi"]) for l in loops]
    if rng != nest[:len(rng)] or len(rng) < 2:
        return "the maximum is taken over %s, the rows are dumped over %s" % (
            [[sym.show(a) if isinstance(a, tuple) else a for a in r] for r in rng], [[sym.show(a) if isinstance(a, tuple) else a for a in r] for r in nest])
    V = x["val"]
    # the update is  if (v > cur) cur = v   or, unguarded,  cur = (v > cur) ? v : cur  /  (cur < v) ? v : cur  /
    # (cur >= v) ? cur : v  /  std::max(cur, v)   with v a row's variance
    if not guards:
        W = V
        while W[0] == "cast":
            W = W[2]
        if W[0] == "cond" and W[1][0] == "fop" and W[1][1] in (">", "<", ">=", "<="):
            c_, a_, b_ = W[1], W[2], W[3]
            lhs, rhs = c_[2], c_[3]
            if c_[1] in ("<", "<="):
                lhs, rhs = rhs, lhs                    # lhs > rhs  (or >=)
            v_ = a_ if b_ == cell else b_ if a_ == cell else None
            if v_ is not None and v_[0] == "fld" and v_[2] == "current_variance" and {lhs, rhs} == {v_, cell} and \
                    ((a_ == lhs and b_ == rhs)):       # picks the larger operand
                return None
            return "the running value is %s: not the larger of the running maximum and a row's variance" % sym.show(V)[:160]
        if W[0] == "call" and W[1] in ("std::max", "max", "fmax", "std::fmax") and len(W[2]) == 2 and cell in W[2]:
            v_ = W[2][0] if W[2][1] == cell else W[2][1]
            if v_[0] == "fld" and v_[2] == "current_variance":
                return None
    if V[0] != "fld" or V[2] != "current_variance":
        return "the running value is %s, not a row's variance" % sym.show(V)
    want_guard = ("fop", ">", V, cell)
    if guards != [want_guard] and guards != [("fop", "<", cell, V)]:
        return "the update is guarded by %s, not by 'row variance > running maximum'" % [sym.show(g) for g in guards]
    return None


FMT = re.compile(r"%([-+ #0]*)(\d+|\*)?(?:\.(\d+|\*))?(hh|h|ll|l|L|j|z|t)?([a-zA-Z])")


def check_formats(chk, v):
    """R3: formats used by the text-property implementation"""
    vn = v.name
    setters = [f for f in v.defined() if f.get("record") and f.name.startswith("setProperty_")
               and f.get("kind") == "method"]
    getters = [f for f in v.defined() if f.get("record") and f.name.startswith("getProperty_")
               and f.get("kind") == "method"]
    if not setters or not getters:
        chk.broken("no setProperty_*/getProperty_* implementation found")
    for f in setters:
        kind = f.name[len("setProperty_"):]
        fmts = []
        for n in walk(f.d.get("body")):
            if n.get("k") == "call" and n.get("callee") in ("sprintf", "snprintf", "std::sprintf", "std::snprintf"):
                for ai, a in enumerate(n["args"]):
                    if isinstance(a, dict) and a.get("k") == "str":
                        fmts.append((a["v"], n["l"], n["args"][ai + 1:]))
        chk.count("R3.format_sites", len(fmts))
        if not fmts:
            chk.assumed("R3", "%s::%s uses a recognised formatter" % (f.record, f.name), where=f.where,
                        detail="no sprintf with a literal format found", variant=vn)
            continue
        for fmt, line, rest in fmts:
            m = FMT.search(fmt)
            where = "%s:%s" % (f.file, line)
            key = "%s::%s format round-trips every value" % (f.record, f.name)
            if not m:
                chk.assumed("R3", key, where=where, detail="format %r not parsed" % fmt, variant=vn)
                continue
            # '*' takes the width / precision from the arguments that follow the format, in order
            stars = [g for g in (m.group(2), m.group(3)) if g == "*"]
            star_vals = []
            for k_ in range(len(stars)):
                a_ = rest[k_] if k_ < len(rest) else None
                while isinstance(a_, dict) and a_.get("k") == "cast" and a_.get("cv") is None:
                    a_ = a_.get("e") or a_.get("a")
                cv = a_.get("cv", a_.get("v") if a_.get("k") == "int" else None) if isinstance(a_, dict) else None
                star_vals.append(int(cv) if cv is not None and str(cv).lstrip("-").isdigit() else None)
            if m.group(3) == "*":
                prec = star_vals[-1]
                if prec is None:
                    chk.assumed("R3", key, where=where, detail="format %r takes its precision from a run-time argument" % fmt, variant=vn)
                    continue
                fmt = fmt.replace(".*", ".%d" % prec) + " (precision argument = %d)" % prec
            else:
                prec = int(m.group(3)) if m.group(3) is not None else None
            conv = m.group(5)
            if kind == "double":
                if conv in "aA":
                    ok = prec is None or prec >= 13
                elif conv in "eE":
                    ok = prec is not None and prec >= 16
                elif conv in "gG":
                    ok = prec is not None and prec >= 17
                elif conv in "fF":
                    ok = prec is not None and prec >= 29     # 17 significant digits down to 1e-12
                else:
                    ok = False
                p6 = 6 if prec is None else prec
                chk.require(ok, "R3", key, where=where,
                            ok="format %r keeps >= 17 significant digits" % fmt,
                            bad="format %r keeps %s digits after the point: 2^-25 is printed as %s" % (
                                fmt, p6, ("%%.%df" % p6) % 2 ** -25 if conv in "fF" else "fewer than 17 significant digits"),
                            variant=vn, data={"format": fmt})
            else:
                ok = conv in "di" and (m.group(4) in ("l", "ll", "j") or "PRId64" in fmt or True)
                chk.require(ok, "R3", key, where=where, ok="integer format %r is exact" % fmt,
                            bad="format %r is not an exact integer format" % fmt, variant=vn, nontrivial=False)
    for f in getters:
        kind = f.name[len("getProperty_"):]
        parsers = [n.get("callee") for n in walk(f.d.get("body")) if n.get("k") == "call" and n.get("callee")]
        want = {"double": ("std::stold", "std::stod", "strtod", "strtold", "std::strtod", "std::strtold"),
                "int64_t": ("std::stol", "std::stoll", "strtol", "strtoll", "std::strtol", "std::strtoll")}.get(kind, ())
        good = [p for p in parsers if p in want]
        chk.require(bool(good), "R3", "%s::%s parses with at least the written precision" % (f.record, f.name),
                    where=f.where, ok="parser %s" % good, bad="parsers found: %s" % parsers, variant=vn, nontrivial=False)


def mutable_fields(v):
    """(record, field) assigned or element-assigned outside constructors/destructors of the record"""
    out = {}
    for fn in v.defined():
        if not fn.file.startswith("libtfhe/"):
            continue
        for n in walk(fn.d.get("body")):
            tgt = None
            if n.get("k") == "assign":
                tgt = n.get("a")
            elif n.get("k") == "un" and n.get("op") in ("++", "--"):
                tgt = n.get("a")
            while isinstance(tgt, dict) and tgt.get("k") in ("index", "cast") or \
                    (isinstance(tgt, dict) and tgt.get("k") == "un" and tgt.get("op") == "*"):
                tgt = tgt.get("a")
            if isinstance(tgt, dict) and tgt.get("k") == "member" and tgt.get("record"):
                if fn.get("kind") in ("ctor", "dtor") and fn.get("record") == tgt["record"]:
                    continue
                # the library's lifecycle functions (init_X / new_X / clone_X / copy-construct helpers) build an X in raw storage:
                # what they assign is the object's initial state, like a constructor's
                import re as _re
                if _re.match(r"^(init|new|clone|copy|alloc)_%s(_array)?$" % _re.escape(tgt["record"]), fn.name or ""):
                    continue
                out.setdefault((tgt["record"], tgt["field"]), set()).add(fn.q)
    return out


def fields_read(v, eff, roots):
    """(record, field) pairs occurring in any term of the effect tree"""
    seen = set()

    def visit(t):
        if not isinstance(t, tuple) or not t:
            return
        if t[0] == "fld":
            rec = ioseq.record_of_field(v, t, roots)
            if rec:
                seen.add((rec, t[2]))
        if t[0] == "poly":
            for m, _ in t[1]:
                for a in m:
                    visit(a)
            return
        for a in t[1:]:
            if isinstance(a, tuple):
                if a and isinstance(a[0], str):
                    visit(a)
                else:
                    for b in a:
                        visit(b)
    for x in flat(eff):
        for k in ("lv", "val", "cond", "hi", "lo", "this", "ret"):
            if isinstance(x.get(k), tuple):
                visit(x[k])
        for a in x.get("args") or []:
            if isinstance(a, tuple):
                visit(a)
    return seen


def record_closure(v, rec):
    from rules.c17 import type_closure
    return type_closure(v, rec)[0]


def check_mirror(chk, v, rule, only_size=False):
    """R1 for every writer/reader pair, reported under `rule` (C18 re-evaluates it: a reader that requests fewer bytes than the
    writer wrote accepts an input truncated inside the part it never asks for)"""
    vn = v.name
    ioseq.find_primitives(v)
    for (tname, transport), pr in sorted(api.io_pairs(v).items()):
        W = view(v, pr["w"], deep=False)
        R = view(v, pr["r"], deep=True)
        where = "%s | %s" % (pr["w"].where, pr["r"].where)
        if not W["ops"] or not R["ops"]:
            chk.broken("no ops extracted for %s/%s" % (tname, transport))
        problems, nt = compare(chk, v, tname, W, R, where, vn)
        undecided_if_search_loops(tname, W, R, problems)
        key = "%s/%s: the reader consumes exactly what the writer produced" % (tname, transport)
        if problems:
            chk.refuted(rule, key, where=where, detail="; ".join(problems)[:900], variant=vn)
        else:
            chk.proved(rule, key, where=where, detail="%d ops compared" % sum(1 for _ in flat_ops(W["ops"])), variant=vn)


def check_reader_variances(chk, v, tname, R, where, rule="R7"):
    """Every ciphertext row (an LWE / TLWE sample inside the object) whose coefficients the reader fills also gets its advisory
    variance: read from the stream into that row, or assigned from the value stored once before the rows.  The rows filled and the
    rows given a variance are enumerated over the reader's loop nests (any order, direction or pointer walk) for the dimensions in
    1..2; a row left with the constructor's variance is a field of the re-imported object that differs from the original."""
    import itertools
    from sa import concrete
    from sa.symexec import flat
    from sa import summ as _summ
    filled, varied = [], []

    def row_of(t):
        """(static path signature, [subscript terms], row lvalue) of the sample a pointer / lvalue points into, or None"""
        while t and t[0] in ("addr", "cast"):
            t = t[1] if t[0] == "addr" else t[2]
        x = t
        row = None
        while isinstance(x, tuple) and x and x[0] in ("idx", "fld"):
            if x[0] == "fld" and x[2] in ("a", "b", "current_variance"):
                row = x[1]
            x = x[1]
        if row is None:
            return None
        subs, sig = [], []
        y = row
        while isinstance(y, tuple) and y and y[0] in ("idx", "fld"):
            if y[0] == "idx":
                subs.append(y[2])
                sig.append("[]")
            else:
                sig.append("." + y[2])
            y = y[1]
        return "".join(reversed(sig)), list(reversed(subs)), row
    for x, loops, guards, stack, pre in _summ.walk_all(R["eff"]):
        if x["e"] == "call" and x["name"].endswith("::fread") and len(x.get("args") or []) == 2 and isinstance(x["args"][0], tuple):
            r_ = row_of(x["args"][0])
            if r_ is not None:
                tgt = x["args"][0]
                is_var = any(st_[0] == "fld" and st_[2] == "current_variance" for st_ in sym.subterms(tgt))
                (varied if is_var else filled).append({"loops": loops, "guards": guards, "row": r_, "line": x["l"]})
        elif x["e"] == "store" and x["lv"][0] == "fld" and x["lv"][2] == "current_variance" and not x.get("ctor_init") and not stack_is_ctor(stack):
            r_ = row_of(x["lv"])
            if r_ is not None:
                varied.append({"loops": loops, "guards": guards, "row": r_, "line": x["l"]})
    if not filled:
        return
    key = "%s: every row the reader fills also receives its variance" % tname

    def leaves(t):
        """maximal non-arithmetic sub-terms: the quantities a bound or condition depends on"""
        if not isinstance(t, tuple) or not t or t[0] in ("int", "float", "str", "unk"):
            return
        if t[0] == "poly":
            for m_, _c in t[1]:
                for a_ in m_:
                    yield from leaves(a_)
        elif t[0] in ("op", "un", "cast", "cond"):
            for x_ in t[1:]:
                if isinstance(x_, tuple):
                    yield from leaves(x_)
        elif t[0] == "call" and t[1] == "$loop_end":
            for y_ in t[2][:3]:
                yield from leaves(y_)
        else:
            yield t
    dims = []
    for p_ in filled + varied:
        for l_ in p_["loops"]:
            if "var" not in l_:
                chk.broken("%s: a loop of the reader at line %s has no closed form" % (tname, l_.get("l")))
            for t_ in (l_["lo"], l_["hi"]):
                for a_ in leaves(sym.trip_counts_nonneg(t_)):
                    if a_ not in dims and a_[0] in ("fld", "sym", "prop") and not any(a_ == l2.get("var") for q_ in filled + varied for l2 in q_["loops"]):
                        dims.append(a_)
    if len(dims) > 7:
        chk.broken("%s: %d dimensions in the reader's loops" % (tname, len(dims)))
    wit = None
    try:
        for vals in itertools.product((1, 2), repeat=len(dims)):
            env = dict(zip(dims, vals))
            def rows(lst):
                out = set()
                for p_ in lst:
                    sig, subs, _row = p_["row"]
                    # (conditions on what was read -- tag tests that abort otherwise -- are taken; conditions on dimensions are evaluated)
                    lvs = {l_["var"] for l_ in p_["loops"]}
                    p2 = dict(p_, guards=[g_ for g_ in p_["guards"] if all(a_ in dims or a_ in lvs for a_ in leaves(g_))])
                    for tup in concrete.visited_tuples([p2], lambda q_: subs, env):
                        out.add((sig, tup))
                return out
            miss = rows(filled) - rows(varied)
            if miss:
                sig, tup = sorted(miss)[0]
                wit = "with %s: the row %s%s is filled (line %s) but its current_variance is never assigned: it keeps the constructor's value" % (
                    ", ".join("%s = %d" % (("the '%s' read from the stream" % d_[2]) if d_[0] == "prop" else sym.show(d_)[-30:], env[d_]) for d_ in dims) or "any dimensions",
                    sig, list(tup), filled[0]["line"])
                break
    except concrete.NotEvaluable as e:
        chk.broken("%s: reader rows not enumerable: %s" % (tname, e))
    chk.require(wit is None, rule, key, where=where, ok="%d fill site(s), %d variance site(s), enumerated for the dimensions in 1..2" % (len(filled), len(varied)),
                bad=wit or "", variant=v.name)
    chk.vcount(v.name, "%s.readers_with_rows" % rule)


def stack_is_ctor(stack):
    """inside an inlined constructor / init_ function (the object's default variance, not the reader's assignment)"""
    return any(("::" in n_ and n_.split("::")[-1] == n_.split("::")[-2]) or n_.startswith(("init_", "new_")) for n_ in stack)


def run(chk):
    prog = Program()
    chk.explanation = (
        "Writer/reader agreement of the serialisation layer decided on the op sequences that the symbolic "
        "executor folds out of every export_*/import_*/new_*_from* entry point (callees inlined, default-argument "
        "tests decided per call site): same order, tags, titles, keys with compatible kinds, same sizes and loop "
        "nests, each text property flowing into the field it was written from (constructors inlined), both "
        "transports identical, double format keeps 17 significant digits, every mutable field of a serialised "
        "record is read by its writer, FFT key image recomputed from the key read.")
    chk.trusted = ["clang 14 front end", "cmake compile database", "symbolic executor (sa/symexec.py)"]
    mut_cache = {}
    for v in prog.variants():
        vn = v.name
        chk.analysed["variants"] = chk.analysed.get("variants", 0) + 1
        ioseq.find_primitives(v)
        pairs = api.io_pairs(v)
        chk.set_count("R1.pairs", len(pairs))
        canon = {}
        mut = mutable_fields(v)
        for (tname, transport), pr in sorted(pairs.items()):
            W = view(v, pr["w"], deep=False)
            R = view(v, pr["r"], deep=True)
            where = "%s | %s" % (pr["w"].where, pr["r"].where)
            if not W["ops"] or not R["ops"]:
                chk.broken("no ops extracted for %s/%s" % (tname, transport))
            problems, nt = compare(chk, v, tname, W, R, where, vn)
            undecided_if_search_loops(tname, W, R, problems)
            key = "%s/%s writer and reader sequences mirror each other" % (tname, transport)
            nops = sum(1 for _ in flat_ops(W["ops"]))
            if problems:
                chk.refuted("R1", key, where=where, detail="; ".join(problems)[:900], variant=vn,
                            data={"writer": [show_op(o) for o in W["ops"]], "problems": problems})
            else:
                chk.proved("R1", key, where=where, detail="%d ops compared (%d with symbolic content): %s" % (
                    nops, nt, "; ".join(show_op(o) for o in W["ops"])[:300]), variant=vn)
            chk.count("R1.ops_compared", nops)
            if transport == "File":
                check_reader_variances(chk, v, tname, R, pr["r"].where)
            canon[(tname, transport)] = erase_streams(ioseq.normalize_serials(
                ([ioseq.canon_op(o, {}) for o in W["ops"]],
                 [ioseq.canon_op(o, object_paths(R["eff"], R["result"])) for o in R["ops"]])))
            # R4: mutable fields of the records this type is made of are read by the writer
            if transport == "File":
                objrec = ioseq._record_in_type(v, next((p["t"] for p in pr["w"].params
                                                       if ioseq._record_in_type(v, p["t"])), ""))
                if objrec:
                    roots = {OBJ: objrec + " *"}
                    ptypes = [p["t"] for p in pr["w"].params if ioseq._record_in_type(v, p["t"])]
                    if len(ptypes) > 1:
                        roots[PAR] = ptypes[1]
                    read = fields_read(v, W["eff"], roots)
                    closure = record_closure(v, objrec)
                    for (rec, fld), writers in sorted(mut.items()):
                        if rec not in closure or rec.endswith("FFT") or rec in ("LagrangeHalfCPolynomial_IMPL",):
                            continue
                        # FFT images are recomputed (R5), not serialised
                        k4 = "%s: mutable field %s::%s is read by the writer" % (tname, rec, fld)
                        if (rec, fld) in read:
                            chk.proved("R4", k4, where=pr["w"].where, detail="assigned by %d functions, e.g. %s" % (
                                len(writers), sorted(writers)[0]), variant=vn)
                        else:
                            # reachable only through a pointer the writer follows? check the field is reachable at all
                            chk.refuted("R4", k4, where=pr["w"].where,
                                        detail="field assigned by %s but never read while exporting %s" % (
                                            sorted(writers)[:3], tname), variant=vn)
        check_getline(chk, v)
        # R2: transports agree
        names = sorted({t for t, _ in pairs})
        for tname in names:
            a, b = canon.get((tname, "File")), canon.get((tname, "Stream"))
            if a is None or b is None:
                chk.refuted("R2", "%s has both transports" % tname, detail="missing transport", variant=vn)
                continue
            chk.require(a == b, "R2", "%s: File and Stream entry points perform the same op sequence" % tname,
                        where=pairs[(tname, "File")]["w"].where, ok="%d writer ops, %d reader ops identical" % (len(a[0]), len(a[1])),
                        bad="sequences differ between transports", variant=vn)
        for base in ("Istream", "Ostream"):
            pures = [f for f in v.decls.values() if f.get("record") == base and f.get("pure")]
            subs = [r for r in v.records.values() if any(base == b for b in r.get("bases", []))]
            chk.set_count("R2.stream_impls_" + base, len(subs))
            for r in subs:
                for pm in pures:
                    impl = [f for f in v.defined() if f.get("record") == r["name"] and pm.usr in f.get("overrides", [])]
                    chk.require(bool(impl), "R2", "%s overrides %s::%s" % (r["name"], base, pm.name),
                                where=r["loc"], ok=impl[0].where if impl else "", bad="no definition", variant=vn,
                                nontrivial=False)
        check_formats(chk, v)
        # R5: key-set readers recompute the FFT image from the key that was read
        for (tname, transport), pr in sorted(pairs.items()):
            ret_rec = ioseq._record_in_type(v, pr["r"].ret)
            if not ret_rec or "bkFFT" not in [f["n"] for r in record_closure(v, ret_rec) for f in v.records[r]["fields"]
                                              if r in (ret_rec, "TFheGateBootstrappingCloudKeySet")]:
                continue
            R = view(v, pr["r"], deep=True)
            paths = object_paths(R["eff"], R["result"])
            fft_calls = [x for x in flat(R["eff"]) if x["e"] == "call" and x.get("ret") is not None
                         and ioseq._record_in_type(v, (v.decls.get(x["usr"]).ret if x.get("usr") in v.decls else "")) == "LweBootstrappingKeyFFT"]
            chk.count("R5.keyset_readers")
            ok = False
            detail = "no call producing a LweBootstrappingKeyFFT"
            for c in fft_calls:
                src = c["args"][0] if c["args"] else None
                srcp = sym.subst(src, paths) if src is not None else None
                dstp = paths.get(c["ret"])
                detail = "%s(%s) stored at %s" % (c["name"], sym.show(srcp) if srcp else None, sym.show(dstp) if dstp else None)
                if srcp is not None and dstp is not None and sym.show(srcp).endswith("bk") and sym.show(dstp).endswith("bkFFT") \
                        and sym.show(srcp)[:-2] == sym.show(dstp)[:-5]:
                    ok = True
                    break
            chk.require(ok, "R5", "%s/%s: FFT image recomputed from the key just read" % (tname, transport),
                        where=pr["r"].where, ok=detail, bad=detail, variant=vn)


# ------------------------------------------------------------------------------ R6: getLine delivers whole lines
CHAR_SOURCES = ("fgetc", "getc", "std::fgetc", "std::getc")
BOUNDED_SOURCES = ("fgets", "std::fgets", "fread", "std::fread")


def check_getline(chk, v):
    """Every text property is one line `name: value`; the value of a real field needs up to 24 characters.  Each
    Istream::getLine must hand over every character of the line it consumes (only '\\r', the terminating '\\n' and EOF may be
    dropped): delegation to std::getline(stream, string), or a character loop in which every path that consumed a character
    appends it unless the path established that the character is '\\r', '\\n' or EOF; a bounded read (fgets, fread) of a
    fixed-size buffer cuts long lines and is accepted only when nothing consumed is discarded."""
    from sa.symexec import paths
    vn = v.name
    impls = [f for f in v.defined() if f.name == "getLine" and f.get("record") and
             any("Istream" in b for b in v.records.get(f.record, {}).get("bases", []))]
    chk.vcount(vn, "R6.getline_impls", len(impls))
    for f in impls:
        eff, st, ex = run_function(v, f, hooks=Hooks())
        key = "%s::getLine delivers every character of the line it consumes" % f.record
        calls = [x for x in flat(eff) if x["e"] == "call"]
        names = [x["name"] for x in calls]
        out = f.params[0]["n"]
        if any(n in ("std::getline", "getline") for n in names) and not any(n in CHAR_SOURCES + BOUNDED_SOURCES for n in names):
            gl = next(x for x in calls if x["name"] in ("std::getline", "getline"))
            ok = len(gl["args"]) == 2 and sym.root_of(gl["args"][1]) is not None and sym.root_of(gl["args"][1])[1] == out
            chk.require(ok, "R6", key, where=f.where, ok="std::getline(stream, %s): unbounded" % out,
                        bad="std::getline is not called on (stream, %s)" % out, variant=vn)
            continue
        problems = []
        bounded = [x for x in calls if x["name"] in BOUNDED_SOURCES]
        bounded_ok = set()
        for b in bounded:
            # accepted: the bounded read sits in a loop and every path that performed it appends the buffer to the output
            buf_root = sym.root_of(b["args"][0]) if b["args"] and b["args"][0] is not None else None
            for lp in [x for x in flat(eff) if x["e"] in ("while", "loop")]:
                body = lp["body"] + (lp.get("latch") or [])
                cond_calls = [y for y in flat(body) if y is b]
                in_cond = b["ret"] is not None and sym.contains(lp.get("cond") or ("int", 0), b["ret"])
                if not cond_calls and not in_cond:
                    continue
                good = True
                for leaves, conds, status in paths(body):
                    if not in_cond and not any(y is b for y in leaves):
                        continue
                    app = any(y["e"] == "call" and re.search(r"::(append|operator\+=|push_back)$", y["name"]) and
                              sym.root_of(y.get("this") or ("int", 0)) is not None and sym.root_of(y["this"])[1] == out and
                              any(a is not None and buf_root is not None and sym.root_of(a) == buf_root for a in y["args"]) for y in leaves)
                    if not app:
                        good = False
                if good:
                    bounded_ok.add(id(b))
            if id(b) in bounded_ok:
                continue
            sz = b["args"][1] if b["name"].endswith("fgets") else None
            problems.append("%s at line %s reads at most %s characters into a fixed buffer and is not in a loop that appends every buffer-full to %s" % (
                b["name"], b["l"], sym.show(sz) if sz is not None else "n", out))
        bounded = [b for b in bounded if id(b) not in bounded_ok]
        # character variables: locals assigned from a character source
        cvars = {("var", x["name"], x["id"]) for x in flat(eff) if x["e"] == "local" and isinstance(x.get("val"), tuple)
                 and x["val"][0] == "call" and x["val"][1] in CHAR_SOURCES}
        # ... and the value of a character-source call used directly (a variable assigned inside the loop condition carries it)
        cvalues = {x["ret"] for x in calls if x["name"] in CHAR_SOURCES and isinstance(x.get("ret"), tuple) and x["ret"][0] == "call"}
        # one character = the variable it is read into together with the value of the call (a variable assigned inside the loop
        # condition carries the value term)
        aliases = {}
        for x in flat(eff):
            if x["e"] == "local" and isinstance(x.get("val"), tuple) and x["val"] in cvalues:
                aliases.setdefault(("var", x["name"], x["id"]), set()).add(x["val"])
        cvars |= {cv for cv in cvalues if not any(cv in al for al in aliases.values())}
        if not cvars and not bounded and not bounded_ok:
            chk.broken("%s::getLine: no character source recognised (%s)" % (f.record, names[:5]))
        SKIP = {-1, 10, 13}
        discarded = []
        for x in flat(eff):
            if x["e"] not in ("while", "loop"):
                continue
            body = x["body"] + (x.get("latch") or [])
            src_in_loop = any(y["e"] == "local" and ("var", y["name"], y["id"]) in cvars for y in flat(body)) or \
                any(sym.contains(x.get("cond") or ("int", 0), c) for c in cvars)
            if not src_in_loop:
                continue
            # conditions that must hold to enter the body
            entry = x.get("cond")
            for leaves, conds, status in paths(body):
                for c in cvars:
                    same = {c} | aliases.get(c, set())
                    excused = False
                    for cnd, pol, line in conds:
                        if cnd[0] == "op" and cnd[1] in ("==", "!=") and (cnd[2] in same or cnd[3] in same):
                            other = cnd[3] if cnd[2] in same else cnd[2]
                            kv = sym.const_value(other)
                            if kv in SKIP and pol == (cnd[1] == "=="):
                                excused = True
                    appended = any(y["e"] == "call" and re.search(r"::(push_back|append|operator\+=)$", y["name"]) and
                                   sym.root_of(y.get("this") or ("int", 0)) is not None and sym.root_of(y["this"])[1] == out and
                                   any(a is not None and any(sym.contains(a, c_) for c_ in same) for a in y["args"]) for y in leaves)
                    if not excused and not appended:
                        discarded.append("a character read into '%s' is dropped on the loop path with conditions %s (loop at line %s)" % (
                            c[1] if c[0] == "var" else sym.show(c), [("" if pol else "!") + sym.show(cnd) for cnd, pol, _ in conds] or "none", x["l"]))
        problems += sorted(set(discarded))[:2]
        if bounded and not discarded:
            # a bounded read whose remainder is not discarded: cannot be decided here
            chk.broken("%s::getLine: bounded read %s without a discarding loop is not analysed" % (f.record, bounded[0]["name"]))
        chk.require(not problems, "R6", key, where=f.where,
                    ok="every consumed character other than CR / LF / EOF is appended to %s (%s)" % (
                        out, "character loop" if cvars else "bounded reads in a loop, each buffer-full appended"),
                    bad="; ".join(problems)[:600] + " -- a line longer than the buffer (a 17-digit real with exponent is 33 characters) loses its tail silently",
                    variant=vn)
