"""C04 — bootstrapping maps the rounded input phase through the test polynomial exactly.

Decides (both the *_FFT and the coefficient variants, which must yield the same summary): R1 the rounded-mask
scratch array holds n entries; R2 b and every a[i], i in [0,n), are switched to modulus 2N; R3 the accumulator
starts as X^(2N-barb)*v (copy when barb = 0) and each CMux step i multiplies by X^(+bara_i) under key bit i, over all
i in [0,n) skipping only bara_i = 0, with ping-pong buffers copied back; R4 extraction of coefficient 0 with the
negacyclic reversal map; R5 monomial multiplication is the index map (i-a) mod N with sign (-1)^wraps; R6 the test
vector is mu in all N coefficients; R7 bootstrap = woKS into a private sample of the extracted dimension, then key switch.
Not decided: output noise; that the external product multiplies (C09).
R8 the FFT bootstrapping key is a complete conversion: its key-switching key copy has the source key's (n = k*N, t,
basebit) and every row, and all n bootstrapping rows are converted (sibling agreement with init_LweBootstrappingKey).
R9 the bootstrap consumes its input sample only through modSwitchFromTorus32(., 2N) and writes its result only through the
rotate-and-extract call (the output is a function of the rounded phase).
"""
from sa import bounds, summ, sym
from sa.facts import Program, walk
from sa.sym import I, ZERO
from rules import c11, c14

P = lambda p, f: sym.arrow(sym.sym(p), f)
NOINLINE = summ.LOCAL_HELPERS


def calls_of(ps):
    return [p for p in ps if p["kind"] == "call" and not p["eff"].get("noreturn")]


def blind_rotate_by_unrolling(v, h, suffix):
    """Fallback when the rotation is not one CMux call in one counted loop (e.g. the non-zero exponents are consumed two at a time
    by scanning loops): the function is interpreted for n in 0..4 and EVERY zero / non-zero pattern of bara[0..n) -- with n and
    the pattern fixed every loop test is decided, so the executor unrolls the loops -- and the sequence of calls must be: for
    each non-zero position in increasing order one CMux(other buffer <- buffer holding the value, bk+i, bara[i]), and the value
    must end in accum (copied back exactly when it is in the scratch sample).  -> (True, detail) | (False, witness) | (None, reason)"""
    import itertools
    from sa.symexec import run_function, flat, Hooks
    hacc, hbk, hbara, hn, hpar = [p["n"] for p in h.params]
    ACC, BK, BARA = sym.sym(hacc), sym.sym(hbk), sym.sym(hbara)
    muxname = "tfhe_MuxRotate" + suffix
    n_runs = 0
    for nv in range(0, 5):
        for pattern in itertools.product((False, True), repeat=nv):          # True = non-zero exponent
            class H(Hooks):
                def want_inline(self, ex, callee, node):
                    return NOINLINE.want_inline(ex, callee, node)

                def decide(self, ex, cond):
                    c_ = sym.const_value(cond)
                    if c_ is not None:
                        return bool(c_)
                    if cond[0] == "op" and cond[1] in ("==", "!=") and ZERO in (cond[2], cond[3]):
                        x_ = cond[3] if cond[2] == ZERO else cond[2]
                        if x_[0] == "idx" and x_[1] == BARA and sym.const_value(x_[2]) is not None and 0 <= sym.const_value(x_[2]) < nv:
                            nz = pattern[sym.const_value(x_[2])]
                            return nz if cond[1] == "!=" else not nz
                    if cond[0] == "op" and cond[1] in ("&&", "||"):
                        a_, b_ = self.decide(ex, cond[2]), self.decide(ex, cond[3])
                        if a_ is not None and b_ is not None:
                            return (a_ and b_) if cond[1] == "&&" else (a_ or b_)
                    return None
            args = [None, None, None, I(nv), None]
            eff, st, ex = run_function(v, h, hooks=H(), args=args, concrete={("sym", "$unroll"): 1})
            calls = []
            for x in flat(eff):
                if x["e"] in ("while", "loop", "unknown", "asm"):
                    return None, "a loop of %s does not unroll for n = %d, pattern %s" % (h.name, nv, pattern)
                if x["e"] == "if":
                    return None, "an undecided branch (%s) remains for n = %d" % (sym.show(x["cond"])[:60], nv)
                if x["e"] == "call" and not x.get("noreturn"):
                    calls.append(x)
            n_runs += 1
            pat = "".join("x" if b_ else "0" for b_ in pattern) or "-"
            C = ACC
            want_pos = [i_ for i_, b_ in enumerate(pattern) if b_]
            muxes = [x for x in calls if x["name"] == muxname]
            if len(muxes) != len(want_pos):
                return False, "with n = %d and the zero pattern %s (x = non-zero) %d CMux steps are made, %d exponents are non-zero" % (nv, pat, len(muxes), len(want_pos))
            for x, i_ in zip(muxes, want_pos):
                d, s_, row, ex_ = x["args"][:4]
                if s_ != C:
                    return False, "with n = %d, pattern %s: the step for i = %d reads %s but the value is in %s" % (nv, pat, i_, sym.show(s_)[:30], sym.show(C)[:30])
                if d == s_ or (d != ACC and d[0] != "obj"):
                    return False, "with n = %d, pattern %s: the step for i = %d writes %s while reading %s" % (nv, pat, i_, sym.show(d)[:30], sym.show(s_)[:30])
                if row != sym.padd(BK, I(i_)) or ex_ != sym.idx(BARA, I(i_)):
                    return False, "with n = %d, pattern %s: step %d uses key row %s and exponent %s, expected bk+%d, bara[%d]" % (
                        nv, pat, i_, sym.show(row)[:30], sym.show(ex_)[:30], i_, i_)
                C = d
            copies = [x for x in calls if x["name"] == "tLweCopy" and x["args"][0] == ACC]
            if C != ACC and not (len(copies) == 1 and copies[0]["args"][1] == C and calls.index(copies[0]) > calls.index(muxes[-1])):
                return False, "with n = %d, pattern %s: the value ends in %s and is not copied back to accum" % (nv, pat, sym.show(C)[:30])
            if C == ACC and copies:
                return False, "with n = %d, pattern %s: the value is already in accum but accum is overwritten from %s" % (nv, pat, sym.show(copies[0]["args"][1])[:30])
    return True, "interpreted for n in 0..4 and all %d zero / non-zero patterns: one CMux(bk+i, bara[i]) per non-zero position in order, reading the buffer that holds the value; value back in accum at the end" % n_runs


def check_blind_rotate(chk, v, suffix, rule):
    """Blind rotation as a transition system (sa/loopstate.py): the loop body is interpreted once per reachable value of the
    loop-carried variables (the buffer pointers or the index that selects them) and per control path.  A ghost cell C
    names the buffer that holds the accumulator value: C = accum at entry; a step must read C, write the other buffer and
    use row bk+i with exponent bara[i]; C follows the destination.  At every possible exit the value must be in accum:
    copied back exactly when C is not accum.  Independent of how the ping-pong is written (swap, toggled index, ...)."""
    from sa import loopstate, pam
    from sa.symexec import flat
    vn = v.name
    h = v.fn("tfhe_blindRotate" + suffix)
    hacc, hbk, hbara, hn, hpar = [p["n"] for p in h.params]
    ACC, BK, BARA, NN = sym.sym(hacc), sym.sym(hbk), sym.sym(hbara), sym.sym(hn)
    muxname = "tfhe_MuxRotate" + suffix
    key = "%s: every i in [0,n) with bara_i != 0 applies CMux(bk_i, X^bara_i) with ping-pong buffers" % h.name
    hps, heff = summ.pieces(v, h, hooks=NOINLINE)
    mux_p = [c for c in calls_of(hps) if c["name"] == muxname]
    problems = []
    if any(p["kind"] in ("while", "unknown") for p in hps) or len(mux_p) != 1 or len(mux_p[0]["loops"]) != 1 or "var" not in mux_p[0]["loops"][0]:
        oku, detu = blind_rotate_by_unrolling(v, h, suffix)
        if oku is None:
            chk.broken("%s: expected one %s call inside one counted loop; %s" % (h.name, muxname, detu))
        chk.require(oku, rule, key, where=h.where, ok=detu, bad=detu, variant=vn)
        return
    lp = mux_p[0]["loops"][0]
    rng = pam.ascending_range(lp)
    if rng is None:
        chk.broken("%s: rotation loop at line %s is not a unit-stride counted loop" % (h.name, lp.get("l")))
    if rng != (ZERO, NN):
        problems.append("rotation loop covers [%s, %s), expected [0,n): the mask coefficients outside it never rotate the accumulator" % (
            sym.show(rng[0]), sym.show(rng[1])))
    has_mux = lambda node: any(c.get("callee") == muxname for c in walk(node) if c.get("k") == "call")
    try:
        ts = loopstate.LoopMachine(v, h, has_mux, hooks=NOINLINE).explore()
    except LookupError as e:
        chk.broken(str(e))
    i = ts["var"]
    if i is None:
        chk.broken("%s: induction variable of the rotation loop not found" % h.name)
    barai = sym.idx(BARA, i)
    names = ts["names"]

    from sa.secretflow import eval_term
    BARA_VALUES = (0, 1, 2, 3, 5, 1023, 1024, 1025, 2047)      # exponents in [0, 2N): 0, small, around N, 2N-1 (N = 1024)

    def takes_path(asked):
        """exponent values (from BARA_VALUES) for which this control path is taken; None when a condition involves anything but
        the exponent bara[i]"""
        out = []
        vals = set(BARA_VALUES)
        for cond, _ in asked:
            for st in sym.subterms(cond):
                if st[0] == "int":
                    vals |= {st[1] - 1, st[1], st[1] + 1}        # the comparisons change truth value only next to their constants
        for b in sorted(x for x in vals if 0 <= x < 2048):
            ok = True
            for cond, choice in asked:
                val = eval_term(cond, {barai: b})
                if val is None:
                    return None
                if bool(val) != choice:
                    ok = False
            if ok:
                out.append(b)
        return out

    def distinct(a, b):
        return loopstate.static_decide(("op", "!=", a, b))
    seen = {(ts["init"], ACC)}
    work = [(ts["init"], ACC)]
    nsteps = 0
    while work and not problems:
        s, C = work.pop()
        for s0, asked, out, st, nxt in ts["steps"]:
            if s0 != s:
                continue
            nsteps += 1
            taken = takes_path(asked)
            if taken is None:
                chk.broken("%s: the rotation step depends on %s" % (h.name, [sym.show(c) for c, ch in asked]))
            if not taken:
                continue                   # not taken for any exponent: a dead path
            nonzero_taken = [b for b in taken if b != 0]
            nonzero = False if not nonzero_taken else True
            calls = [x for x in flat(out) if x["e"] == "call" and not x.get("noreturn")]
            mux = [x for x in calls if x["name"] == muxname]
            if st not in ("fall", "continue"):
                chk.broken("%s: the rotation loop is left by '%s' in state %s" % (h.name, st, loopstate.show_state(s, names)))
            if nonzero and len(mux) != 1:
                problems.append("an iteration with bara[i] = %d makes %d CMux steps (path %s, line %s): the accumulator is not rotated by that "
                                "exponent" % (nonzero_taken[0], len(mux), " and ".join("%s%s" % ("" if ch else "not ", sym.show(c)) for c, ch in asked) or "-",
                                              lp.get("l")))
                break
            C2 = C
            if mux:
                if len(mux) > 1:
                    problems.append("an iteration makes %d CMux steps" % len(mux))
                    break
                d, s_, row, ex_ = mux[0]["args"][:4]
                if s_ != C:
                    problems.append("a step reads %s but the accumulator value is in %s (carried state %s, line %s): the step works on a stale buffer" % (
                        sym.show(s_)[:40], sym.show(C)[:40], loopstate.show_state(s, names), mux[0]["l"]))
                    break
                if distinct(d, s_) is not True:
                    problems.append("a step writes %s while reading %s (line %s): source and destination of the CMux must be different buffers" % (
                        sym.show(d)[:40], sym.show(s_)[:40], mux[0]["l"]))
                    break
                if d != ACC and d[0] != "obj":
                    problems.append("a step writes to %s, which is neither accum nor a sample allocated here" % sym.show(d)[:40])
                    break
                if ex_ != barai or row != sym.padd(BK, i):
                    problems.append("step i uses exponent %s and key row %s; expected bara[i], bk+i" % (sym.show(ex_), sym.show(row)))
                    break
                C2 = d
            if (nxt, C2) not in seen:
                seen.add((nxt, C2))
                work.append((nxt, C2))
    nexits = 0
    for s, C in sorted(seen, key=repr):
        if problems:
            break
        for s0, asked, out, st in ts["exits"]:
            if s0 != s:
                continue
            nexits += 1
            calls = [x for x in flat(out) if x["e"] == "call" and not x.get("noreturn")]
            copies = [x for x in calls if x["name"] == "tLweCopy" and x["args"][0] == ACC]
            frees = [k for k, x in enumerate(calls) if x["name"].startswith("delete_") and x["args"] and x["args"][0] == C]
            away = distinct(C, ACC)
            if away is None:
                chk.broken("%s: cannot tell whether %s is accum" % (h.name, sym.show(C)))
            cond_txt = " (taking %s)" % ", ".join("%s%s" % ("" if ch else "not ", sym.show(c)) for c, ch in asked) if asked else ""
            if away:
                good = [x for x in copies if x["args"][1] == C]
                if len(good) != 1 or len(copies) != 1:
                    problems.append("after an odd number of steps the accumulator value is in %s (carried state %s) but it is %s%s: the caller reads a stale accum" % (
                        sym.show(C)[:40], loopstate.show_state(s, names),
                        "not copied back to accum" if not copies else "overwritten from %s" % [sym.show(x["args"][1])[:30] for x in copies], cond_txt))
                elif frees and frees[0] < calls.index(good[0]):
                    problems.append("the buffer holding the result is deleted before it is copied back")
            elif copies:
                problems.append("the accumulator value is already in accum (carried state %s) but accum is overwritten from %s%s" % (
                    loopstate.show_state(s, names), [sym.show(x["args"][1])[:30] for x in copies], cond_txt))
    chk.require(not problems, rule, key, where=h.where,
                ok="%d carried states, %d (state, path) steps, %d exits: each step reads the buffer holding the value, writes the other one with "
                   "(bk+i, bara[i]); skipped iff bara[i] == 0; value copied back to accum exactly when it ends in the scratch sample" % (
                       len(ts["states"]), nsteps, nexits),
                bad="; ".join(problems)[:700], variant=vn)


def run(chk):
    prog = Program()
    chk.explanation = (
        "The bootstrapping pipeline is checked as a chain of shape facts on the summarised functions of both the FFT "
        "and the coefficient implementation: extents of the rounded-mask array (symbolic n, N), arguments of the "
        "modulus switch, the exponent handed to the monomial multiplication, the CMux loop range and ping-pong "
        "discipline, the extraction index map and the final key switch. Together with C11.R1 and C14.R5 (re-evaluated "
        "here) these give: coefficient p of the anticyclic extension of the constant test polynomial is +mu for "
        "p in [0,N) and -mu for p in [N,2N).")
    chk.trusted = ["clang 14 front end", "summariser", "affine prover"]
    for v in prog.variants():
        chk.analysed["variants"] = chk.analysed.get("variants", 0) + 1
        evaluate(chk, v, ("_FFT", ""))
        check_fft_key(chk, v)
        # R4 / R5: shared analyses evaluated here as well (rule ids of this property)
        c14.check_extraction(chk, v, rule="R4")
        c11_chk = _Sub(chk, "R5")
        c11.check_monomial(c11_chk, v, "torusPolynomialMulByXai", "coefsT", False)
        # every CMux of the rotation multiplies the whole accumulator (all k+1 components) by X^ai - 1
        c11.check_monomial(c11_chk, v, "torusPolynomialMulByXaiMinusOne", "coefsT", True)
        c14.check_tlwe_monomial(c11_chk, v)


def evaluate(chk, v, suffixes):
    """the bootstrapping chain rules R1, R2, R3, R6, R7 for the given implementation variants"""
    if True:
        vn = v.name
        summaries = {}
        for suffix in suffixes:
            tag = "FFT" if suffix else "coef"
            # ---------------- woKS: R1, R2, R6
            f = v.fn("tfhe_bootstrap_woKS" + suffix)
            res, bk, mu, x = [p["n"] for p in f.params]
            N = sym.arrow(P(bk, "accum_params"), "N")
            n = sym.arrow(P(bk, "in_out_params"), "n")
            reqs = bounds.Requirements(v)
            obs, narr = bounds.check_function(v, f, reqs, bounds.ctor_relations(v))
            got = [o for o in obs if "new int[" in o["key"]]
            if not got:
                chk.broken("%s: rounded-mask array accesses not found" % f.name)
            for o in got:
                chk.ob("R1", o["key"], o["status"], where=o["where"], detail=o["detail"], variant=vn, data=o.get("data"))
            chk.vcount(vn, "R1.scratch_obligations", len(got))
            ps, _ = summ.pieces(v, f, hooks=NOINLINE)
            # a modulus switch expanded by hand (interval hoisted out of the loop) is the call it stands for
            ps = summ.fold_inline_calls(v, ps, ("modSwitchFromTorus32",))
            loc = {p["name"]: p for p in ps if p["kind"] == "local"}
            stores = [p for p in ps if p["kind"] == "store"]
            cs = calls_of(ps)
            br = [c for c in cs if c["name"] == "tfhe_blindRotateAndExtract" + suffix]
            if len(br) != 1:
                chk.broken("%s: expected one call to tfhe_blindRotateAndExtract%s" % (f.name, suffix))
            a = br[0]["args"]
            twoN = sym.mul(I(2), N)
            want_barb = ("call", "modSwitchFromTorus32", (P(x, "b"), twoN))
            bara_st = [p for p in stores if p["val"][0] == "call" and p["val"][1] == "modSwitchFromTorus32" and p["lv"][0] == "idx" and p["lv"][1] == a[4]]
            problems = []
            if a[3] != want_barb:
                problems.append("barb is %s, expected modSwitchFromTorus32(x->b, 2N)" % sym.show(a[3]))
            if not bara_st:
                problems.append("no rounded-mask statement bara[i] = modSwitchFromTorus32(x->a[i], 2N)")
            else:
                # every statement rounds the mask coefficient of its own position; together they visit [0, n) exactly once
                from sa import coverage
                terms = []
                for s in bara_st:
                    pos = s["lv"][2]
                    if s["op"] != "=" or s["val"] != ("call", "modSwitchFromTorus32", (sym.idx(P(x, "a"), pos), twoN)):
                        problems.append("mask statement '%s': expected bara[i] = modSwitchFromTorus32(x->a[i], 2N)" % summ.show_piece(s)[:140])
                        continue
                    if len(s["loops"]) > 1:
                        chk.broken("%s: rounded-mask statement at line %s is in a loop nest" % (f.name, s["line"]))
                    # (conditions under which the whole rotate-and-extract pipeline runs, e.g. after an early return, are not
                    # coverage conditions)
                    own = [g_ for g_ in s["guards"] if g_ not in br[0]["guards"]]
                    if s["loops"]:
                        terms.append((s["loops"][0], pos, 1, own))
                    else:
                        u = sym.sym("u@%s" % s["line"])
                        terms.append(({"var": u, "lo": pos, "cmp": "<", "hi": sym.add(pos, I(1)), "step": I(1), "l": s["line"]}, u, 1, own))
                if not problems:
                    stc, detc = coverage.cover_1d(terms, n)
                    if stc == "unknown":
                        chk.broken("%s: rounded-mask statements: %s" % (f.name, detc))
                    if stc == "refuted":
                        problems.append("the rounded-mask statements do not fill bara[0..n) exactly once: %s" % detc)
            if a[5] != n:
                problems.append("rotation count %s is not n" % sym.show(a[5]))
            chk.require(not problems, "R2", "%s: b and every a[i], i < n, are rounded to modulus 2N" % f.name, where=f.where,
                        ok="barb = switch(x->b, 2N); bara[i] = switch(x->a[i], 2N), i in [0,n); n rotations requested",
                        bad="; ".join(problems), variant=vn)
            tv = [p for p in stores if p["loops"] and p["val"] == sym.sym(mu)]
            # single elements completing the fill (a remainder store after a loop over both halves)
            tv += [p for p in stores if tv and not p["loops"] and p["val"] == sym.sym(mu) and p["lv"][0] == "idx" and p["lv"][1] == tv[0]["lv"][1]]
            from sa import coverage
            common = [g_ for g_ in (tv[0]["guards"] if tv else []) if all(g_ in p["guards"] for p in tv)]
            ok6 = bool(tv) and all(len(p["loops"]) <= 1 and p["lv"][0] == "idx" and p["lv"][1] == tv[0]["lv"][1] for p in tv) \
                and sym.show(a[1]) in sym.show(tv[0]["lv"][1])
            why6 = "statements: %s" % [summ.show_piece(p)[:100] for p in tv]
            if ok6:
                terms6 = []
                for p in tv:
                    own = [g_ for g_ in p["guards"] if g_ not in common]
                    if p["loops"]:
                        terms6.append((p["loops"][0], p["lv"][2], 1, own))
                    else:
                        u6 = sym.sym("u@%s" % p["line"])
                        terms6.append(({"var": u6, "lo": p["lv"][2], "cmp": "<", "hi": sym.add(p["lv"][2], I(1)), "step": I(1), "l": p["line"]}, u6, 1, own))
                tv = [dict(p, guards=common) for p in tv]
                st6, det6 = coverage.cover_1d(terms6, N)
                if st6 == "unknown":
                    chk.broken("%s: test vector fill: %s" % (f.name, det6))
                if st6 == "refuted":
                    ok6, why6 = False, "the fill does not reach every coefficient: %s (n = N)" % det6
            if ok6 and tv[0]["guards"] and tv[0]["guards"] != br[0]["guards"] and \
                    any(a_[0] == "glob" for g_ in tv[0]["guards"] for a_ in sym.atoms(g_)):
                # a test vector kept between calls and refilled on demand: whether it holds mu when the fill is skipped is an
                # invariant of the cache over call histories (what the guard's static cells hold), not a fact of one call
                if not any(sym.contains(g_, sym.sym(mu)) for g_ in tv[0]["guards"]):
                    # the condition of the fill does not look at mu at all: two calls with the same N and different mu -- the
                    # second one skips the fill and rotates the first one's contents
                    chk.refuted("R6", "%s: the test vector holds mu in all N coefficients on every call" % f.name, where=f.where, variant=vn,
                                detail="the test vector is kept between calls and filled only when %s, a condition that does not mention mu: "
                                       "call once with mu = 1/8 and again (same key) with mu = 1/4 -- the second call skips the fill and "
                                       "rotates a vector holding 1/8" % " && ".join(sym.show(g) for g in tv[0]["guards"])[:200])
                    continue
                chk.broken("%s: the test vector is kept between calls and filled only when %s: whether it holds mu on every call is an "
                           "invariant of that cache over call histories, not decided" % (f.name, " && ".join(sym.show(g) for g in tv[0]["guards"])[:200]))
            if ok6 and tv[0]["guards"] and tv[0]["guards"] != br[0]["guards"]:
                # (a fill under exactly the conditions of its consumer, e.g. after the early return of a shortcut path, is complete)
                ok6 = False
                why6 = "the test vector is filled only when %s, but rotated and extracted when %s: a later call with another mu reuses the old contents" % (
                    " && ".join(sym.show(g) for g in tv[0]["guards"]), " && ".join(sym.show(g) for g in br[0]["guards"]) or "always")
            if ok6 and not (tv[0]["line"] < br[0]["line"]):
                ok6, why6 = False, "the test vector is filled after it is used"
            if ok6 and sym.root_of(a[1]) is not None and sym.root_of(a[1])[0] == "glob":
                ok6, why6 = False, "the test vector %s is a static object shared between calls" % sym.show(a[1])
            chk.require(ok6, "R6", "%s: the test vector holds mu in all N coefficients on every call" % f.name, where=f.where,
                        ok="testvect->coefsT[i] = mu over [0,N), unconditionally, passed as v", bad=why6, variant=vn)
            # ---------------- R9 the result is a function of the rounded phase only
            check_input_dependence(chk, v, f, ps, x, br[0])
            ok_args = a[0] == sym.sym(res) and a[6] == P(bk, "bk_params")
            # ---------------- blindRotateAndExtract: R3a, R4
            g = v.fn("tfhe_blindRotateAndExtract" + suffix)
            gres, gv, gbk, gbarb, gbara, gn, gpar = [p["n"] for p in g.params]
            gps, _ = summ.pieces(v, g, hooks=NOINLINE)
            gcs = calls_of(gps)
            byname = {}
            for c in gcs:
                byname.setdefault(c["name"], []).append(c)
            gN = sym.arrow(P(gpar, "tlwe_params"), "N")
            problems = []
            mx = byname.get("torusPolynomialMulByXai", [])
            cp = byname.get("torusPolynomialCopy", [])
            BARB = sym.sym(gbarb)
            if len(mx) != 1 or len(cp) != 1:
                # the rotated test vector is built some other way (coefficients moved directly, ...): by interpretation
                wit = rotated_testvector_by_interpretation(chk, v, g, suffix)
                if wit:
                    problems.append(wit)
            else:
                want_exp = sym.sub(sym.mul(I(2), gN), BARB)
                if mx[0]["args"][1] != want_exp or mx[0]["args"][2] != sym.sym(gv):
                    problems.append("test vector multiplied by X^(%s), expected X^(2N - barb)" % sym.show(mx[0]["args"][1]))
                gm, gc = mx[0]["guards"], cp[0]["guards"]
                nz = sym.binop("!=", BARB, ZERO)
                if gm != [nz] or gc != [sym.unop("!", nz)]:
                    problems.append("guards are %s / %s, expected barb != 0 / barb == 0" % ([sym.show(t) for t in gm], [sym.show(t) for t in gc]))
                if mx[0]["args"][0] != cp[0]["args"][0] or cp[0]["args"][1] != sym.sym(gv):
                    problems.append("the two alternatives do not fill the same polynomial from v")
            triv = byname.get("tLweNoiselessTrivial", [])
            rot = byname.get("tfhe_blindRotate" + suffix, [])
            ext = byname.get("tLweExtractLweSample", [])
            if len(triv) != 1 or len(rot) != 1 or len(ext) != 1:
                problems.append("expected trivial-accumulator, blind rotation and extraction calls (%d/%d/%d)" % (len(triv), len(rot), len(ext)))
            else:
                acc = triv[0]["args"][0]
                if mx and triv[0]["args"][1] != mx[0]["args"][0]:
                    problems.append("the accumulator is not initialised from the rotated test vector")
                if rot[0]["args"][:4] != [acc, sym.sym(gbk), sym.sym(gbara), sym.sym(gn)]:
                    problems.append("blind rotation called on %s" % [sym.show(t) for t in rot[0]["args"][:4]])
                if ext[0]["args"][:2] != [sym.sym(gres), acc]:
                    problems.append("extraction reads %s" % sym.show(ext[0]["args"][1]))
                if not (triv[0]["line"] < rot[0]["line"] < ext[0]["line"]):
                    problems.append("calls are out of order")
            chk.require(not problems, "R3", "%s: accumulator = X^(2N-barb)*v (copy when barb = 0), rotated by the n mask exponents, then extracted" % g.name,
                        where=g.where, ok="MulByXai(2N - barb) | Copy; trivial accumulator; blindRotate(acc, bk, bara, n); extract",
                        bad="; ".join(problems), variant=vn)
            # ---------------- blindRotate: R3b
            check_blind_rotate(chk, v, suffix, "R3")
            # ---------------- bootstrap: R7
            b = v.fn("tfhe_bootstrap" + suffix)
            bres, bbk, bmu, bx = [p["n"] for p in b.params]
            bps, _ = summ.pieces(v, b, hooks=NOINLINE)
            bcs = calls_of(bps)
            nw = [c for c in bcs if c["name"] == "new_LweSample"]
            wk = [c for c in bcs if c["name"] == "tfhe_bootstrap_woKS" + suffix]
            ks = [c for c in bcs if c["name"] == "lweKeySwitch"]
            problems = []
            if len(nw) != 1 or len(wk) != 1 or len(ks) != 1:
                problems.append("expected new_LweSample, woKS and lweKeySwitch (%d/%d/%d)" % (len(nw), len(wk), len(ks)))
            else:
                u = nw[0]["eff"]["ret"]
                ext_params = sym.addr(sym.fld(sym.idx(P(bbk, "accum_params"), ZERO), "extracted_lweparams"))
                if nw[0]["args"][0] != ext_params:
                    problems.append("the intermediate sample is allocated with %s, not the extracted parameters" % sym.show(nw[0]["args"][0]))
                if wk[0]["args"] != [u, sym.sym(bbk), sym.sym(bmu), sym.sym(bx)]:
                    problems.append("woKS called on %s" % [sym.show(t)[:20] for t in wk[0]["args"]])
                if ks[0]["args"] != [sym.sym(bres), P(bbk, "ks"), u]:
                    problems.append("key switch called on %s" % [sym.show(t)[:20] for t in ks[0]["args"]])
                if not wk[0]["line"] < ks[0]["line"]:
                    problems.append("key switch precedes the bootstrap")
            chk.require(not problems, "R7", "%s = woKS into a private sample of the extracted dimension, then lweKeySwitch(result, bk->ks, u)" % b.name,
                        where=b.where, ok="u = new_LweSample(&accum_params->extracted_lweparams); woKS(u, bk, mu, x); lweKeySwitch(result, bk->ks, u)",
                        bad="; ".join(problems), variant=vn)
            chk.vcount(vn, "R7.bootstrap_variants")


def rotated_testvector_by_interpretation(chk, v, g, suffix):
    """tfhe_blindRotateAndExtract*: the polynomial handed to tLweNoiselessTrivial must be X^(-barb)*v mod X^N+1.  The function is
    interpreted for N in {1, 2, 4, 8, 16} and every barb in [0, 2N) with v's coefficients as indeterminates (sa/concrete.PolyState); the library's
    own monomial multiplication and copy act by their specification (C11.R1).  -> None or a witness"""
    from sa import concrete, symexec
    gres, gv, gbk, gbarb, gbara, gn, gpar = [p["n"] for p in g.params]
    gN = sym.arrow(P(gpar, "tlwe_params"), "N")
    BARB = sym.sym(gbarb)
    effs = symexec.run_function(v, g, hooks=NOINLINE)[0]
    coef = lambda poly, i_: concrete.lvalue_location(sym.idx(sym.arrow(poly, "coefsT"), I(i_)), {})
    for nv in (1, 2, 4, 8, 16):           # the ring degrees a back-end can support are powers of two (index masks `& (N-1)` are legitimate here)
        for b in range(2 * nv):
            st = concrete.PolyState()
            seen = []

            def h(kind, x, env):
                if kind in ("local", "store"):
                    st.assign(x, env)
                    return None
                if kind in ("alloc", "delete"):
                    return None
                if kind != "call":
                    raise concrete.NotEvaluable("%s at line %s" % (kind, x.get("l")))
                nm, a = x["name"], x.get("args", [])
                if nm == "torusPolynomialMulByXai":
                    e_ = concrete.eval_term(a[1], env)
                    if e_ is None:
                        raise concrete.NotEvaluable("exponent %s" % sym.show(a[1])[:60])
                    if not 0 <= e_ < 2 * nv:
                        seen.append(("domain", e_))
                        return None
                    vals = [st.read(coef(a[2], i_)) for i_ in range(nv)]
                    for i_ in range(nv):
                        src = (i_ - e_) % (2 * nv)
                        val = vals[src % nv]
                        st.write(coef(a[0], i_), None if val is None else concrete.lin_add({}, val, -1 if src >= nv else 1))
                elif nm == "torusPolynomialCopy":
                    vals = [st.read(coef(a[1], i_)) for i_ in range(nv)]
                    for i_ in range(nv):
                        st.write(coef(a[0], i_), vals[i_])
                elif nm == "tLweNoiselessTrivial":
                    seen.append(("acc", [st.read(coef(a[1], i_)) for i_ in range(nv)]))
                elif nm.startswith(("new_", "delete_", "tfhe_blindRotate", "tLweExtractLweSample")) or x.get("noreturn"):
                    pass
                else:
                    raise concrete.NotEvaluable("call of %s at line %s" % (nm, x.get("l")))
                return None
            try:
                concrete.interpret(effs, {gN: nv, BARB: b}, h, on_segment=st.segment)
            except concrete.NotEvaluable as e:
                chk.broken("%s: test-vector rotation not recognised; by interpretation: %s" % (g.name, e))
            dom = [x_ for x_ in seen if x_[0] == "domain"]
            if dom:
                return "with N = %d, barb = %d the monomial multiplication is called with exponent %d, outside [0, 2N)" % (nv, b, dom[0][1])
            accs = [x_ for x_ in seen if x_[0] == "acc"]
            if len(accs) != 1:
                chk.broken("%s: %d trivial accumulators with N = %d, barb = %d" % (g.name, len(accs), nv, b))
            for i_ in range(nv):
                src = (i_ + b) % (2 * nv)
                atom = ("init", coef(sym.sym(gv), src % nv))
                want = {(atom,): -1 if src >= nv else 1}
                got = accs[0][1][i_]
                if got is None or {m: c for m, c in got.items() if c} != want:
                    return "with N = %d, barb = %d: coefficient %d of the accumulator's test vector is %s, X^(-barb)*v has %s%s there" % (
                        nv, b, i_, "not a number" if got is None else concrete.show_poly(got, 3), "-" if src >= nv else "+", concrete.show_atom(atom))
    return None


class _Sub:
    """adapter: record another rule module's obligations under this property's rule id"""

    def __init__(self, chk, rule, skip=()):
        self.chk, self.rule, self.skip = chk, rule, set(skip)       # skip: rule ids of the source module that do not bear on this property

    def require(self, cond, rule, key, **kw):
        if rule in self.skip:
            return cond
        return self.chk.require(cond, self.rule, key, **kw)

    def refuted(self, rule, key, **kw):
        if rule in self.skip:
            return None
        return self.chk.refuted(self.rule, key, **kw)

    def proved(self, rule, key, **kw):
        if rule in self.skip:
            return None
        return self.chk.proved(self.rule, key, **kw)

    def assumed(self, rule, key, **kw):
        if rule in self.skip:
            return None
        return self.chk.assumed(self.rule, key, **kw)

    def ob(self, rule, key, status, **kw):
        if rule in self.skip:
            return None
        return self.chk.ob(self.rule, key, status, **kw)

    def broken(self, msg):
        return self.chk.broken(msg)

    def vcount(self, *a, **k):
        pass

    def count(self, *a, **k):
        pass

    def set_count(self, *a, **k):
        pass

    def note(self, *a, **k):
        return self.chk.note(*a, **k)

    def assume(self, *a, **k):
        return self.chk.assume(*a, **k)


# ------------------------------------------------------------------------------ R9: the input enters only through the modulus switch
def check_input_dependence(chk, v, f, ps, xname, consumer):
    """The bootstrap's output is +-mu according to the phase of the sample ROUNDED to Z_2N, so inside the function the input
    sample may be consumed only as the argument of modSwitchFromTorus32(., 2N): any other use of x->b or x->a[i] (a
    comparison, a shortcut that looks at the raw value) makes the result depend on something that is not a function of the
    rounded phase; and nothing may write the result on a path that does not go through the rotate-and-extract call."""
    X = sym.sym(xname)
    bad = []

    def go(u, line):
        if not isinstance(u, tuple) or not u:
            return
        if not isinstance(u[0], str):
            for y in u:
                go(y, line)
            return
        if u[0] == "call" and u[1] == "modSwitchFromTorus32":
            return
        if u[0] == "addr":
            # &p[i] computes an address: the subscripts are evaluated, the element is not read
            lv_ = u[1]
            while isinstance(lv_, tuple) and lv_ and lv_[0] in ("idx", "fld"):
                if lv_[0] == "idx":
                    go(lv_[2], line)
                lv_ = lv_[1]
            return
        if u == sym.arrow(X, "a"):
            return          # the mask pointer itself (hoisted into a local), not a coefficient
        if sym.root_of(u) == X and (u[0] == "idx" or (u[0] == "fld" and u[2] == "b")):
            bad.append((line, sym.show(u)))
            return
        if u[0] == "poly":
            for m, _ in u[1]:
                for y in m:
                    go(y, line)
            return
        for y in u[1:]:
            if isinstance(y, tuple):
                go(y, line)
    for p in ps:
        go(p.get("val"), p["line"])
        if not (p["kind"] == "call" and p["name"] == "modSwitchFromTorus32"):
            for a in p.get("args") or []:
                go(a, p["line"])
        for g_ in p.get("guards") or []:
            go(g_, p["line"])
        for lp in p.get("loops") or []:
            for lk in ("lo", "hi", "cond"):
                go(lp.get(lk), p["line"])
    res = sym.sym(f.params[0]["n"])
    other_writers = [p for p in ps if p["kind"] == "call" and p is not consumer and p["args"] and p["args"][0] == res and not p["eff"].get("noreturn")]
    other_writers += [p for p in ps if p["kind"] == "store" and sym.root_of(p["lv"]) == res]
    problems = []
    if bad:
        problems.append("the input is used outside modSwitchFromTorus32(., 2N): %s" % "; ".join(sorted({"%s at line %s" % (u, ln) for ln, u in bad})[:3]))
    if other_writers and not bad:
        # a second way of producing the result that looks only at rounded values: not decided here
        chk.broken("%s: the result is also written by %s (line %s), a path this rule does not analyse" % (
            f.name, other_writers[0].get("name", "a store"), other_writers[0]["line"]))
    if other_writers and bad:
        problems.append("and the result is then written by %s (line %s) without going through the rotate-and-extract call" % (
            other_writers[0].get("name", "a store"), other_writers[0]["line"]))
    chk.require(not problems, "R9", "%s: the result depends on the input sample only through its rounding to Z_2N" % f.name, where=f.where,
                ok="x->b and every x->a[i] are consumed by modSwitchFromTorus32(., 2N) only; the result is written by the rotate-and-extract call only",
                bad="; ".join(problems)[:500], variant=v.name)


# ------------------------------------------------------------------------------ R8: the FFT key is a complete conversion
def _suffix_from_params(t, rec="TGswParams"):
    """access path of a dimension term below the first object named like a parameter object of type rec:
    bk->bk_params->tlwe_params->N and bk_params->tlwe_params->N both give ('.tlwe_params', '[*]', '.N')"""
    path = sym.path_of(t)
    steps = [s for s in path[1:]]
    root = path[0]
    names = [root[1] if root and root[0] == "sym" else None]
    # cut after the step (or root) called bk_params / params of that record
    for k, s_ in enumerate(steps):
        if s_ == ".bk_params":
            return tuple(x for x in steps[k + 1:] if x != "[*]")
    if names[0] == "bk_params":
        return tuple(x for x in steps if x != "[*]")
    return None


def check_fft_key(chk, v, rule="R8"):
    from sa.pipeline import AnalysisBroken
    vn = v.name
    f = v.fn("init_LweBootstrappingKeyFFT")
    g = v.fn("init_LweBootstrappingKey")
    NO = summ.InlineLib(only=lambda fn: False)
    ps, _ = summ.pieces(v, f, hooks=NO)
    gps, _ = summ.pieces(v, g, hooks=NO)
    bk = sym.sym(f.params[1]["n"])
    P_ = lambda *fl: _chain(bk, fl)
    key = "the FFT bootstrapping key carries the whole key-switching key and all n converted rows of the coefficient key"
    calls = lambda nm: [p for p in ps if p["kind"] == "call" and p["name"] == nm]
    nk, cp, na, cv = calls("new_LweKeySwitchKey"), calls("lweCopy"), calls("new_TGswSampleFFT_array"), calls("tGswToFFTConvert")
    gk = [p for p in gps if p["kind"] == "call" and p["name"] == "new_LweKeySwitchKey"]
    if not (len(nk) == len(na) == 1 and len(gk) == 1 and cp and cv):
        chk.broken("init_LweBootstrappingKeyFFT: shape not recognised (%d/%d/%d/%d calls)" % (len(nk), len(cp), len(na), len(cv)))
    problems = []
    a = nk[0]["args"]
    ksrc = sym.arrow(bk, "ks")
    want_n = sym.arrow(ksrc, "n")
    n_ok = a[0] == want_n
    if not n_ok:
        s1, s2 = _suffix_from_params(a[0]), _suffix_from_params(gk[0]["args"][0])
        if s1 is None or s2 is None:
            chk.broken("init_LweBootstrappingKeyFFT: key-switching dimension %s not comparable with %s" % (sym.show(a[0]), sym.show(gk[0]["args"][0])))
        n_ok = s1 == s2
        if not n_ok:
            problems.append("the copy of the key-switching key is allocated for %s rows-blocks, the coefficient key's was created with %s "
                            "(= k*N input coefficients): for k > 1 the FFT key switches only part of the extracted sample" % (
                                sym.show(a[0]), sym.show(gk[0]["args"][0])))
    if a[1] != sym.arrow(ksrc, "t") or a[2] != sym.arrow(ksrc, "basebit"):
        problems.append("copy allocated with (t, basebit) = (%s, %s), the source key has (ks->t, ks->basebit)" % (sym.show(a[1]), sym.show(a[2])))
    # every cell (i, j, p) of the source key is copied to the same cell of the new key, once: the index chains of both pointer
    # arguments of all lweCopy calls are enumerated over their loop nests for small (n_ext, t, base)
    from sa import concrete
    import itertools as _it

    def chain(t):
        """&A[i][j][p] -> (A, [i, j, p])"""
        base, off = sym.ptr_split(t)
        ix = [off]
        while base[0] == "idx":
            ix.append(base[2])
            base = base[1]
        return base, ix[::-1]
    want_sb, want_db = sym.arrow(ksrc, "ks"), sym.arrow(nk[0]["eff"]["ret"], "ks")
    okc = True
    for c_ in cp:
        (db, di), (sb, si) = chain(c_["args"][0]), chain(c_["args"][1])
        if (db, len(di)) != (want_db, 3) or (sb, len(si)) != (want_sb, 3):
            if sym.root_of(db) not in (sym.root_of(want_db), bk) or sym.root_of(sb) != bk:
                chk.broken("init_LweBootstrappingKeyFFT: lweCopy at line %s on %s <- %s is not resolved to the two keys" % (c_["line"], sym.show(c_["args"][0])[:60], sym.show(c_["args"][1])[:60]))
            problems.append("row copy is %s <- %s, expected ks[i][j][p] <- bk->ks->ks[i][j][p]" % (sym.show(c_["args"][0])[:60], sym.show(c_["args"][1])[:60]))
            okc = False
    if okc and n_ok:
        for nv, tv, bv in _it.product((1, 2, 5), (1, 2, 5), (2, 4, 8)):          # base = 2^basebit >= 2
            env0 = {a[0]: nv, want_n: nv, sym.arrow(ksrc, "t"): tv, sym.arrow(ksrc, "base"): bv}
            try:
                seen = concrete.visited_tuples(cp, lambda c_: tuple(chain(c_["args"][0])[1]) + tuple(chain(c_["args"][1])[1]), env0)
            except concrete.NotEvaluable as e:
                chk.broken("init_LweBootstrappingKeyFFT: %s" % e)
            bad_ = [x for x in seen if x[:3] != x[3:]]
            if bad_:
                problems.append("with (n_ext, t, base) = (%d, %d, %d): cell %s of the copy is filled from cell %s of the source" % (nv, tv, bv, bad_[0][:3], bad_[0][3:]))
                break
            if sorted(x[:3] for x in seen) != sorted(_it.product(range(nv), range(tv), range(bv))):
                missing = sorted(set(_it.product(range(nv), range(tv), range(bv))) - {x[:3] for x in seen})
                problems.append("with (n_ext, t, base) = (%d, %d, %d): %d cells copied for %d rows%s" % (
                    nv, tv, bv, len(seen), nv * tv * bv, "; cell %s is never copied" % (missing[0],) if missing else " (some twice)"))
                break
    nin = sym.arrow(sym.arrow(bk, "in_out_params"), "n")
    if na[0]["args"][0] != nin:
        problems.append("%s FFT rows allocated, the key has in_out_params->n" % sym.show(na[0]["args"][0]))
    okv = True
    for c_ in cv:
        (db, _d), (sb, _s) = sym.ptr_split(c_["args"][0]), sym.ptr_split(c_["args"][1])
        if db != na[0]["eff"]["ret"] or sb != sym.arrow(bk, "bk"):
            if sym.root_of(sb) != bk:
                chk.broken("init_LweBootstrappingKeyFFT: conversion at line %s is not resolved to the key" % c_["line"])
            problems.append("conversion is %s <- %s, expected bkFFT[i] <- bk->bk[i]" % (sym.show(c_["args"][0])[:50], sym.show(c_["args"][1])[:50]))
            okv = False
    if okv:
        for nv in (1, 2, 3, 5, 8, 9):
            try:
                seen = concrete.visited_tuples(cv, lambda c_: (sym.ptr_split(c_["args"][0])[1], sym.ptr_split(c_["args"][1])[1]), {nin: nv})
            except concrete.NotEvaluable as e:
                chk.broken("init_LweBootstrappingKeyFFT: %s" % e)
            if any(x != y for x, y in seen) or sorted(x for x, _ in seen) != list(range(nv)):
                problems.append("with n = %d the rows converted are %s (destination, source); expected every i < n once, bkFFT[i] <- bk->bk[i]" % (nv, seen[:4]))
                break
    chk.require(not problems, rule, key, where=f.where,
                ok="new_LweKeySwitchKey(extracted n, ks->t, ks->basebit); rows [0,n_ext) x [0,t) x [0,base) copied index for index; n rows converted",
                bad="; ".join(problems)[:600], variant=vn)
    if rule == "R8":
        chk.vcount(vn, "R8.fft_key_constructors")


def _chain(root, fields):
    t = root
    for fl in fields:
        t = sym.arrow(t, fl)
    return t
