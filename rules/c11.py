"""C11 — naive, Karatsuba and monomial multiplications are exact in the negacyclic ring.

Decides (for all N, all a, all coefficient values): R1 the monomial multiplications are the index map
(i-a) mod N with sign (-1)^wraps; R2 the schoolbook products sum exactly the valid index pairs with the
negacyclic sign; R3 the Karatsuba wrappers reduce mod X^N+1; R4 the Karatsuba step is the polynomial
identity P0 + X^h((A0+A1)(B0+B1)-P0-P2) + X^2h P2 = A*B on the windows the code uses; R5 coefficient-wise
operations apply the operator their name says over the full range.
"""
import re

from sa import affine, pam, summ, sym
from sa.facts import Program
from sa.sym import I, ZERO
from sa.symexec import Hooks


def P(p, f):
    return sym.arrow(sym.sym(p), f)


NOINLINE = summ.LOCAL_HELPERS


def monomial_by_unrolling(v, f, coefs, minus_one, sizes=(1, 2, 3, 4, 5, 8)):
    """Fallback when the index map has no closed form (a source index and a sign flag carried through one fused loop with a wrap):
    the function is interpreted with N fixed to a few small sizes and every exponent a in [0, 2N), its loops unrolled because
    all their tests are then constants, and each output coefficient compared with +/- in[(i - a) mod N] (- in[i]).
    -> (True, detail) | (False, witness) | (None, reason)"""
    from sa.symexec import run_function, flat
    names = [p["n"] for p in f.params]
    res, a, src = names[0], names[1], names[2]
    IN, OUT = P(src, coefs), P(res, coefs)
    n_checked = 0
    for nv in sizes:
        conc = {P(src, "N"): nv, P(res, "N"): nv}
        for av in range(2 * nv):
            args = [None, I(av), None] + [None] * (len(names) - 3)
            eff, st, ex = run_function(v, f, hooks=NOINLINE, args=args, concrete=conc)
            got = {}
            for x in flat(eff):
                if x["e"] in ("while", "loop", "asm", "unknown"):
                    return None, "a loop of %s does not unroll for N = %d, a = %d" % (f.name, nv, av)
                if x["e"] == "store" and x["lv"][0] == "idx" and x["lv"][1] == OUT:
                    ix = sym.const_value(x["lv"][2])
                    if ix is None or x["op"] != "=":
                        return None, "store %s %s at line %s" % (sym.show(x["lv"]), x["op"], x["l"])
                    got[ix] = x["val"]
                elif x["e"] == "call" and x["name"] in ("memcpy", "std::memcpy", "memmove", "std::memmove") and len(x["args"]) == 3:
                    # a block copy into the result: element u of the block is in[offset + u]
                    strip_ = lambda t_: strip_(t_[2]) if t_ and t_[0] == "cast" else t_
                    (db, do), (sb, so) = sym.ptr_split(strip_(x["args"][0])), sym.ptr_split(strip_(x["args"][1]))
                    nb = sym.const_value(sym.fold(sym.subst(strip_(x["args"][2]), {P(src, "N"): I(nv), P(res, "N"): I(nv)})))
                    d0, s0 = sym.const_value(do), sym.const_value(so)
                    if db == OUT and (sb != IN or None in (nb, d0, s0) or nb % 4):
                        return None, "block copy into the result at line %s not resolved" % x["l"]
                    if db == OUT:
                        for u in range(nb // 4):
                            got[d0 + u] = sym.idx(IN, I(s0 + u))
                elif x["e"] == "call" and any(isinstance(a_, tuple) and sym.root_of(a_) == sym.root_of(OUT) for a_ in x.get("args", []) if a_ is not None) \
                        and not x.get("noreturn"):
                    return None, "call of %s on the result at line %s" % (x["name"], x["l"])
            for i_ in range(nv):
                srci = (i_ - av) % nv
                wraps = (srci - (i_ - av)) // nv
                want = sym.mul(I(-1 if wraps % 2 else 1), sym.idx(IN, I(srci)))
                if minus_one:
                    want = sym.sub(want, sym.idx(IN, I(i_)))
                if got.get(i_) != want:
                    return False, "for N = %d, a = %d: coefficient %d of the result is %s, expected %s" % (
                        nv, av, i_, sym.show(got[i_])[:60] if i_ in got else "never written", sym.show(want))
                n_checked += 1
            if set(got) - set(range(nv)):
                return False, "for N = %d, a = %d: coefficient %d outside [0, N) is written" % (nv, av, sorted(set(got) - set(range(nv)))[0])
    return True, "interpreted with N in %s and every a in [0, 2N): %d coefficients equal (-1)^wraps * in[(i - a) mod N]%s" % (
        list(sizes), n_checked, " - in[i]" if minus_one else "")


def check_monomial(chk, v, name, coefs, minus_one):
    f = v.fn(name)
    ps, _ = summ.pieces(v, f, hooks=NOINLINE)
    names = [p["n"] for p in f.params]
    res, a, src = names[0], names[1], names[2]
    stores = [p for p in ps if p["kind"] == "store"]
    other = [p for p in ps if p["kind"] in ("asm", "while", "unknown")]
    key = "%s is the map (i - %s) mod N with sign (-1)^wraps%s" % (name, a, " minus the identity" if minus_one else "")
    if other or not stores:
        oku, detu = monomial_by_unrolling(v, f, coefs, minus_one)
        if oku is None:
            chk.broken("%s: unrecognised shape (%s); %s" % (name, [p["kind"] for p in other], detu))
        chk.require(oku, "R1", key, where=f.where, ok=detu, bad=detu, variant=v.name)
        chk.vcount(v.name, "R1.monomial_functions")
        return
    N = P(src, "N")
    A = sym.sym(a)
    facts = [A, sym.sub(sym.sub(sym.mul(I(2), N), I(1)), A), sym.sub(N, I(1))]       # 0 <= a <= 2N-1, N >= 1 (documented contract)
    # a shortcut for the exponent 0 (`if (a == 0) { copy; return; }`): that alternative is decided on its own -- X^0 is the identity,
    # X^0 - 1 is zero -- and the remaining statements are analysed under a >= 1
    is_eq0 = lambda g: g in (sym.binop("==", A, ZERO), ("op", "==", A, ZERO), ("un", "!", ("op", "!=", A, ZERO)))
    is_ne0 = lambda g: g in (sym.binop("!=", A, ZERO), ("op", "!=", A, ZERO), ("un", "!", ("op", "==", A, ZERO)), sym.unop("!", sym.binop("==", A, ZERO)))
    eq0 = [p for p in stores if any(is_eq0(g) for g in p["guards"])]
    if eq0 and all(len([g for g in p["guards"] if not is_eq0(g)]) == 0 and len(p["loops"]) == 1 for p in eq0) and \
            all(any(is_ne0(g) for g in p["guards"]) for p in stores if p not in eq0):
        from sa import coverage
        Nn = sym.sym("N")
        terms0, bad0 = [], None
        for p in eq0:
            lp = p["loops"][0]
            lpn = dict(lp, lo=sym.rewrite(lp["lo"], {N: Nn, P(res, "N"): Nn}), hi=sym.rewrite(lp["hi"], {N: Nn, P(res, "N"): Nn}))
            if p["lv"][0] != "idx" or p["lv"][1] != P(res, coefs) or p["op"] != "=":
                chk.broken("%s: statement at line %s under a == 0 is not an assignment to the result" % (name, p["line"]))
            ix = p["lv"][2]
            want0 = ZERO if minus_one else sym.idx(P(src, coefs), ix)
            if sym.subst(p["val"], {A: ZERO}) != want0:
                bad0 = "for a = 0 the statement at line %s assigns %s to coefficient %s, %s is %s" % (
                    p["line"], sym.show(p["val"])[:60], sym.show(ix), "(X^0 - 1) * source" if minus_one else "X^0 * source",
                    "0" if minus_one else "the source coefficient itself")
            terms0.append((lpn, ix, 1))
        if bad0 is None:
            st0, det0 = coverage.cover_1d(terms0, Nn)
            if st0 == "unknown":
                chk.broken("%s: statements under a == 0: %s" % (name, det0))
            if st0 == "refuted":
                bad0 = "for a = 0 the result is not written everywhere: %s" % det0
        if bad0:
            chk.refuted("R1", key, where=f.where, detail=bad0, variant=v.name)
            chk.vcount(v.name, "R1.monomial_functions")
            return
        stores = [dict(p, guards=[g for g in p["guards"] if not is_ne0(g)]) for p in stores if p not in eq0]
        facts = facts + [sym.sub(A, I(1))]
    ok, detail, infos = pam.check_map_cases(stores, P(res, coefs), P(src, coefs), N, 1, sym.neg(A), facts,
                                            extra_terms=[(-1, "same")] if minus_one else [], want_op="=")
    if ok is None:
        oku, detu = monomial_by_unrolling(v, f, coefs, minus_one)
        if oku is None:
            chk.broken("%s: %s; %s" % (name, detail, detu))
        chk.require(oku, "R1", key, where=f.where, ok=detu, bad=detu, variant=v.name)
        chk.vcount(v.name, "R1.monomial_functions")
        return
    guards = {tuple(p["guards"]) for p in stores}
    if True:
        # (also when the case analysis reports a mismatch: with alternatives it does not know, the mismatch may be its own)
        if len(guards) == 2:
            g1, g2 = sorted(guards, key=repr)
            comp = len(g1) == 1 and len(g2) == 1 and (g1[0] == sym.unop("!", g2[0]) or g2[0] == sym.unop("!", g1[0]))

            def order_test(g):
                while g[0] == "un" and g[1] == "!":
                    g = g[2]
                return g[0] == "op" and g[1] in ("<", "<=", ">", ">=")
            # (the split the case analysis knows is the one into a < N and a >= N; an equality test -- a shortcut for one exponent --
            # is an alternative it does not evaluate)
            comp = comp and order_test(g1[0])
            shape = None if comp else "the two guard alternatives %s / %s are not complementary" % ([sym.show(x) for x in g1], [sym.show(x) for x in g2])
        else:
            shape = None if (len(guards) == 1 and guards == {()}) else "guard structure %s" % [[sym.show(x) for x in g] for g in guards]
        if shape:
            # alternatives the case analysis above does not know (an early return for a degenerate exponent, more than two cases):
            # decided by unrolling for small N and every exponent
            oku, detu = monomial_by_unrolling(v, f, coefs, minus_one)
            if oku is None:
                chk.broken("%s: %s; %s" % (name, shape, detu))
            ok, detail, infos = oku, detu, []
    chk.require(ok, "R1", key, where=f.where, ok=detail + "; " + "; ".join(
        "%s<-%s%s" % (i["range"], "-" if i["sign"] < 0 else "+", i["src"]) for i in infos)[:300], bad=detail, variant=v.name,
        data={"pieces": infos})
    chk.vcount(v.name, "R1.monomial_functions")


def product_terms(v, f, ps, p1, p2, ivar_loop_depth=0):
    """local accumulation pieces ri (+=|-=) p1[j]*p2[g]: -> list of dict(loops, sign, j, g, line)"""
    out = []
    for p in ps:
        if p["kind"] != "local" or p["op"] not in ("+=", "-="):
            continue
        items = sym.poly_items(p["val"])
        if len(items) != 1 or len(items[0][0]) != 2:
            return None, "accumulated value %s is not a single product (line %s)" % (sym.show(p["val"]), p["line"])
        mono, c = items[0]
        fa = [x for x in mono if x[0] == "idx" and x[1] == p1]
        fb = [x for x in mono if x[0] == "idx" and x[1] == p2]
        if len(fa) != 1 or len(fb) != 1 or abs(c) != 1:
            return None, "product %s is not poly1[j]*poly2[g] (line %s)" % (sym.show(p["val"]), p["line"])
        sign = c * (1 if p["op"] == "+=" else -1)
        out.append({"loops": p["loops"], "sign": sign, "j": fa[0][2], "g": fb[0][2], "line": p["line"], "name": p["name"]})
    return out, ""


class _GenericRunNeedsCases(Exception):
    pass


def schoolbook_by_interpretation(chk, v, f, negacyclic):
    """the function's effect tree is interpreted for N = 1..10 with the coefficients of both operands as indeterminates
    (concrete.PolyState): every result[i] must be exactly the polynomial sum_{j+k=i} p1[j]p2[k] (- sum_{j+k=N+i} when negacyclic),
    whatever it held before.  Tests of the form `p1[j] == 0` (trailing zeros skipped, sparse operands) are decided per case: for every
    number s of significant coefficients of the integer operand, p1[j] = 0 for j >= s and p1[s-1] != 0.  -> None or a witness"""
    from sa import concrete, symexec
    names = [p["n"] for p in f.params]
    R, A, B, Nn = (sym.sym(n) for n in names[:4])
    effs = symexec.run_function(v, f, hooks=NOINLINE)[0]
    at = lambda arr, i_: ("init", concrete.lvalue_location(sym.idx(arr, I(i_)), {}))
    norm = lambda d: {m: c % (1 << 32) for m, c in d.items() if c % (1 << 32)}
    data_tests = [False]
    for nv in range(1, 11):
        for nsig in [None] + list(range(0, nv + 1)):
            if nsig is not None and not data_tests[0]:
                break                      # no test on the data was met in the generic run: one case
            st = concrete.PolyState()
            zero = set() if nsig is None else {at(A, j) for j in range(nsig, nv)}
            nonzero = None if not nsig else at(A, nsig - 1)
            for a_ in zero:
                st.write(a_[1], {})

            def h(kind, x, env):
                if kind in ("local", "store"):
                    st.assign(x, env)
                elif kind == "cond":
                    def const(val):
                        return 0 if val == {} else val.get(()) if set(val) == {()} else None

                    def decide(c):
                        if c[0] == "un" and c[1] == "!":
                            r_ = decide(c[2])
                            return None if r_ is None else not r_
                        if c[0] == "op" and c[1] in ("&&", "||"):
                            a_ = decide(c[2])
                            if a_ is not None and a_ == (c[1] == "||"):
                                return a_
                            b_ = decide(c[3])
                            return None if a_ is None or b_ is None else b_
                        if c[0] == "op" and c[1] in ("==", "!=", "<", "<=", ">", ">="):
                            vl, vr = st.value(c[2], env), st.value(c[3], env)
                            if vl is None or vr is None:
                                return None
                            cl, cr = const(vl), const(vr)
                            if cl is not None and cr is not None:
                                return {"==": cl == cr, "!=": cl != cr, "<": cl < cr, "<=": cl <= cr, ">": cl > cr, ">=": cl >= cr}[c[1]]
                            if c[1] in ("==", "!=") and 0 in (cl, cr):
                                val = vr if cl == 0 else vl            # a coefficient of the operand compared with zero
                                if nonzero is not None and set(val) == {(nonzero,)}:
                                    return c[1] == "!="
                                data_tests[0] = True
                                if nsig is None:
                                    raise _GenericRunNeedsCases()
                            return None
                        val = st.value(c, env)
                        return None if val is None or const(val) is None else bool(const(val))
                    return decide(x["cond"])
                elif kind == "value":
                    val = st.value(x["term"], env)
                    return None if val is None else (0 if val == {} else val.get(()) if set(val) == {()} else None)
                elif kind in ("call", "asm", "unknown", "alloc", "delete"):
                    raise concrete.NotEvaluable("%s at line %s" % (kind, x.get("l")))
                return None
            try:
                concrete.interpret(effs, {Nn: nv}, h, on_segment=st.segment)
            except _GenericRunNeedsCases:
                continue
            except concrete.NotEvaluable as e:
                chk.broken("%s: %s" % (f.name, e))
            for i_ in range(nv if negacyclic else 2 * nv - 1):
                want = {}
                for j in range(nv):
                    if at(A, j) in zero:
                        continue
                    for k in range(nv):
                        sgn = 1 if j + k == i_ else (-1 if negacyclic and j + k == nv + i_ else 0)
                        if sgn:
                            want[tuple(sorted([at(A, j), at(B, k)], key=repr))] = sgn
                got = st.read(concrete.lvalue_location(sym.idx(R, I(i_)), {}))
                if got is None:
                    chk.broken("%s: result[%d] is not a polynomial in the operands for N = %d" % (f.name, i_, nv))
                if norm(got) != norm(want):
                    case = "" if nsig is None else " when the first operand has %d significant coefficient(s)" % nsig
                    return "for N = %d%s, result[%d] = %s" % (nv, case, i_, concrete.show_poly(got, 6))
            if nsig is None:
                break                      # the generic run needed no case distinction
    return None


def check_schoolbook(chk, v, name, negacyclic):
    f = v.fn(name)
    ps, _ = summ.pieces(v, f, hooks=NOINLINE)
    names = [p["n"] for p in f.params]
    R, A, B, Nn = (sym.sym(n) for n in names[:4])
    N = Nn
    terms, why = product_terms(v, f, ps, A, B)
    key = "%s sums exactly the valid index pairs%s" % (name, " with the negacyclic sign" if negacyclic else " of the plain product")
    if terms is None or not terms:
        # not the accumulate-into-a-local shape (e.g. the loops interchanged, rows added into result): decide by interpretation
        bad = schoolbook_by_interpretation(chk, v, f, negacyclic)
        chk.require(bad is None, "R2", key, where=f.where,
                    ok="interpreted for N = 1..10 over indeterminate operands: result[i] = sum of poly1[j]*poly2[k] over j+k = i%s" % (
                        " minus those over j+k = N+i" if negacyclic else ""), bad=bad or "", variant=v.name)
        chk.vcount(v.name, "R2.schoolbook_functions")
        return
    problems = []
    # the accumulator is reset inside the outer loop and stored to result[i] after the inner loops
    resets = [p for p in ps if p["kind"] == "local" and p["op"] == "=" and p["val"] == ZERO and len(p["loops"]) == 1]
    stores = [p for p in ps if p["kind"] == "store" and sym.root_of(p["lv"]) == R]
    if len(resets) != len(stores) or not stores:
        problems.append("%d accumulator resets for %d result stores" % (len(resets), len(stores)))
    groups = {}
    for t in terms:
        outer = t["loops"][0]
        groups.setdefault(id(outer), (outer, []))[1].append(t)
    covered = []
    for outer, ts in groups.values():
        i = outer["var"]
        st = [p for p in stores if p["loops"] and p["loops"][0] is outer]
        if len(st) != 1 or st[0]["lv"] != sym.idx(R, i) or st[0]["op"] != "=" or st[0]["val"][0] != "var":
            problems.append("result[%s] is not assigned the accumulator exactly once" % sym.show(i))
        ofacts = affine.loop_constraints([outer]) + [sym.sub(N, I(1))]
        ranges = []
        for t in ts:
            inner = t["loops"][-1]
            j = inner["var"]
            if t["j"] != j:
                problems.append("first factor index %s is not the inner loop variable (line %s)" % (sym.show(t["j"]), t["line"]))
                continue
            c = pam.match_index(t["g"], j, -1, i, N)
            if c is None:
                problems.append("second factor index %s is not i - j + c*N (line %s)" % (sym.show(t["g"]), t["line"]))
                continue
            want = (-1 if c % 2 else 1) if negacyclic else 1
            if (not negacyclic and c != 0) or t["sign"] != want:
                problems.append("term p1[j]*p2[%s] wraps %d time(s): sign must be %+d, found %+d (line %s)" % (
                    sym.show(t["g"]), c, want, t["sign"], t["line"]))
            f2 = ofacts + affine.loop_constraints([inner])
            if not affine.prove_nonneg(t["g"], f2) or not affine.prove_nonneg(sym.sub(sym.sub(N, I(1)), t["g"]), f2):
                problems.append("index %s leaves [0,N) for j in [%s,%s] (line %s)" % (
                    sym.show(t["g"]), sym.show(inner["lo"]), sym.show(inner["hi"]), t["line"]))
            if not affine.prove_nonneg(j, f2) or not affine.prove_nonneg(sym.sub(sym.sub(N, I(1)), j), f2):
                problems.append("index j leaves [0,N) (line %s)" % t["line"])
            hi = inner["hi"] if inner["cmp"] == "<" else sym.add(inner["hi"], I(1))
            ranges.append((inner["lo"], hi, c, inner))
        if negacyclic:
            ok, why = pam.partition_ok([(lo, hi) for lo, hi, _, _ in ranges], N, ofacts)
            if not ok:
                problems.append("inner ranges for output %s: %s" % (sym.show(i), why))
        else:
            # plain product: the j range must be exactly {j : 0 <= i-j <= N-1, 0 <= j <= N-1}
            for lo, hi, c, inner in ranges:
                glo = sym.subst(ts[0]["g"], {inner["var"]: lo})
                ghi = sym.subst(ts[0]["g"], {inner["var"]: sym.sub(hi, I(1))})
                tight_lo = lo == ZERO or glo == sym.sub(N, I(1))
                tight_hi = sym.sub(hi, I(1)) == sym.sub(N, I(1)) or ghi == ZERO
                if not (tight_lo and tight_hi):
                    problems.append("inner range [%s,%s) for output %s omits valid pairs" % (sym.show(lo), sym.show(hi), sym.show(i)))
        ohi = outer["hi"] if outer["cmp"] == "<" else sym.add(outer["hi"], I(1))
        covered.append((outer["lo"], ohi))
    total = N if negacyclic else sym.sub(sym.mul(I(2), N), I(1))
    ok, why = pam.partition_ok(covered, total, [sym.sub(N, I(1))])
    if not ok:
        problems.append("output ranges: %s" % why)
    if problems:
        # the symbolic comparison was made for accumulate-into-a-scalar loops with affine bounds; on anything else its complaints are
        # not witnesses.  The interpretation decides: a witness refutes, agreement for N = 1..10 (all data) is a bounded proof.
        bad = schoolbook_by_interpretation(chk, v, f, negacyclic)
        chk.require(bad is None, "R2", key, where=f.where,
                    ok="interpreted for N = 1..10 over indeterminate operands (the symbolic comparison did not apply: %s)" % "; ".join(problems)[:160],
                    bad=bad or "", variant=v.name)
        chk.vcount(v.name, "R2.schoolbook_functions")
        return
    chk.require(not problems, "R2", key, where=f.where,
                ok="%d product terms over %d output ranges; indices i-j+cN in [0,N), sign (-1)^c, ranges cover [0,%s)" % (
                    len(terms), len(groups), sym.show(total)), bad="; ".join(problems)[:500], variant=v.name)
    chk.vcount(v.name, "R2.schoolbook_functions")


NAIVE_NEGACYCLIC = ("torusPolynomialMultNaive_aux",)     # R = A*B mod X^N+1 on raw arrays (decided by R2)


def check_wrapper(chk, v, name, op):
    """A Karatsuba entry point leaves result (op) poly1*poly2 mod X^N+1.  The function's effect tree is interpreted for
    N in 1..9 (sa/concrete.py) with linear abstract values: the product call leaves coefficient u of the 2N-1 coefficient
    product, P_u, in its output array (the schoolbook kernel, which already reduces, leaves P_u - P_{N+u}); copies, sums and
    differences are tracked through scratch buffers and helpers; at the end coefficient i of result must be
    [old result[i]] (op) (P_i - P_{N+i}), with P_{2N-1} = 0.  Independent of how the reduction is written (in place, through
    a scratch array, one loop or two, a peeled last coefficient, a small-N shortcut)."""
    from sa import concrete
    from sa.pipeline import AnalysisBroken
    f = v.fn(name)
    ps, eff = summ.pieces(v, f, hooks=NOINLINE)
    res, p1, p2 = [p["n"] for p in f.params[:3]]
    N = P(p1, "N")
    RES = sym.sym(res)
    key = "%s reduces the 2N-1 coefficient product mod X^N+1 with '%s'" % (name, op)
    if not any(p["kind"] == "call" and p["name"] == "Karatsuba_aux" for p in ps):
        chk.broken("%s: expected a Karatsuba_aux call" % name)
    problems = []
    used = set()
    sizes = (1, 2, 3, 4, 5, 8, 9)
    for nv in sizes:
        if problems:
            break
        env = {N: nv, P(p2, "N"): nv, P(res, "N"): nv}
        mem = concrete.LinearMemory()

        def handler(kind, x, env):
            if kind == "cond":
                return None
            if kind == "store":
                form = concrete.linear_eval(x["val"], env, mem)
                if form is None:
                    raise AnalysisBroken("%s: value %s at line %s is not a sum of array elements" % (name, sym.show(x["val"])[:80], x["l"]))
                mem.store(concrete.lvalue_location(x["lv"], env), x["op"], form)
                return
            if kind != "call":
                return
            nm, a = x["name"], x["args"]
            if nm in ("Karatsuba_aux",) + NAIVE_NEGACYCLIC:
                used.add(nm)
                if a[1] != P(p1, "coefs") or a[2] != P(p2, "coefsT") or concrete.eval_term(a[3], env) != nv:
                    problems.append("%s called on (%s, %s, %s) at line %s: not the two operands with their length N" % (
                        nm, sym.show(a[1]), sym.show(a[2]), sym.show(a[3]), x["l"]))
                    return
                out = concrete.location(a[0], env)
                if nm == "Karatsuba_aux":
                    for u in range(2 * nv - 1):
                        mem.write(mem.shift(out, u), {("P", u): 1})
                else:
                    for u in range(nv):
                        mem.write(mem.shift(out, u), concrete.lin_add({("P", u): 1}, {("P", nv + u): 1} if u < nv - 1 else {}, -1))
            elif x.get("noreturn") or nm.startswith(("new_", "delete_")) or nm in ("free", "malloc"):
                return
            else:
                raise AnalysisBroken("%s: call to %s (line %s) has no abstract meaning here" % (name, nm, x["l"]))
        try:
            concrete.interpret(eff, env, handler)
        except concrete.NotEvaluable as e:
            raise AnalysisBroken("%s: %s" % (name, e))
        for i in range(nv):
            loc = (RES, (0, "coefsT", i))
            got = mem.read(loc)
            prod = concrete.lin_add({("P", i): 1}, {("P", nv + i): 1} if i < nv - 1 else {}, -1)
            old = {("init", loc): 1}
            want = prod if op == "=" else concrete.lin_add(old, prod, 1 if op == "+=" else -1)
            if got != want:
                def show(fm):
                    if not fm:
                        return "0"
                    parts = []
                    for k_, c_ in sorted(fm.items(), key=repr):
                        nm_ = "old result[%d]" % k_[1][1][-1] if k_ and k_[0] == "init" and k_[1][0] == RES else \
                            ("P_%d" % k_[1] if k_ and k_[0] == "P" else "uninitialised %s" % sym.show(k_[1][0])[:30] if k_ and k_[0] == "init" else str(k_)[:40])
                        parts.append("%+d*%s" % (c_, nm_))
                    return " ".join(parts)
                problems.append("for N = %d: result[%d] ends as %s, expected %s (P_u = coefficient u of the 2N-1 coefficient product)" % (
                    nv, i, show(got), show(want)))
                break
    chk.require(not problems, "R3", key, where=f.where,
                ok="result[i] %s P_i - P_{N+i} (P_{2N-1} = 0) for every i < N; interpreted for N in %s through %s" % (op, list(sizes), sorted(used)),
                bad="; ".join(problems)[:500], variant=v.name)
    chk.vcount(v.name, "R3.karatsuba_wrappers")


def check_karatsuba_step(chk, v):
    f = v.fn("Karatsuba_aux")
    ps, eff = summ.pieces(v, f, hooks=NOINLINE)
    Rn, An, Bn, sizen, bufn = [p["n"] for p in f.params]
    R, A, B, size = sym.sym(Rn), sym.sym(An), sym.sym(Bn), sym.sym(sizen)
    h = sym.binop("/", size, I(2))
    key = "Karatsuba_aux: recursion step equals the product on the windows it uses"
    problems = []
    rec = [p for p in ps if p["kind"] == "call" and p["name"] == "Karatsuba_aux"]
    base = [p for p in ps if p["kind"] == "call" and p["name"] == "torusPolynomialMultNaive_plain_aux"]
    if len(rec) != 3 or len(base) != 1:
        chk.broken("Karatsuba_aux: expected 3 recursive calls and one base-case call, found %d/%d" % (len(rec), len(base)))
    if base[0]["args"][:4] != [R, A, B, size]:
        problems.append("base case called on %s" % [sym.show(a) for a in base[0]["args"][:4]])
    # window algebra: symbols for the halves; X^h as the symbol Xh
    A0, A1, B0, B1, Xh = (sym.sym(n) for n in ("A0", "A1", "B0", "B1", "X^h"))

    def window(ptr, root, lowsym, highsym):
        """pointer term -> symbolic half of `root`"""
        if ptr == root:
            return lowsym
        if ptr == sym.padd(root, h):
            return highsym
        return None
    stores = [p for p in ps if p["kind"] == "store"]
    temps = {}
    for p in stores:
        # Xtemp[i] = X[i] + X[h+i] over [0,h)
        if len(p["loops"]) == 1 and p["op"] == "=" and p["lv"][0] == "idx" and p["lv"][2] == p["loops"][0]["var"]:
            lp = p["loops"][0]
            i = lp["var"]
            for root, lo_s, hi_s in ((A, A0, A1), (B, B0, B1)):
                if p["val"] == sym.add(sym.idx(root, i), sym.idx(root, sym.add(h, i))):
                    if not summ.visits(lp, ZERO, h):
                        problems.append("half-sum loop covers [%s,%s), expected [0,h)" % (sym.show(lp["lo"]), sym.show(lp["hi"])))
                    temps[p["lv"][1]] = sym.add(lo_s, hi_s)
    products = {}        # destination pointer -> symbolic product
    for c in rec:
        dst, a, b, n = c["args"][:4]
        if n != h:
            problems.append("recursive call on size %s, expected h" % sym.show(n))
        sa = window(a, A, A0, A1) or temps.get(a)
        sb = window(b, B, B0, B1) or temps.get(b)
        if sa is None or sb is None:
            problems.append("recursive call operands %s, %s are not halves or half-sums" % (sym.show(a), sym.show(b)))
            continue
        products[dst] = sym.mul(sa, sb)
    # R as a formal sum of windows: offset -> polynomial
    Rwin = {}
    tmpval = {}
    for dst, prod in products.items():
        if dst == R:
            Rwin[ZERO] = prod
        elif sym.root_of(dst) == R and dst[0] == "addr" and dst[1][0] == "idx" and dst[1][1] == R:
            Rwin[dst[1][2]] = prod
        else:
            tmpval[dst] = prod
    sm1 = sym.sub(size, I(1))
    for p in stores:
        if len(p["loops"]) != 1 or p["lv"][0] != "idx":
            continue
        lp = p["loops"][0]
        i = lp["var"]
        arr, ix = p["lv"][1], p["lv"][2]
        if arr in tmpval and ix == i and p["op"] in ("-=", "+="):
            # Rtemp[i] (op)= c0*R[i + o0] + c1*R[i + o1]
            lt = pam.linear_terms(p["val"])
            if lt is None:
                problems.append("combination %s is not linear" % sym.show(p["val"]))
                continue
            if not summ.visits(lp, ZERO, sm1):
                problems.append("combination loop covers [%s,%s), expected [0,size-1)" % (sym.show(lp["lo"]), sym.show(lp["hi"])))
            for c, atom in lt:
                if atom[0] != "idx" or atom[1] != R:
                    problems.append("unexpected operand %s" % sym.show(atom))
                    continue
                off = sym.sub(atom[2], i)
                if off not in Rwin:
                    problems.append("window R+%s read before any product was written there" % sym.show(off))
                    continue
                sgn = c if p["op"] == "+=" else -c
                tmpval[arr] = sym.add(tmpval[arr], sym.mul(I(sgn), Rwin[off]))
        elif arr == R and p["op"] == "+=" and p["val"][0] == "idx" and p["val"][1] in tmpval and p["val"][2] == i:
            off = sym.sub(ix, i)
            if not summ.visits(lp, ZERO, sm1):
                problems.append("recombination loop covers [%s,%s), expected [0,size-1)" % (sym.show(lp["lo"]), sym.show(lp["hi"])))
            Rwin["mid"] = (off, tmpval[p["val"][1]])
    gap = [p for p in stores if not p["loops"] and p["lv"] == sym.idx(R, sm1) and p["op"] == "=" and p["val"] == ZERO]
    if not gap:
        problems.append("the gap coefficient R[size-1] between the two half products is not cleared")
    if "mid" not in Rwin or ZERO not in Rwin or size not in Rwin:
        problems.append("windows found: %s (expected products at R+0, R+size and a middle term)" % [sym.show(k) if k != "mid" else k for k in Rwin])
    else:
        off, mid = Rwin["mid"]
        if off != h:
            problems.append("middle term added at offset %s, expected h" % sym.show(off))
        # with size = 2h:  R = P0 + X^h*mid + X^2h*P2  must equal (A0 + X^h A1)(B0 + X^h B1)
        lhs = sym.add(sym.add(Rwin[ZERO], sym.mul(Xh, mid)), sym.mul(sym.mul(Xh, Xh), Rwin[size]))
        rhs = sym.mul(sym.add(A0, sym.mul(Xh, A1)), sym.add(B0, sym.mul(Xh, B1)))
        if lhs != rhs:
            problems.append("window identity fails: code computes %s, the product is %s" % (sym.show(lhs), sym.show(rhs)))
    chk.require(not problems, "R4", key, where=f.where,
                ok="P0 at R+0, P2 at R+size, (A0+A1)(B0+B1)-P0-P2 at R+h over size-1 coefficients, gap cleared; identity holds for size = 2h",
                bad="; ".join(problems)[:600], variant=v.name)
    chk.vcount(v.name, "R4.karatsuba_steps")
    chk.assume("Karatsuba_aux is exact for even sizes (size = 2h); ring degrees are powers of two")


ELEMENTWISE = {
    # name: (destination field, operator, value as a function of (a, b, p) element terms)
    "torusPolynomialClear": ("coefsT", "=", lambda a, b, p: ZERO, 0),
    "torusPolynomialCopy": ("coefsT", "=", lambda a, b, p: a, 1),
    "torusPolynomialAdd": ("coefsT", "=", lambda a, b, p: sym.add(a, b), 2),
    "torusPolynomialAddTo": ("coefsT", "+=", lambda a, b, p: a, 1),
    "torusPolynomialSub": ("coefsT", "=", lambda a, b, p: sym.sub(a, b), 2),
    "torusPolynomialSubTo": ("coefsT", "-=", lambda a, b, p: a, 1),
    "torusPolynomialAddMulZ": ("coefsT", "=", lambda a, b, p: sym.add(a, sym.mul(p, b)), 2),
    "torusPolynomialAddMulZTo": ("coefsT", "+=", lambda a, b, p: sym.mul(p, a), 1),
    "torusPolynomialSubMulZ": ("coefsT", "=", lambda a, b, p: sym.sub(a, sym.mul(p, b)), 2),
    "torusPolynomialSubMulZTo": ("coefsT", "-=", lambda a, b, p: sym.mul(p, a), 1),
    "intPolynomialClear": ("coefs", "=", lambda a, b, p: ZERO, 0),
    "intPolynomialCopy": ("coefs", "=", lambda a, b, p: a, 1),
    "intPolynomialAddTo": ("coefs", "+=", lambda a, b, p: a, 1),
}


def _partitions(items):
    """all set partitions of a short list"""
    if not items:
        yield []
        return
    first, rest = items[0], items[1:]
    for part in _partitions(rest):
        yield [[first]] + part
        for k in range(len(part)):
            yield part[:k] + [[first] + part[k]] + part[k + 1:]


def check_elementwise(chk, v, name, spec):
    """The function is folded with its library callees inlined; every statement must be element-wise over the whole
    polynomial.  The statements are then composed symbolically, per coefficient, under EVERY aliasing configuration of the
    polynomial arguments that the function's own assertions allow (result == poly1, result == poly2, ...): the final
    value of the result must be the operator-table value of the ORIGINAL operands."""
    fld, op, fn, nsrc = spec
    f = v.fn(name, required=False)
    if f is None:
        return
    ps, _ = summ.pieces(v, f, hooks=summ.InlineLib())
    polys = [p for p in f.params if "Polynomial" in p["t"]]
    ints = [p for p in f.params if p["t"].replace("const ", "") == "int"]
    res = polys[0]["n"]
    srcs = [p["n"] for p in polys[1:]]
    key = "%s applies '%s' element-wise over the whole polynomial, whichever arguments are the same object" % (name, op)
    if any(p["kind"] in ("asm", "while", "unknown") for p in ps):
        chk.broken("%s: construct not recognised" % name)
    stores = [p for p in ps if p["kind"] == "store"]
    opaque = summ.opaque_writers(v, ps)
    if opaque:
        chk.broken("%s: memory may be written by %s, which the analysis does not see through" % (name, summ.show_opaque(opaque)))
    if not stores:
        chk.refuted("R5", key, where=f.where, detail="no statement writes the result", variant=v.name)
        return
    pnames = [p["n"] for p in polys]
    psyms = {sym.sym(n): n for n in pnames}
    Ns = {P(n, "N") for n in pnames}
    problems = []
    # assertions of the function restrict the admissible aliasing
    forbidden = set()
    for p in ps:
        for c in p.get("pre", []) or []:
            for st in sym.subterms(c):
                if st[0] == "op" and st[1] == "!=" and st[2] in psyms and st[3] in psyms:
                    forbidden.add(frozenset((psyms[st[2]], psyms[st[3]])))
    for s_ in stores:
        if len(s_["loops"]) != 1:
            chk.broken("%s: statement at line %s is not in a single loop" % (name, s_["line"]))
        lp = s_["loops"][0]
        if lp["lo"] != ZERO or lp["cmp"] != "<" or lp["hi"] not in Ns or lp["step"] != I(1):
            # any other loop form (descending, unrolled with a tail is several statements and handled above): every access of an
            # element-wise statement is at the loop's own index, so only the SET of indices matters -- decided for every N
            from sa import coverage
            Nn = sym.sym("N")
            one = {x: Nn for x in Ns}
            lpn = dict(lp, lo=sym.rewrite(lp["lo"], one), hi=sym.rewrite(lp["hi"], one))
            stc, detc = coverage.cover_1d([(lpn, lp["var"], 1)], Nn)
            if stc == "refuted":
                problems.append("the loop at line %s does not visit [0,N) exactly once: %s" % (s_["line"], detc))
            elif stc != "proved":
                chk.broken("%s: index set of the loop at line %s not decided (%s)" % (name, s_["line"], detc))
        elt = s_.get("t", "")
        if elt and elt.replace("const ", "") not in ("int", "unsigned int"):
            problems.append("element type %s is not a 32-bit wrapping integer" % elt)
    pp = sym.sym(ints[0]["n"]) if ints else None
    nconf = 0
    # statements selected by tests on the integer multiplier (shortcuts for 0 and +-1): every alternative is decided for the
    # multipliers that select it -- the composition below is repeated with p = -3 .. 3 substituted (bounded in p: the general
    # alternative is exercised with |p| = 2, 3, where it is symbolic in everything but p)
    pvals = (-3, -2, -1, 0, 1, 2, 3) if pp is not None and any(sym.contains(g_, pp) for s_ in stores for g_ in s_["guards"]) else (None,)
    stores_all, pp_sym = stores, pp
    if not problems:
      for pv in pvals:
        if pv is not None:
            sub_p = {pp_sym: I(pv)}
            stores = [dict(s_, guards=[sym.fold(sym.subst(g_, sub_p)) for g_ in s_["guards"]], val=sym.fold(sym.subst(s_["val"], sub_p)) if isinstance(s_["val"], tuple) else s_["val"])
                      for s_ in stores_all]
            pp = I(pv)
        for part in _partitions(pnames):
            cls = {n: min(c) for c in part for n in c}
            if any(len(fs) == 2 and len({cls[x] for x in fs}) == 1 for fs in forbidden):
                continue
            nconf += 1
            init = {c: sym.sym("%s0" % c) for c in set(cls.values())}
            state = dict(init)

            def truth(g):
                if sym.const_value(g) is not None:
                    return bool(sym.const_value(g))
                if g[0] == "un" and g[1] == "!":
                    t_ = truth(g[2])
                    return None if t_ is None else (not t_)
                if g[0] == "op" and g[1] in ("==", "!=") and g[2] in psyms and g[3] in psyms:
                    same = cls[psyms[g[2]]] == cls[psyms[g[3]]]
                    return same if g[1] == "==" else (not same)
                return None
            bad = None
            for s_ in stores:
                tv = [truth(g) for g in s_["guards"]]
                if any(t_ is None for t_ in tv):
                    chk.broken("%s: guard %s not decidable from the aliasing configuration" % (name, [sym.show(g) for g in s_["guards"]]))
                if not all(tv):
                    continue
                i = s_["loops"][0]["var"]
                lv = s_["lv"]
                if not (lv[0] == "idx" and lv[2] == i and lv[1][0] == "fld" and lv[1][2] == fld and lv[1][1][0] == "idx" and lv[1][1][1] in psyms):
                    chk.broken("%s: destination %s is not <poly>->%s[i]" % (name, sym.show(lv), fld))
                dst = cls[psyms[lv[1][1][1]]]
                m = {}
                for st in sym.subterms(s_["val"]):
                    if st[0] == "idx" and st[1][0] == "fld" and st[1][2] == fld and st[1][1][0] == "idx" and st[1][1][1] in psyms:
                        if st[2] != i:
                            bad = "reads %s while writing index %s" % (sym.show(st), sym.show(i))
                        m[st] = state[cls[psyms[st[1][1][1]]]]
                val = sym.rewrite(s_["val"], m) if m else s_["val"]
                if s_["op"] == "=":
                    state[dst] = val
                elif s_["op"] == "+=":
                    state[dst] = sym.add(state[dst], val)
                elif s_["op"] == "-=":
                    state[dst] = sym.sub(state[dst], val)
                else:
                    chk.broken("%s: operator %s" % (name, s_["op"]))
            ea = init[cls[srcs[0]]] if len(srcs) > 0 else None
            eb = init[cls[srcs[1]]] if len(srcs) > 1 else None
            want = fn(ea, eb, pp)
            r0 = init[cls[res]]
            expect = want if op == "=" else sym.add(r0, want) if op == "+=" else sym.sub(r0, want)
            got = state[cls[res]]
            conf = ", ".join("==".join(c) for c in part if len(c) > 1) or "all arguments distinct"
            if pv is not None:
                conf = "%s = %d, %s" % (sym.show(pp_sym), pv, conf)
            if bad:
                problems.append("with %s: %s" % (conf, bad))
            elif got != expect:
                problems.append("with %s: the result becomes %s, the operation denotes %s (operands as they were on entry)" % (
                    conf, sym.show(got), sym.show(expect)))
            # a source that is not the result must be left unchanged
            for sn in srcs:
                if cls[sn] != cls[res] and state[cls[sn]] != init[cls[sn]]:
                    problems.append("with %s: the source %s is modified" % (conf, sn))
    chk.require(not problems, "R5", key, where=f.where, ok="%d statement(s) over [0,N) on 32-bit integers; %d aliasing configuration(s) composed" % (len(stores), nconf),
                bad="; ".join(problems)[:500], variant=v.name)
    chk.vcount(v.name, "R5.elementwise_functions")


def run(chk):
    prog = Program()
    chk.explanation = (
        "Integer polynomial routines decided by index-map algebra on their loop pieces (symbolic N, a, coefficient "
        "values): monomial multiplications as piecewise-affine negacyclic maps with range partition, index bounds "
        "(affine prover) and sign = (-1)^wraps; schoolbook products as sums over exactly the valid (j, i-j+cN) pairs; "
        "Karatsuba wrappers' reduction; the Karatsuba step as a polynomial identity over the windows found in the "
        "code; coefficient-wise operations against an operator table.")
    chk.trusted = ["clang 14 front end", "symbolic executor / summariser", "affine prover (sa/affine.py)"]
    chk.assume("contract of the monomial functions: 0 <= a < 2N (their own assertion)")
    for v in prog.variants():
        chk.analysed["variants"] = chk.analysed.get("variants", 0) + 1
        check_monomial(chk, v, "torusPolynomialMulByXai", "coefsT", False)
        check_monomial(chk, v, "torusPolynomialMulByXaiMinusOne", "coefsT", True)
        check_monomial(chk, v, "intPolynomialMulByXaiMinusOne", "coefs", True)
        check_schoolbook(chk, v, "torusPolynomialMultNaive_aux", True)
        check_schoolbook(chk, v, "torusPolynomialMultNaive_plain_aux", False)
        for name, op in (("torusPolynomialMultKaratsuba", "="), ("torusPolynomialAddMulRKaratsuba", "+="),
                         ("torusPolynomialSubMulRKaratsuba", "-=")):
            check_wrapper(chk, v, name, op)
        check_karatsuba_step(chk, v)
        for name, spec in ELEMENTWISE.items():
            check_elementwise(chk, v, name, spec)
        # the public naive product delegates to the negacyclic schoolbook on the coefficient arrays
        f = v.fn("torusPolynomialMultNaive")
        ps, _ = summ.pieces(v, f, hooks=NOINLINE)
        calls = [p for p in ps if p["kind"] == "call" and p["name"] == "torusPolynomialMultNaive_aux"]
        r, a, b = [p["n"] for p in f.params]
        ok = len(calls) == 1 and calls[0]["args"][:4] == [P(r, "coefsT"), P(a, "coefs"), P(b, "coefsT"), P(a, "N")]
        chk.require(ok, "R2", "torusPolynomialMultNaive delegates to the negacyclic schoolbook on (result, poly1, poly2, N)", where=f.where,
                    ok="one call with the coefficient arrays", bad="calls: %s" % [summ.show_piece(c) for c in calls], variant=v.name)
