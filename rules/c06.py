"""C06 — homomorphic evaluation is deterministic, thread-safe and history-independent.

Decides (shape): R1 no mutable static that is not thread_local is reachable from the evaluation API;
R2 every object of a class that owns transform scratch buffers has thread_local storage; R3 (fftw)
every FFTW call other than execute/malloc/free runs under the one process-wide planner mutex; R4 no
evaluation function parks a fresh allocation in a static, a parameter or a processor; R5 every transform
overwrites the scratch it reads (index-set coverage); R6 evaluation reads no clock/environment/RNG; R7 every pointer field
of a thread_local processor refers to storage allocated by that object's constructor call (provenance through helper and
accessor functions), never to process-wide storage; R8 no evaluation function writes storage reachable from a key or
parameter-object argument (the objects concurrent evaluations share), not even scratch space.
Not decided: data-race freedom inside libfftw3; memory-model questions of concurrent reads.
"""
import re

from sa import api, sym
from sa.effects import Effects
from sa.facts import Program, walk, calls_in
from sa.symexec import Hooks, run_function, flat
from rules.c15 import rng_statics, referencing, RNG_CALLEES

FFTW_SAFE = {"fftw_execute", "fftw_malloc", "fftw_free", "fftw_execute_dft", "fftw_execute_dft_r2c", "fftw_execute_dft_c2r"}


def is_const_static(s):
    return bool(s.get("const"))


def lock_factory_mutex(v, g):
    """the mutex a function returning a lock object by value locks (constructor argument of the lock it builds), or None"""
    eff, st, ex = run_function(v, g, hooks=Hooks())
    found = set()
    for x in flat(eff):
        if x["e"] == "call" and re.search(r"(lock_guard|unique_lock|scoped_lock)<.*>::(lock_guard|unique_lock|scoped_lock)$", x["name"]) and x.get("args"):
            a0 = x["args"][0]
            if a0 is not None and sym.root_of(a0) is not None and sym.root_of(a0)[0] == "glob":
                found.add(a0)
    return found.pop() if len(found) == 1 else None


def run(chk):
    prog = Program()
    chk.explanation = (
        "Storage-class and call-graph facts over all 10 build variants: inventory of every object with static "
        "storage (namespace scope, class static, function-local static) with constness, thread_local-ness and the "
        "functions referencing it; closure of the evaluation API over the resolved call graph; per-function effects "
        "for parked allocations; lock-dominance of FFTW planner calls on the effect tree; strided index-set "
        "coverage of the transforms' scratch buffers.")
    chk.trusted = ["clang 14 front end", "compile database", "symbolic executor and effects fixpoint"]
    for v in prog.variants():
        vn = v.name
        chk.analysed["variants"] = chk.analysed.get("variants", 0) + 1
        roles = api.roles(v)
        evalfns = [v.defs[u] for u, r in roles.items() if r == "evaluation" and u in v.defs]
        reach = v.reachable([f.usr for f in evalfns])
        chk.set_count("R1.evaluation_closure_functions", len(reach))
        lib_statics = {k: s for k, s in v.statics.items() if s["file"].startswith(("libtfhe", "include")) and s["definition"]}
        chk.set_count("R1.static_objects", len(lib_statics))
        mutable = {k: s for k, s in lib_statics.items() if not is_const_static(s)}
        chk.set_count("R1.mutable_static_objects", len(mutable))
        # who references what
        refs = {}
        for usr, f in v.defs.items():
            for n in walk([f.d.get("body"), f.d.get("inits")]):
                if n.get("k") == "ref" and n.get("rk") in ("global", "static_local", "class_static", "tls") and n.get("q"):
                    key = n["q"] + ("@" + f.q if n.get("rk") == "static_local" else "")
                    if n.get("rk") == "tls" and (n["q"] + "@" + f.q) in lib_statics:
                        key = n["q"] + "@" + f.q        # a thread_local static local of this function
                    if key not in lib_statics and n["q"] in lib_statics:
                        key = n["q"]
                    refs.setdefault(key, set()).add(usr)
                elif n.get("k") == "member" and n.get("static_member"):
                    refs.setdefault(n["static_member"], set()).add(usr)
        tls_undecided = []
        for k, s in sorted(mutable.items()):
            users = refs.get(k, set())
            hit = sorted(users & reach)
            key = "mutable static '%s' (%s) is %s" % (s["q"], s["t"][:40], "thread_local" if s["tls"] else "not reachable from evaluation")
            if s["tls"]:
                # per-thread state is race-free, but it still carries history from call to call: only the FFT processors
                # (whose scratch is fully rewritten by every transform, R5) may be reachable from the evaluation API
                isproc = bool(re.search(r"[Pp]rocessor", s["t"]))
                if isproc or not (users & reach):
                    chk.proved("R1", key, where=s["loc"], detail="per-thread object; referenced by %d functions%s" % (
                        len(users), " (FFT processor: scratch rewritten per transform, see R5)" if isproc else ""), variant=vn)
                else:
                    # race-free; whether a call can observe what an earlier call left there (a cache that is always refreshed before
                    # use is fine, one that is not is a history dependence) is a property of all call sequences: not decided here
                    tls_undecided.append("mutable thread_local '%s' (%s) is used by %s, reachable from the evaluation API: per-thread state that "
                                         "persists between calls; whether a result can depend on earlier calls is not decided" % (
                                             s["q"], s["loc"], sorted(v.qname(u) for u in users & reach)[:3]))
                continue
            # a mutex is the synchronisation object itself
            if re.search(r"\bstd::mutex\b|\bmutex\b", s["t"]):
                chk.proved("R1", "static '%s' is a synchronisation object" % s["q"], where=s["loc"], detail=s["t"], variant=vn,
                           nontrivial=False)
                continue
            if hit:
                p = None
                for f in evalfns:
                    p = v.path(f.usr, lambda u: u in users)
                    if p:
                        break
                chk.refuted("R1", key, where=s["loc"], detail="shared mutable state reachable: %s" % (
                    " -> ".join(v.qname(u) for u in p) if p else [v.qname(u) for u in hit][:3]), variant=vn)
            else:
                chk.proved("R1", key, where=s["loc"], detail="referenced only by %s" % (
                    sorted(v.qname(u) for u in users)[:6] or "no function"), variant=vn)
        # R2 processors are per-thread
        procs = [r for r in v.records.values() if r["file"].startswith("libtfhe/fft_processors") and r.get("has_user_dtor")
                 and any("*" in f["t"] for f in r["fields"]) and re.search(r"[Pp]rocessor", r["name"])]
        chk.set_count("R2.processor_classes", len(procs))
        if not procs:
            chk.broken("no FFT processor class found in %s" % vn)
        for r in procs:
            objs = [s for s in lib_statics.values() if re.sub(r"\bconst\b|\s", "", s["t"]) == r["name"]]
            chk.set_count("R2.processor_objects", len(objs))
            if not objs:
                chk.broken("no object of %s found" % r["name"])
            for s in objs:
                chk.require(s["tls"], "R2", "processor object '%s' of %s is thread_local" % (s["q"], r["name"]), where=s["loc"],
                            ok="thread_local", bad="shared between threads: scratch buffers %s would be raced" % (
                                [f["n"] for f in r["fields"] if "*" in f["t"]][:4]), variant=vn)
            # no other instance is created on the heap / stack by evaluation code
            news = []
            for u in reach:
                g = v.defs.get(u)
                if g is None:
                    continue
                for n in walk(g.d.get("body")):
                    if n.get("k") == "new" and n.get("alloc") == r["name"]:
                        news.append("%s:%s" % (g.file, n["l"]))
                    if n.get("k") == "var" and re.sub(r"\bconst\b|\s", "", n.get("t", "")) == r["name"]:
                        news.append("%s:%s" % (g.file, n["l"]))
            chk.require(not news, "R2", "no further %s instance is created by evaluation code" % r["name"], where=r["loc"],
                        ok="only the thread_local object", bad="instances at %s" % news[:3], variant=vn, nontrivial=False)
        # R3 FFTW planner discipline
        if v.backend == "fftw":
            sites = 0
            mutexes = set()
            for f in v.defined():
                if not f.file.startswith("libtfhe/fft_processors/fftw"):
                    continue
                names = [c.get("callee", "") for c in calls_in(f.d.get("body"))]
                if not any(n.startswith("fftw_") and n not in FFTW_SAFE for n in names):
                    continue
                eff, st, ex = run_function(v, f, hooks=Hooks())
                locked = None

                def scan(effs, locked):
                    nonlocal sites
                    for x in effs:
                        if x["e"] == "call":
                            nm = x["name"]
                            if re.search(r"(lock_guard|unique_lock|scoped_lock)<.*>::(lock_guard|unique_lock|scoped_lock)$", nm):
                                m = x["args"][0] if x["args"] else None
                                if m is not None and m[0] in ("obj", "call"):
                                    # move construction from the lock a factory function returned: the mutex is the factory's
                                    g_ = next((d_ for d_ in v.defs.values() if d_.name == m[1] or d_.q == m[1]), None)
                                    m = lock_factory_mutex(v, g_) if g_ is not None else None
                                locked = m
                                if m is not None:
                                    mutexes.add(m)
                            elif nm.endswith("::lock") and "mutex" in nm:
                                locked = x.get("this")
                                mutexes.add(locked)
                            elif x.get("usr") in v.defs and re.search(r"\b(unique_lock|lock_guard|scoped_lock)<", v.defs[x["usr"]].ret or ""):
                                # a library function that hands out a lock (RAII object returned by value): the mutex is the one it
                                # locks; the lock lives as long as the object the call initialises -- a call whose result is discarded
                                # releases it at the end of the statement and protects nothing
                                m = lock_factory_mutex(v, v.defs[x["usr"]])
                                k_ = next(i_ for i_, y_ in enumerate(effs) if y_ is x)
                                bound = any(y_["e"] == "store" and y_.get("val") == x.get("ret") for y_ in effs[k_ + 1:k_ + 3])
                                if m is not None and bound:
                                    locked = m
                                    mutexes.add(m)
                                elif m is not None:
                                    chk.note("%s: the lock returned by %s at line %s is a discarded temporary: it is released at the end of that statement" % (
                                        f.q, nm, x["l"]))
                            elif nm.startswith("fftw_") and nm not in FFTW_SAFE:
                                sites += 1
                                key = "%s: %s runs under the planner mutex" % (f.q, nm)
                                if locked is None:
                                    chk.refuted("R3", key, where="%s:%s" % (f.file, x["l"]),
                                                detail="no lock is held here; FFTW documents only fftw_execute as thread-safe, "
                                                       "so this call races with planner calls of other threads", variant=vn)
                                else:
                                    chk.proved("R3", key, where="%s:%s" % (f.file, x["l"]), detail="lock on %s is held" % sym.show(locked),
                                               variant=vn)
                        elif x["e"] == "if":
                            scan(x["then"], locked)
                            scan(x["else"], locked)
                        elif x["e"] in ("loop", "while"):
                            scan(x["body"], locked)
                    return locked
                scan(eff, None)
            chk.set_count("R3.fftw_planner_call_sites", sites)
            globs = {m for m in mutexes if m is not None}
            ok_single = len(globs) == 1 and all(sym.root_of(m) is not None and sym.root_of(m)[0] == "glob" for m in globs)
            chk.require(ok_single, "R3", "one process-wide planner mutex", where="libtfhe/fft_processors/fftw",
                        ok="mutex %s" % [sym.show(m) for m in globs], bad="mutex objects used: %s" % [sym.show(m) for m in globs],
                        variant=vn)
        # R4 no parked allocations in evaluation code
        E = Effects(v)
        parked = []
        for u in reach:
            g = v.defs.get(u)
            if g is None or not g.file.startswith("libtfhe/") or g.get("kind") in ("ctor", "dtor"):
                continue
            if roles.get(u) in ("lifecycle", "io", "generation", "parameters"):
                continue
            if re.match(r"^(new|init|alloc)_", g.name):
                continue
            effs, ex = E.effects_of(u)
            names = [p["n"] for p in g.params]
            for x in flat(effs):
                if x["e"] == "store" and isinstance(x.get("val"), tuple) and x["val"][0] in ("new", "obj") and x["lv"][0] != "var":
                    r = sym.root_of(x["lv"])
                    if r is not None and (r[0] == "glob" or (r[0] == "sym" and (r[1] in names or r[1] == "this"))):
                        if x["val"][0] == "obj" and not re.match(r"^(new_|alloc_|malloc|calloc|fftw_malloc)", x["val"][1]):
                            continue
                        st_ = v.statics.get(r[1]) if r[0] == "glob" else None
                        if st_ is not None and st_.get("tls"):
                            continue        # a per-thread cache: no other thread sees it; its history is R1's (undecided) question
                        if r == sym.sym("this") and g.get("record"):
                            insts_ = [s_ for s_ in v.statics.values() if s_.get("definition") and re.sub(r"\bconst\b|\s", "", s_["t"]) == re.sub(r"\s", "", g.record)]
                            made_ = any(n_.get("k") == "new" and n_.get("alloc") == g.record for fn_ in v.defined() for n_ in walk(fn_.d.get("body")))
                            if insts_ and all(s_.get("tls") for s_ in insts_) and not made_:
                                continue    # a method of a class whose only instances are per-thread objects
                        parked.append("%s stores %s into %s at %s:%s" % (g.q, sym.show(x["val"])[:40], sym.show(x["lv"])[:40], g.file, x["l"]))
        chk.require(not parked, "R4", "evaluation code keeps every scratch allocation in a local", where="libtfhe",
                    ok="%d evaluation-reachable functions inspected" % len(reach), bad="; ".join(parked[:3]), variant=vn)
        if tls_undecided:
            chk.broken(tls_undecided[0])
        # R6 no clock/env/RNG
        rs = rng_statics(v)
        rrefs = referencing(v, {s["q"] for s in rs.values()})
        hit = sorted(set(rrefs) & reach)
        chk.require(not hit, "R6", "no function of the evaluation closure references a random generator", where="libtfhe/numeric-functions.cpp",
                    ok="%d RNG objects, referenced by %d functions, none in the closure" % (len(rs), len(rrefs)),
                    bad="referenced by %s" % [v.qname(u) for u in hit][:4], variant=vn)
        bad = []
        for u in reach:
            g = v.defs.get(u)
            if g is None or not g.file.startswith(("libtfhe", "include")):
                continue
            for n in walk(g.d.get("body")):
                if n.get("k") in ("call", "mcall", "construct") and n.get("callee") and RNG_CALLEES.search(n["callee"]):
                    bad.append("%s calls %s at %s:%s" % (g.q, n["callee"], g.file, n["l"]))
        chk.require(not bad, "R6", "no clock, environment or libc RNG call in the evaluation closure", where="libtfhe",
                    ok="%d functions inspected" % len(reach), bad="; ".join(bad[:3]), variant=vn)
        # R5 scratch coverage
        from sa import coverage
        coverage.check_c06_scratch(chk, v)
        # R7 ownership of the buffers behind the thread_local processors
        check_processor_ownership(chk, v, procs, lib_statics)
        # R8 key and parameter objects are shared between threads: evaluation must not write through them
        check_shared_arguments(chk, v, evalfns)
        # R9 no branch or loop of the evaluation closure is decided by an address
        check_address_independence(chk, v, reach)
        check_own_processor(chk, v)


# ------------------------------------------------------------------------------ R7: a per-thread processor owns its buffers
class _InlineLocal(Hooks):
    def __init__(self, fn):
        self.fn = fn

    def want_inline(self, ex, callee, node):
        if callee.get("record") and callee.get("record") == self.fn.get("record"):
            return True            # the object's own helper methods (e.g. plan_fftw)
        return bool(callee.get("static")) and callee.file == self.fn.file and not callee.get("record")


def provenance(v, t, field_vals, tls_names, memo, depth=0):
    """set of tags saying where the storage a pointer term refers to comes from:
    'fresh' (allocated during this call), 'static:<name>' (process-wide storage), 'tls:<name>', 'param', 'unknown'"""
    from sa.pairing import alloc_kind
    out = set()
    if not isinstance(t, tuple) or not t or depth > 12:
        return {"unknown"}
    k = t[0]
    if k == "glob":
        nm = t[1]
        return {("tls:" if nm.split("@")[0] in tls_names else "static:") + nm}
    if k == "new":
        return {"fresh"}
    if k == "sym":
        return {"param"}
    if k in ("int", "float", "str"):
        return set()
    if k == "obj":
        name, args = t[1], t[2]
        g = v.fn(name, required=False) if isinstance(name, str) else None
        if g is not None and g.file.startswith(("libtfhe", "include")):
            rp = return_provenance(v, g, tls_names, memo)
            for tag in rp:
                if isinstance(tag, tuple) and tag[0] == "arg":
                    if tag[1] < len(args) and args[tag[1]] is not None:
                        out |= provenance(v, args[tag[1]], field_vals, tls_names, memo, depth + 1)
                else:
                    out.add(tag)
            return out
        if isinstance(name, str) and (alloc_kind(name) or re.search(r"(alloc|plan_|_new|create)", name)):
            return {"fresh"}
        return {"unknown"}
    if k == "fld":
        base = t[1]
        if base == sym.idx(sym.sym("this"), sym.ZERO) and t[2] in field_vals:
            for val in field_vals[t[2]]:
                out |= provenance(v, val, field_vals, tls_names, memo, depth + 1)
            return out
        # a value loaded from memory reached through a pointer shares that pointer's provenance
        return provenance(v, base, field_vals, tls_names, memo, depth + 1)
    if k in ("idx", "addr"):
        return provenance(v, t[1], field_vals, tls_names, memo, depth + 1)
    if k == "cast":
        return provenance(v, t[2], field_vals, tls_names, memo, depth + 1)
    if k == "cond":
        return provenance(v, t[2], field_vals, tls_names, memo, depth + 1) | provenance(v, t[3], field_vals, tls_names, memo, depth + 1)
    for st in sym.subterms(t):
        if st is not t and st[0] in ("glob", "obj", "new", "sym", "fld"):
            out |= provenance(v, st, field_vals, tls_names, memo, depth + 1)
    return out or {"unknown"}


def return_provenance(v, g, tls_names, memo):
    """provenance tags of the value g returns; ('arg', i) = whatever argument i refers to"""
    if g.usr in memo:
        return memo[g.usr]
    memo[g.usr] = {"unknown"}
    eff, st, ex = run_function(v, g, hooks=Hooks())
    params = {sym.sym(p["n"]): i for i, p in enumerate(g.params)}
    out = set()
    rets = [x for x in flat(eff) if x["e"] == "return" and x.get("val") is not None]
    for x in rets:
        for tag in provenance(v, x["val"], {}, tls_names, memo, 1):
            out.add(tag)
        # map 'param' back to the argument position when the returned term hangs off one parameter
        root = sym.root_of(x["val"]) if x["val"][0] != "cast" else sym.root_of(x["val"][2])
        if "param" in out:
            out.discard("param")
            cand = [i for s_, i in params.items() if sym.contains(x["val"], s_)]
            for i in cand:
                out.add(("arg", i))
            if not cand:
                out.add("unknown")
    memo[g.usr] = out or {"unknown"}
    return memo[g.usr]


def check_processor_ownership(chk, v, procs, lib_statics):
    vn = v.name
    eff_an = Effects(v)
    tls_names = {s["name"] for s in lib_statics.values() if s.get("tls")}
    memo = {}
    for r in procs:
        ctors = [c for c in v.defined() if c.get("record") == r["name"] and c.get("kind") == "ctor" and not c.get("implicit") and not c.get("copy")]
        if len(ctors) != 1:
            chk.broken("constructor of %s not found" % r["name"])
        eff, st, ex = run_function(v, ctors[0], hooks=_InlineLocal(ctors[0]))
        this0 = sym.idx(sym.sym("this"), sym.ZERO)
        field_vals = {}
        for x in flat(eff):
            if x["e"] == "store" and x["lv"][0] == "fld" and x["lv"][1] == this0 and x["op"] == "=":
                field_vals.setdefault(x["lv"][2], []).append(x["val"])
        written = set()
        for m in v.defined():
            if m.get("record") == r["name"] and m.get("kind") == "method":
                for root, path in eff_an.mod(m.usr):
                    if root == ("this",) and path:
                        written.add(path[0])
        ptr_fields = [f["n"] for f in r["fields"] if "*" in f["t"]]
        chk.vcount(vn, "R7.processor_pointer_fields", len(ptr_fields))
        for fname in ptr_fields:
            vals = field_vals.get(fname)
            key = "%s::%s refers to storage owned by this (per-thread) processor object" % (r["name"], fname)
            if not vals:
                chk.assumed("R7", key, where=ctors[0].where, detail="not assigned by the constructor", variant=vn)
                continue
            tags = set()
            for val in vals:
                tags |= provenance(v, val, field_vals, tls_names, memo)
            shared = sorted(t for t in tags if isinstance(t, str) and t.startswith("static:"))
            wr = fname in written
            if shared:
                # shared storage is harmless when no method writes through the field (mod sets of the methods, which include
                # the stores of the assembly kernels through their pointer arguments): e.g. read-only trigonometric tables
                if not wr:
                    chk.proved("R7", "%s::%s refers to per-object storage or to shared storage that is only read" % (r["name"], fname),
                               where=ctors[0].where, detail="points into process-wide storage %s, which no method of %s writes through" % (
                                   [s_[7:] for s_ in shared], r["name"]), variant=vn)
                    continue
                chk.refuted("R7", key, where=ctors[0].where,
                            detail="the constructor installs a pointer into process-wide storage %s (%s): every thread's thread_local processor then "
                                   "transforms in the same memory%s" % (
                                       [s_[7:] for s_ in shared], sym.show(vals[-1])[:80],
                                       "; written by " + ", ".join(sorted(m.name for m in v.defined() if m.get("record") == r["name"] and m.get("kind") == "method"
                                                                      and any(root == ("this",) and path and path[0] == fname for root, path in eff_an.mod(m.usr)))) if wr else ""),
                            variant=vn)
            elif "unknown" in tags:
                chk.assumed("R7", key, where=ctors[0].where, detail="provenance of %s not fully resolved (%s)" % (sym.show(vals[-1])[:60], sorted(map(str, tags))), variant=vn)
            else:
                chk.proved("R7", key, where=ctors[0].where, detail="allocated by the constructor call (%s)" % ", ".join(sorted(map(str, tags))), variant=vn)


# ------------------------------------------------------------------------------ R8: nothing shared between threads is written
def check_shared_arguments(chk, v, evalfns):
    """The objects concurrent evaluations share are the key material and the parameter objects they are handed (all const
    pointers).  No evaluation function may write storage reachable from such an argument -- not even scratch space."""
    from rules import c15, c17
    vn = v.name
    E, balanced = c15.evaluation_effects(v)
    closure, _ = c17.type_closure(v, c17.CLOUD)
    shared_recs = {r for r in closure} | {r for r in v.records if r.endswith("Params") or r.endswith("ParameterSet")}
    ciphertext = {"LweSample", "TLweSample", "TGswSample", "TorusPolynomial", "IntPolynomial", "LagrangeHalfCPolynomial", "TLweSampleFFT"}
    n = 0
    for f in sorted(evalfns, key=lambda f: f.name):
        bad = []
        for (rk, fl), ev in E.mod(f.usr).items():
            if rk[0] != "param":
                continue
            prm = f.params[rk[1]]
            if not prm.get("pointee_const"):
                continue            # an output parameter: owned by the calling thread
            recs = c17.record_names_in_type(prm["t"], v.records)
            # a key / parameter object, or anything reached through a parameter-object field of any argument
            is_shared = bool(recs & shared_recs - ciphertext) or any(x in ("params", "bk_params", "tlwe_params", "in_out_params", "accum_params",
                                                                           "extract_params", "extracted_lweparams", "bk", "bkFFT", "ks") for x in fl)
            if is_shared:
                bad.append("%s%s written at %s (%s)" % (prm["n"], "".join("." + x for x in fl), ev[0], ev[1][:100]))
        shared_params = [p["n"] for p in f.params if p.get("pointee_const") and c17.record_names_in_type(p["t"], v.records) & shared_recs - ciphertext]
        if not shared_params and not bad:
            continue
        n += 1
        chk.require(not bad, "R8", "%s writes nothing reachable from the key / parameter objects it shares with other threads" % f.name, where=f.where,
                    ok="shared arguments %s are only read" % shared_params, bad="; ".join(sorted(bad))[:500], variant=vn)
    chk.vcount(vn, "R8.functions_with_shared_arguments", n)


# ------------------------------------------------------------------------------ R9: control flow does not depend on addresses
def address_dependent_conditions(body):
    """conditions (if / loop / ?: / switch) under body whose value depends on the numeric value of an address: a pointer converted
    to an integer, directly or through locals computed from one.  (An integer turned back into a pointer -- an aligned buffer --
    is a pointer again; pointer differences and comparisons of pointers into one object are not addresses.)  -> [(line, kind)]"""
    def addr_in(e, tainted):
        stack = [e]
        while stack:
            n = stack.pop()
            if isinstance(n, list):
                stack.extend(n)
                continue
            if not isinstance(n, dict):
                continue
            if n.get("k") == "cast" and n.get("ck") == "IntegralToPointer":
                continue
            if n.get("k") == "cast" and n.get("ck") == "PointerToIntegral":
                return True
            if n.get("k") == "ref" and n.get("id") in tainted:
                return True
            stack.extend(x for x in n.values() if isinstance(x, (dict, list)))
        return False
    tainted = set()
    for _ in range(6):
        before = len(tainted)
        for n in walk(body):
            if n.get("k") == "var" and n.get("init") is not None and "id" in n and not str(n.get("t", "")).rstrip().endswith("*") \
                    and addr_in(n["init"], tainted):
                tainted.add(n["id"])
            elif n.get("k") == "assign" and isinstance(n.get("a"), dict) and n["a"].get("k") == "ref" and "id" in n["a"] \
                    and not str(n["a"].get("t", "")).rstrip().endswith("*") and addr_in(n.get("b"), tainted):
                tainted.add(n["a"]["id"])
        if len(tainted) == before:
            break
    out, ncond = [], 0
    for n in walk(body):
        if n.get("k") in ("if", "for", "while", "do", "cond", "switch") and isinstance(n.get("c"), dict):
            ncond += 1
            if addr_in(n["c"], tainted):
                out.append((n.get("l"), n["k"]))
    return out, ncond


_R9_EXAMPLE = """#include <stdint.h>
void peeled(int *res, const double *src, int N) {
    int i = 0;
    for (; i < N && (uintptr_t(res + i) & 31) != 0; i++) res[i] = (int) src[i];
    uintptr_t a = (uintptr_t) res;
    if (a % 16) res[0] = 1;
}
void clean(int *res, const double *src, int N) {
    double *al = (double *) (((uintptr_t) src + 31) & ~(uintptr_t) 31);
    for (int i = 0; i < N && res + i != res + N; i++) res[i] = (int) al[i];
}
"""


def check_own_processor(chk, v):
    """R10: the Lagrange-domain kernels of the back-end reach the FFT processor only through the polynomial they write (their first,
    non-const parameter) or through the calling thread's own thread_local object -- never through the `proc` field of a const
    operand: operands (rows of a shared bootstrapping key) may have been created by another thread, whose processor theirs is
    (known finding D7: that pointer dangles once the creating thread has exited).  Every term `X->proc->...` with X rooted at a
    parameter declared pointer-to-const is a violation with the function and the field named."""
    from sa import summ, sym as _sym
    from sa.symexec import flat, run_function
    n = 0
    for f in v.defined():
        if not f.file.endswith("lagrangehalfc_impl.cpp") or not f.get("externC", True):
            continue
        cpars = {_sym.sym(p_["n"]) for p_ in f.params if (p_["t"] or "").lstrip().startswith("const ") and "*" in (p_["t"] or "")}
        if not cpars:
            continue
        eff = run_function(v, f, hooks=summ.LOCAL_HELPERS)[0]
        hit = None
        for x in flat(eff):
            terms = [x.get(k_) for k_ in ("val", "lv", "cond", "lo", "hi")] + list(x.get("args") or [])
            for t in terms:
                if not isinstance(t, tuple):
                    continue
                for st_ in _sym.subterms(t):
                    if st_[0] == "fld" and st_[1][0] == "idx" and st_[1][1][0] == "fld" and st_[1][1][2] == "proc" and _sym.root_of(st_[1][1]) in cpars:
                        hit = (st_, x.get("l"))
                        break
                if hit:
                    break
            if hit:
                break
        n += 1
        key = "%s reaches the FFT processor only through the polynomial it writes" % f.name
        if hit:
            chk.refuted("R10", key, where="%s:%s" % (f.file, hit[1]), variant=v.name,
                        detail="reads %s: the processor of a const operand, i.e. of whichever thread created that operand (a row of the shared key), "
                               "not of the calling thread" % _sym.show(hit[0])[:80])
        else:
            chk.proved("R10", key, where=f.where, variant=v.name, detail="no `operand->proc->...` term", nontrivial=False)
    chk.vcount(v.name, "R10.lagrange_kernels", n)


def check_address_independence(chk, v, reach):
    from sa.facts import parse_snippet
    vn = v.name
    if not getattr(chk, "_r9_selftest", False):
        ex = parse_snippet(_R9_EXAMPLE, "r9_example")
        hit, _n = address_dependent_conditions(ex["peeled"]["body"])
        miss, _m = address_dependent_conditions(ex["clean"]["body"])
        if len(hit) != 2 or miss:
            chk.broken("R9: the detector of address-dependent conditions does not behave as expected on its example (%s / %s)" % (hit, miss))
        chk._r9_selftest = True
    found, nfun, ncond = [], 0, 0
    for u in reach:
        g = v.defs.get(u)
        if g is None or not g.file.startswith(("libtfhe", "include")):
            continue
        nfun += 1
        hits, n = address_dependent_conditions(g.d.get("body"))
        ncond += n
        found += ["%s:%s (%s in %s)" % (g.file, l, k, g.name) for l, k in hits]
    chk.vcount(vn, "R9.conditions_inspected", ncond)
    if found:
        # which alternative runs depends on where the allocator placed a buffer, i.e. on the thread and on what ran before; that
        # is harmless only if all alternatives compute the same values, which this analysis cannot establish for scalar-versus-
        # vector code: it is reported as undecided, never as a pass
        chk.broken("C06.R9: control flow of the evaluation closure depends on an address at %s; the result is history-independent only if "
                   "every alternative computes the same values, which is not decided" % "; ".join(found[:3]))
    chk.proved("R9", "no branch or loop condition of the evaluation closure depends on the numeric value of an address", where="libtfhe",
               detail="%d conditions in %d functions inspected (pointer-to-integer conversions, directly or through locals)" % (ncond, nfun), variant=vn)
