"""C06 — homomorphic evaluation is deterministic, thread-safe and history-independent.

Decides (shape): R1 no mutable static that is not thread_local is reachable from the evaluation API;
R2 every object of a class that owns transform scratch buffers has thread_local storage; R3 (fftw)
every FFTW call other than execute/malloc/free runs under the one process-wide planner mutex; R4 no
evaluation function parks a fresh allocation in a static, a parameter or a processor; R5 every transform
overwrites the scratch it reads (index-set coverage); R6 evaluation reads no clock/environment/RNG.
Not decided: data-race freedom inside libfftw3; memory-model questions of concurrent reads.
"""
import re

from sa import api, sym
from sa.effects import Effects
from sa.facts import Program, walk, calls_in
from sa.symexec import Hooks, run_function, flat
from rules.c15 import rng_statics, referencing, RNG_CALLEES

FFTW_SAFE = {"fftw_execute", "fftw_malloc", "fftw_free", "fftw_execute_dft", "fftw_execute_dft_r2c", "fftw_execute_dft_c2r"}


def is_const_static(s):
    return bool(s.get("const"))


def run(chk):
    prog = Program()
    chk.explanation = (
        "Storage-class and call-graph facts over all 10 build variants: inventory of every object with static "
        "storage (namespace scope, class static, function-local static) with constness, thread_local-ness and the "
        "functions referencing it; closure of the evaluation API over the resolved call graph; per-function effects "
        "for parked allocations; lock-dominance of FFTW planner calls on the effect tree; strided index-set "
        "coverage of the transforms' scratch buffers.")
    chk.trusted = ["clang 14 front end", "compile database", "symbolic executor and effects fixpoint"]
    for v in prog.variants():
        vn = v.name
        chk.analysed["variants"] = chk.analysed.get("variants", 0) + 1
        roles = api.roles(v)
        evalfns = [v.defs[u] for u, r in roles.items() if r == "evaluation" and u in v.defs]
        reach = v.reachable([f.usr for f in evalfns])
        chk.set_count("R1.evaluation_closure_functions", len(reach))
        lib_statics = {k: s for k, s in v.statics.items() if s["file"].startswith(("libtfhe", "include")) and s["definition"]}
        chk.set_count("R1.static_objects", len(lib_statics))
        mutable = {k: s for k, s in lib_statics.items() if not is_const_static(s)}
        chk.set_count("R1.mutable_static_objects", len(mutable))
        # who references what
        refs = {}
        for usr, f in v.defs.items():
            for n in walk([f.d.get("body"), f.d.get("inits")]):
                if n.get("k") == "ref" and n.get("rk") in ("global", "static_local", "class_static", "tls") and n.get("q"):
                    key = n["q"] + ("@" + f.q if n.get("rk") == "static_local" else "")
                    if key not in lib_statics and n["q"] in lib_statics:
                        key = n["q"]
                    refs.setdefault(key, set()).add(usr)
                elif n.get("k") == "member" and n.get("static_member"):
                    refs.setdefault(n["static_member"], set()).add(usr)
        for k, s in sorted(mutable.items()):
            users = refs.get(k, set())
            hit = sorted(users & reach)
            key = "mutable static '%s' (%s) is %s" % (s["q"], s["t"][:40], "thread_local" if s["tls"] else "not reachable from evaluation")
            if s["tls"]:
                # per-thread state is race-free, but it still carries history from call to call: only the FFT processors
                # (whose scratch is fully rewritten by every transform, R5) may be reachable from the evaluation API
                isproc = bool(re.search(r"[Pp]rocessor", s["t"]))
                if isproc or not (users & reach):
                    chk.proved("R1", key, where=s["loc"], detail="per-thread object; referenced by %d functions%s" % (
                        len(users), " (FFT processor: scratch rewritten per transform, see R5)" if isproc else ""), variant=vn)
                else:
                    chk.refuted("R1", "mutable thread_local '%s' carries state between evaluation calls" % s["q"], where=s["loc"],
                                detail="written/read by %s, reachable from the evaluation API: the result of a call can depend on what ran before "
                                       "on the same thread" % sorted(v.qname(u) for u in users & reach)[:3], variant=vn)
                continue
            # a mutex is the synchronisation object itself
            if re.search(r"\bstd::mutex\b|\bmutex\b", s["t"]):
                chk.proved("R1", "static '%s' is a synchronisation object" % s["q"], where=s["loc"], detail=s["t"], variant=vn,
                           nontrivial=False)
                continue
            if hit:
                p = None
                for f in evalfns:
                    p = v.path(f.usr, lambda u: u in users)
                    if p:
                        break
                chk.refuted("R1", key, where=s["loc"], detail="shared mutable state reachable: %s" % (
                    " -> ".join(v.qname(u) for u in p) if p else [v.qname(u) for u in hit][:3]), variant=vn)
            else:
                chk.proved("R1", key, where=s["loc"], detail="referenced only by %s" % (
                    sorted(v.qname(u) for u in users)[:6] or "no function"), variant=vn)
        # R2 processors are per-thread
        procs = [r for r in v.records.values() if r["file"].startswith("libtfhe/fft_processors") and r.get("has_user_dtor")
                 and any("*" in f["t"] for f in r["fields"]) and re.search(r"[Pp]rocessor", r["name"])]
        chk.set_count("R2.processor_classes", len(procs))
        if not procs:
            chk.broken("no FFT processor class found in %s" % vn)
        for r in procs:
            objs = [s for s in lib_statics.values() if re.sub(r"\bconst\b|\s", "", s["t"]) == r["name"]]
            chk.set_count("R2.processor_objects", len(objs))
            if not objs:
                chk.broken("no object of %s found" % r["name"])
            for s in objs:
                chk.require(s["tls"], "R2", "processor object '%s' of %s is thread_local" % (s["q"], r["name"]), where=s["loc"],
                            ok="thread_local", bad="shared between threads: scratch buffers %s would be raced" % (
                                [f["n"] for f in r["fields"] if "*" in f["t"]][:4]), variant=vn)
            # no other instance is created on the heap / stack by evaluation code
            news = []
            for u in reach:
                g = v.defs.get(u)
                if g is None:
                    continue
                for n in walk(g.d.get("body")):
                    if n.get("k") == "new" and n.get("alloc") == r["name"]:
                        news.append("%s:%s" % (g.file, n["l"]))
                    if n.get("k") == "var" and re.sub(r"\bconst\b|\s", "", n.get("t", "")) == r["name"]:
                        news.append("%s:%s" % (g.file, n["l"]))
            chk.require(not news, "R2", "no further %s instance is created by evaluation code" % r["name"], where=r["loc"],
                        ok="only the thread_local object", bad="instances at %s" % news[:3], variant=vn, nontrivial=False)
        # R3 FFTW planner discipline
        if v.backend == "fftw":
            sites = 0
            mutexes = set()
            for f in v.defined():
                if not f.file.startswith("libtfhe/fft_processors/fftw"):
                    continue
                names = [c.get("callee", "") for c in calls_in(f.d.get("body"))]
                if not any(n.startswith("fftw_") and n not in FFTW_SAFE for n in names):
                    continue
                eff, st, ex = run_function(v, f, hooks=Hooks())
                locked = None

                def scan(effs, locked):
                    nonlocal sites
                    for x in effs:
                        if x["e"] == "call":
                            nm = x["name"]
                            if re.search(r"(lock_guard|unique_lock|scoped_lock)<.*>::(lock_guard|unique_lock|scoped_lock)$", nm):
                                m = x["args"][0] if x["args"] else None
                                locked = m
                                if m is not None:
                                    mutexes.add(m)
                            elif nm.endswith("::lock") and "mutex" in nm:
                                locked = x.get("this")
                                mutexes.add(locked)
                            elif nm.startswith("fftw_") and nm not in FFTW_SAFE:
                                sites += 1
                                key = "%s: %s runs under the planner mutex" % (f.q, nm)
                                if locked is None:
                                    chk.refuted("R3", key, where="%s:%s" % (f.file, x["l"]),
                                                detail="no lock is held here; FFTW documents only fftw_execute as thread-safe, "
                                                       "so this call races with planner calls of other threads", variant=vn)
                                else:
                                    chk.proved("R3", key, where="%s:%s" % (f.file, x["l"]), detail="lock on %s is held" % sym.show(locked),
                                               variant=vn)
                        elif x["e"] == "if":
                            scan(x["then"], locked)
                            scan(x["else"], locked)
                        elif x["e"] in ("loop", "while"):
                            scan(x["body"], locked)
                    return locked
                scan(eff, None)
            chk.set_count("R3.fftw_planner_call_sites", sites)
            globs = {m for m in mutexes if m is not None}
            ok_single = len(globs) == 1 and all(sym.root_of(m) is not None and sym.root_of(m)[0] == "glob" for m in globs)
            chk.require(ok_single, "R3", "one process-wide planner mutex", where="libtfhe/fft_processors/fftw",
                        ok="mutex %s" % [sym.show(m) for m in globs], bad="mutex objects used: %s" % [sym.show(m) for m in globs],
                        variant=vn)
        # R4 no parked allocations in evaluation code
        E = Effects(v)
        parked = []
        for u in reach:
            g = v.defs.get(u)
            if g is None or not g.file.startswith("libtfhe/") or g.get("kind") in ("ctor", "dtor"):
                continue
            if roles.get(u) in ("lifecycle", "io", "generation", "parameters"):
                continue
            if re.match(r"^(new|init|alloc)_", g.name):
                continue
            effs, ex = E.effects_of(u)
            names = [p["n"] for p in g.params]
            for x in flat(effs):
                if x["e"] == "store" and isinstance(x.get("val"), tuple) and x["val"][0] in ("new", "obj") and x["lv"][0] != "var":
                    r = sym.root_of(x["lv"])
                    if r is not None and (r[0] == "glob" or (r[0] == "sym" and (r[1] in names or r[1] == "this"))):
                        if x["val"][0] == "obj" and not re.match(r"^(new_|alloc_|malloc|calloc|fftw_malloc)", x["val"][1]):
                            continue
                        parked.append("%s stores %s into %s at %s:%s" % (g.q, sym.show(x["val"])[:40], sym.show(x["lv"])[:40], g.file, x["l"]))
        chk.require(not parked, "R4", "evaluation code keeps every scratch allocation in a local", where="libtfhe",
                    ok="%d evaluation-reachable functions inspected" % len(reach), bad="; ".join(parked[:3]), variant=vn)
        # R6 no clock/env/RNG
        rs = rng_statics(v)
        rrefs = referencing(v, {s["q"] for s in rs.values()})
        hit = sorted(set(rrefs) & reach)
        chk.require(not hit, "R6", "no function of the evaluation closure references a random generator", where="libtfhe/numeric-functions.cpp",
                    ok="%d RNG objects, referenced by %d functions, none in the closure" % (len(rs), len(rrefs)),
                    bad="referenced by %s" % [v.qname(u) for u in hit][:4], variant=vn)
        bad = []
        for u in reach:
            g = v.defs.get(u)
            if g is None or not g.file.startswith(("libtfhe", "include")):
                continue
            for n in walk(g.d.get("body")):
                if n.get("k") in ("call", "mcall", "construct") and n.get("callee") and RNG_CALLEES.search(n["callee"]):
                    bad.append("%s calls %s at %s:%s" % (g.q, n["callee"], g.file, n["l"]))
        chk.require(not bad, "R6", "no clock, environment or libc RNG call in the evaluation closure", where="libtfhe",
                    ok="%d functions inspected" % len(reach), bad="; ".join(bad[:3]), variant=vn)
        # R5 scratch coverage
        from sa import coverage
        coverage.check_c06_scratch(chk, v)
