"""C17 — the exported cloud key contains only public evaluation material.

Decides (shape): R1 type confinement, R2 writer confinement (call graph + touched
fields), R3 prefix, R4 size is a function of the parameters only, R5 import
confinement, R6 key generation stores values derived from secret-key storage into key material only masked
(inter-procedural secret-value flow, sa/secretflow.py).  R7 the key-set generator hands every secret key object it
creates to the key generator of its type, unconditionally and before any other use, in every build variant.
Not decided: that the masks and noise are statistically
good (C07) and that the masked encodings hide the key computationally.
"""
import re

from sa.facts import Program, walk, calls_in
from sa import ioseq

SECRET_RECORDS = ("LweKey", "TLweKey", "TGswKey")
SECRET_SET = "TFheGateBootstrappingSecretKeySet"
CLOUD = "TFheGateBootstrappingCloudKeySet"
CLOUD_EXPORTS = ("export_tfheGateBootstrappingCloudKeySet_toFile", "export_tfheGateBootstrappingCloudKeySet_toStream")
CLOUD_IMPORTS = ("new_tfheGateBootstrappingCloudKeySet_fromFile", "new_tfheGateBootstrappingCloudKeySet_fromStream")
SECRET_EXPORTS = ("export_tfheGateBootstrappingSecretKeySet_toFile", "export_tfheGateBootstrappingSecretKeySet_toStream")


def record_names_in_type(t, records):
    names = set()
    for tok in re.findall(r"[A-Za-z_][A-Za-z_0-9:]*", t):
        if tok in records:
            names.add(tok)
    return names


def type_closure(v, root):
    seen, order, parent = set(), [], {}
    stack = [root]
    while stack:
        r = stack.pop()
        if r in seen or r not in v.records:
            continue
        seen.add(r)
        order.append(r)
        for f in v.records[r]["fields"]:
            for n in record_names_in_type(f["t"], v.records):
                if n not in seen:
                    parent.setdefault(n, (r, f["n"]))
                    stack.append(n)
        for b in v.records[r].get("bases", []):
            for n in record_names_in_type(b, v.records):
                parent.setdefault(n, (r, "<base>"))
                stack.append(n)
    return seen, parent


def chain(parent, n):
    out = [n]
    while n in parent:
        n, fld = parent[n]
        out.append("%s.%s" % (n, fld))
    return " <- ".join(out)


KEYGEN_ENTRY = "new_random_gate_bootstrapping_secret_keyset"


def check_secret_values(chk, v, cloud_records):
    """R6: values derived from secret-key storage reach the key material only masked (sa/secretflow.py)"""
    from sa import secretflow, sym
    vn = v.name
    flow = secretflow.Flow(v, cloud_records)
    entry = v.fn(KEYGEN_ENTRY)
    reach = v.reachable([entry.usr])
    keyed = []
    for u in reach:
        f = v.defs.get(u)
        if f is None or not f.file.startswith("libtfhe"):
            continue
        if f.usr == entry.usr or any(record_names_in_type(p["t"], v.records) & set(secretflow.SECRET_RECORDS) for p in f.params):
            keyed.append(f)
    chk.vcount(vn, "R6.key_holding_functions", len(keyed))
    for f in sorted(keyed, key=lambda f: f.name):
        flow.analyse(f, frozenset())
    seen_ref = set()
    nflow = nbase = 0
    for (usr, data_idx), res in sorted(flow.memo.items(), key=lambda kv: (v.defs[kv[0][0]].name, sorted(kv[0][1]))):
        f = v.defs[usr]
        if res["unknown"]:
            chk.broken("C17.R6 %s: %s" % (f.name, res["unknown"][0]))
        if data_idx:
            nflow += 1
        if res.get("base_mask"):
            nbase += 1
        mine = [r for r in res["refuted"] if r["fn"] == f.name]
        names = [f.params[i]["n"] for i in sorted(data_idx)]
        key = "%s%s emits secret-derived values only masked" % (f.name, (" (secret data in %s)" % ", ".join(names)) if names else "")
        if not (data_idx or res.get("holds_key")):
            continue
        if mine:
            for r in mine:
                if (r["where"], r["slot"]) in seen_ref:
                    continue
                seen_ref.add((r["where"], r["slot"]))
                hints = "; ".join(sorted({w for _, w in flow.log if "bounded evidence" not in w}))
                chk.refuted("R6", key, where=r["where"], detail="%s = %s is written in clear via %s; %s%s" % (
                    r["slot"], r["val"], " -> ".join(r["chain"]), r["detail"], (" [" + hints + "]") if hints else ""), variant=vn)
        else:
            what = []
            if res["masks"]:
                what.append("masks parameter(s) %s completely" % [f.params[k]["n"] for k in sorted(res["masks"])])
            if res["n_clear"]:
                what.append("%d clear write(s) of secret-derived data, %d handed to the caller, the rest justified by masking of the same object" % (
                    res["n_clear"], len(res["clear"])))
            if res["n_masked_calls"]:
                what.append("%d call(s) to masking functions" % res["n_masked_calls"])
            bounded = [w for fn_, w in flow.log if fn_ == f.name and "bounded evidence" in w]
            if bounded:
                chk.assumed("R6", key, where=f.where, detail="; ".join(what + bounded), variant=vn)
            else:
                chk.proved("R6", key, where=f.where, detail="; ".join(what) or "no secret-derived value leaves through non-secret storage", variant=vn)
    for fn_, what in flow.log:
        chk.note("R6 %s: %s" % (fn_, what))
    chk.vcount(vn, "R6.secret_data_flows", nflow)
    chk.vcount(vn, "R6.base_masking_primitives", nbase)


def check_export_statelessness(chk, v):
    """R8: the exported bytes are a function of the exported object (size from the parameters, cloud export a prefix of the secret
    export, the same bytes on every call): no function reachable from the export API references a mutable object with static or
    thread storage.  Such state (a pool of recycled section objects, a cache) makes the output depend on what the process exported
    before unless it is reset completely, which this analysis does not decide: a hit is reported as undecided (exit 2), not as a pass."""
    import re as _re
    from sa import api as _api
    from rules.c06 import is_const_static
    vn = v.name
    pubs = _api.public_functions(v)
    entry = [u for u, f in pubs.items() if _re.match(r"^export_", f.name)]
    reach = v.reachable(entry)
    chk.vcount(vn, "R8.export_entry_points", len(entry))
    chk.vcount(vn, "R8.export_closure_functions", len(reach))
    lib_statics = {k: s_ for k, s_ in v.statics.items() if s_["file"].startswith(("libtfhe", "include")) and s_["definition"]}
    mutable = {k: s_ for k, s_ in lib_statics.items() if not is_const_static(s_) and not _re.search(r"\bmutex\b", s_["t"])}
    hits = {}
    for usr in reach:
        f = v.defs.get(usr)
        if f is None or not f.file.startswith(("libtfhe", "include")):
            continue
        for n in walk([f.d.get("body"), f.d.get("inits")]):
            if n.get("k") == "ref" and n.get("rk") in ("global", "static_local", "class_static", "tls") and n.get("q"):
                key = n["q"] + ("@" + f.q if n.get("rk") == "static_local" else "")
                if key not in lib_statics and n["q"] in lib_statics:
                    key = n["q"]
                if key in mutable:
                    hits.setdefault(key, []).append("%s (%s:%s)" % (f.name, f.file, n.get("l")))
    if hits:
        k0 = sorted(hits)[0]
        chk.broken("C17.R8: the export API reaches mutable %s state '%s' (%s) in %s; the exported bytes then depend on the history of the process "
                   "unless that state is reset completely, which is not decided" % (
                       "per-thread" if mutable[k0].get("tls") else "static", k0, mutable[k0]["t"][:40], hits[k0][0]))
    chk.proved("R8", "no function reachable from the export API references mutable static or per-thread state", where="libtfhe/tfhe_io.cpp",
               detail="%d functions reachable from %d export entry points" % (len(reach), len(entry)), variant=vn)


def run(chk):
    prog = Program()
    chk.explanation = (
        "Static confinement of the cloud key: (R1) the record-type closure of the cloud key set reaches no "
        "secret-key record; (R2) no function reachable from the cloud export entry points takes, returns or "
        "dereferences a secret-key record, and the op sequence it emits reads only fields of public records; "
        "(R3) the secret export's op sequence is the cloud export's sequence followed only by key-content ops; "
        "(R4) the cloud sequence's byte count is a symbolic function of the parameters only; (R5) the cloud "
        "importers reach no secret-key reader or constructor; (R6) in the functions reachable from key generation a value "
        "computed from secret-key storage reaches non-secret storage only as a product with the destination's fresh uniform "
        "mask or as the plaintext of an object the key-holding function masks completely; a clear write that is masked only "
        "by a later pass is compared slot by slot with that pass.")
    chk.trusted = ["clang 14 front end (type checking, callee resolution, record layouts)",
                   "cmake compile database of the 5 back-end targets x 2 builds"]
    chk.analysed["variants"] = 0
    for v in prog.variants():
        chk.analysed["variants"] += 1
        chk.analysed["functions"] = max(chk.analysed.get("functions", 0), len(v.defs))
        vn = v.name
        for need in SECRET_RECORDS + (CLOUD, SECRET_SET):
            if need not in v.records:
                chk.broken("record %s not found in %s" % (need, vn))
        check_export_statelessness(chk, v)
        # R1 ------------------------------------------------------------------
        seen, parent = type_closure(v, CLOUD)
        chk.set_count("R1.records_in_cloud_closure", len(seen))
        for s in SECRET_RECORDS + (SECRET_SET,):
            chk.require(s not in seen, "R1", "closure(%s) excludes %s" % (CLOUD, s),
                        where=v.records[CLOUD]["loc"],
                        ok="closure = {%s}" % ", ".join(sorted(seen)),
                        bad="secret record reachable: " + chain(parent, s), variant=vn)
        # IntPolynomial is how TLWE/TGSW keys store their bits; it must not be reachable either
        chk.require("IntPolynomial" not in seen, "R1", "closure(%s) excludes IntPolynomial key storage" % CLOUD,
                    where=v.records[CLOUD]["loc"], ok="not reachable",
                    bad="reachable: " + chain(parent, "IntPolynomial"), variant=vn)
        # R2 / R5 -------------------------------------------------------------
        for group, rule, entries in (("export", "R2", CLOUD_EXPORTS), ("import", "R5", CLOUD_IMPORTS)):
            for ename in entries:
                ef = v.fn(ename)
                chk.count(rule + ".entry_points_seen")
                reach = v.reachable([ef.usr])
                nfun = 0
                for usr in reach:
                    f = v.decls.get(usr)
                    if f is None or not f.file.startswith(("libtfhe", "include")):
                        continue
                    nfun += 1
                    sig = [p["t"] for p in f.params] + [f.ret] + ([f.get("record")] if f.get("record") else [])
                    hit = [s for s in SECRET_RECORDS + (SECRET_SET,) if any(s in record_names_in_type(t or "", v.records) for t in sig)]
                    if hit:
                        p = v.path(ef.usr, lambda u: u == usr)
                        chk.refuted(rule, "%s reaches no function over secret-key records" % ename, where=f.where,
                                    detail="%s has %s in its signature; path: %s" % (
                                        f.q, hit, " -> ".join(v.qname(u) for u in p)), variant=vn)
                    if usr in v.defs:
                        for n in walk(v.defs[usr].d.get("body")):
                            if n.get("k") == "member" and n.get("record") in SECRET_RECORDS + (SECRET_SET,):
                                p = v.path(ef.usr, lambda u: u == usr)
                                chk.refuted(rule, "%s touches no field of a secret-key record" % ename,
                                            where="%s:%s" % (f.file, n["l"]),
                                            detail="%s reads %s::%s; path: %s" % (
                                                f.q, n["record"], n["field"], " -> ".join(v.qname(u) for u in p)),
                                            variant=vn)
                chk.proved(rule, "%s reaches no function over secret-key records" % ename, where=ef.where,
                           detail="%d reachable library functions inspected" % nfun, variant=vn)
                chk.proved(rule, "%s touches no field of a secret-key record" % ename, where=ef.where,
                           detail="member accesses of %d reachable bodies inspected" % nfun, variant=vn)
                if group == "import":
                    chk.require(CLOUD in ef.ret and SECRET_SET not in ef.ret, "R5",
                                "%s returns the cloud record" % ename, where=ef.where, ok=ef.ret, bad=ef.ret,
                                variant=vn, nontrivial=False)
        # R3 / R4 ------------------------------------------------------------
        ioseq.check_c17_sequences(chk, v, CLOUD_EXPORTS, SECRET_EXPORTS)
        # R6 ------------------------------------------------------------------
        check_secret_values(chk, v, seen)
        check_keys_drawn(chk, v)


# ------------------------------------------------------------------------------ R7: secret keys are drawn before they are used
KEYGEN_OF = {"LweKey": "lweKeyGen", "TLweKey": "tLweKeyGen", "TGswKey": "tGswKeyGen"}


def check_keys_drawn(chk, v):
    """In the key-set generator every secret key object it creates is handed, unconditionally and before any other use, to
    the key generator of its type (in EVERY build variant: a call that lives inside an assert() disappears with NDEBUG).
    Otherwise the keys that encrypt the cloud key are whatever the constructor left there (zeros or heap garbage), i.e.
    not secret."""
    from sa import summ, sym
    vn = v.name
    f = v.fn(KEYGEN_ENTRY)
    ps, _ = summ.pieces(v, f, hooks=summ.InlineLib(only=lambda fn: False))
    created = {}
    for k, p in enumerate(ps):
        if p["kind"] == "call" and p.get("eff") and p["eff"].get("ret") is not None and p["eff"]["ret"][0] == "obj":
            m = re.match(r"^new_(\w+)$", p["name"])
            if m and m.group(1) in KEYGEN_OF:
                created[p["eff"]["ret"]] = (m.group(1), k, p["line"])
    chk.vcount(vn, "R7.secret_keys_created", len(created))
    if len(created) < 2:
        chk.broken("%s: expected the LWE key and the TGSW key to be created here, found %d" % (KEYGEN_ENTRY, len(created)))
    for obj, (rec, k0, line) in sorted(created.items(), key=lambda kv: kv[1][1]):
        key = "%s: the %s created at line %s is drawn by %s before it is used" % (KEYGEN_ENTRY, rec, line, KEYGEN_OF[rec])
        uses = [(k, p) for k, p in enumerate(ps) if k > k0 and p["kind"] == "call" and any(a is not None and sym.contains(a, obj) for a in p["args"])]
        kg = v.fn(KEYGEN_OF[rec])

        def draws(p):
            if p["name"] == KEYGEN_OF[rec] and p["args"] and p["args"][0] == obj:
                return True
            g_ = v.defs.get((p.get("eff") or {}).get("usr"))
            # a helper that receives the key object and reaches the generator of its type
            return g_ is not None and g_.file.startswith("libtfhe") and any(a == obj for a in p["args"]) and kg.usr in v.reachable([g_.usr]) \
                and not g_.name.startswith(("tfhe_create", "new_", "delete_"))
        gen = [(k, p) for k, p in uses if draws(p)]
        if not gen:
            chk.refuted("R7", key, where="%s:%s" % (f.file, line),
                        detail="%s is never called on it in this build variant%s: the key keeps the contents its constructor left (zeros or uninitialised "
                               "memory) and everything encrypted under it is readable" % (
                                   KEYGEN_OF[rec], " (the call sits inside an assert(), which NDEBUG removes)" if v.cfg == "optim" else ""), variant=vn)
            continue
        gk, gp = gen[0]
        first_use = uses[0][0]
        ok = not gp["guards"] and not gp["loops"] and gk == first_use
        chk.require(ok, "R7", key, where="%s:%s" % (f.file, gp["line"]), ok="unconditional, first use of the object",
                    bad="the call is %s" % ("conditional" if gp["guards"] else "inside a loop" if gp["loops"] else "preceded by another use at line %s" % uses[0][1]["line"]),
                    variant=vn)
