"""C15 — evaluation leaves inputs and keys untouched, accepts aliased output, uses no RNG.

Decides (shape): R1 deep mod sets of every evaluation-API function stay inside its non-const parameters
(the one write through a const input, the decomposition offset, must be proved balanced); R2 no
evaluation function reaches the RNG; R3 in every gate all reads of the inputs precede the first write of
the output (or the op is element-wise same-index); R4 no key record is written.
"""
import re

from sa import api, asm, sym
from sa.sym import I
from sa.effects import Effects, fields_of
from sa.facts import Program, walk
from sa.symexec import Hooks, run_function, flat

RNG_CALLEES = re.compile(r"(^|::)(rand|srand|random|srandom|rand_r|drand48|lrand48|arc4random|getrandom|time|clock|"
                         r"gettimeofday|clock_gettime|getenv|secure_getenv)$|random_device|::now$")
KEY_RECORDS = ("LweKey", "TLweKey", "TGswKey", "LweBootstrappingKey", "LweBootstrappingKeyFFT", "LweKeySwitchKey",
               "TFheGateBootstrappingCloudKeySet", "TFheGateBootstrappingSecretKeySet")
GATE = re.compile(r"^boots[A-Z]+$")


def rng_statics(v):
    """statics whose type is a random engine or distribution"""
    return {k: s for k, s in v.statics.items()
            if re.search(r"random_engine|mersenne|linear_congruential|_distribution|random_device|seed_seq", s["t"])}


def referencing(v, qnames):
    """usr -> set of statics (by q) referenced in its body"""
    out = {}
    for usr, f in v.defs.items():
        hit = set()
        for n in walk([f.d.get("body"), f.d.get("inits")]):
            if n.get("k") == "ref" and n.get("q") in qnames:
                hit.add(n["q"])
        if hit:
            out[usr] = hit
    return out


# ------------------------------------------------------------------ balanced add / remove (C12.R4)
def _balanced_groups(events, pname):
    """several add statements followed by several remove statements (unrolled loops, remainders): the adds and the removes
    must each visit every element of the same range exactly once, with the same loop-invariant operand"""
    from sa import coverage
    first_op = events[0][1]["op"]
    if first_op not in ("+=", "-="):
        return False, "a const operand is assigned through %s" % pname
    k = 0
    while k < len(events) and events[k][1]["op"] == first_op:
        k += 1
    adds, rems = events[:k], events[k:]
    other = "-=" if first_op == "+=" else "+="
    if not rems or any(ev[1]["op"] != other for ev in rems):
        return False, "the writes through %s are not a block of '%s' followed by a block of '%s'" % (pname, first_op, other)
    vals = {ev[1]["val"] for ev in events}
    arrs = {ev[1]["lv"][1] if ev[1]["lv"][0] == "idx" else None for ev in events}
    if len(vals) != 1 or len(arrs) != 1 or None in arrs:
        return False, "the add and remove statements use different operands or arrays (%s)" % [sym.show(x)[:30] for x in vals]
    X = next(iter(vals))
    bounds_ = []
    for ev in events:
        if len(ev[2]) != 1 or "var" not in ev[2][0] or sym.contains(X, ev[2][0]["var"]):
            return False, "writes are not inside single counted loops with a loop-invariant operand"
        bounds_.append(ev[2][0]["hi"] if sym.const_value(ev[2][0]["step"]) != -1 else sym.add(ev[2][0]["lo"], I(1)))
    for n in bounds_:
        res = []
        for grp in (adds, rems):
            res.append(coverage.cover_1d([(ev[2][0], ev[1]["lv"][2], 1) for ev in grp], n))
        if all(r[0] == "proved" for r in res):
            return True, "%d '%s' statement(s) and %d '%s' statement(s) of %s, each covering [0, %s) exactly once" % (
                len(adds), first_op, len(rems), other, sym.show(X)[:40], sym.show(n))
    return False, "the add statements and the remove statements do not cover the same range exactly once: %s / %s" % (res[0][1], res[1][1])


def balanced_const_writes(v, f, pidx):
    """Are all writes of f through its const parameter pidx an add of X over a range followed by a
    subtract of the same X over the same range with no exit in between?  -> (ok, detail)"""
    eff, st, ex = run_function(v, f, hooks=Hooks())
    pname = f.params[pidx]["n"]
    events = []
    def rooted(t):
        r = sym.root_of(t)
        return r == sym.sym(pname)
    def scan(effs, loops):
        for x in effs:
            e = x["e"]
            if e == "store" and rooted(x["lv"]):
                events.append(("store", x, tuple(loops)))
            elif e == "asm":
                ie = asm.inline_effects(x)
                if any(rooted(t) for t in ie["writes"]):
                    events.append(("asm", x, tuple(loops), ie))
            elif e in ("return", "exit", "break") and events and len(events) % 2 == 1:
                events.append(("exit", x, tuple(loops)))
            elif e == "call":
                pass
            if e == "loop":
                scan(x["body"], loops + [x])
            elif e == "while":
                scan(x["body"], loops + [x])
            elif e == "if":
                scan(x["then"], loops)
                scan(x["else"], loops)
    scan(eff, [])
    if len(events) > 2 and all(ev[0] == "store" for ev in events):
        return _balanced_groups(events, pname)
    if len(events) != 2:
        return False, "%d write events through %s (expected an add/remove pair)" % (len(events), pname)
    a, b = events
    if a[0] == "store" and b[0] == "store":
        xa, xb = a[1], b[1]
        la, lb = a[2], b[2]
        if len(la) != 1 or len(lb) != 1:
            return False, "writes are not inside single loops"
        from sa import pam
        if "var" not in la[0] or "var" not in lb[0]:
            return False, "writes are not inside counted loops"
        ra, rb = pam.ascending_range(la[0]), pam.ascending_range(lb[0])
        same_range = ra is not None and ra == rb          # unit-stride loops over the same values, in either direction
        ren = {lb[0]["var"]: la[0]["var"]}
        same_cell = xa["lv"] == sym.subst(xb["lv"], ren)
        same_val = xa["val"] == sym.subst(xb["val"], ren) and not sym.contains(xa["val"], la[0]["var"])
        ops = (xa["op"], xb["op"])
        if ops in (("+=", "-="), ("-=", "+=")) and same_range and same_cell and same_val:
            return True, "%s %s %s over [%s,%s) then %s over the same range" % (
                sym.show(xa["lv"]), xa["op"], sym.show(xa["val"]), sym.show(la[0]["lo"]), sym.show(la[0]["hi"]), xb["op"])
        return False, "pair is not an exact add/remove: ops %s, same range %s, same cell %s, same operand %s" % (
            ops, same_range, same_cell, same_val)
    if a[0] == "asm" and b[0] == "asm":
        ia, ib = a[3]["items"], b[3]["items"]
        def shape(items):
            out = []
            for it in items:
                if isinstance(it, asm.Ins):
                    if it.op in ("vzeroall", "vzeroupper"):
                        continue
                    out.append((it.op, tuple(it.args)))
                else:
                    out.append(("label",) if it[0] == "label" else it)
            return out
        sa_, sb_ = shape(ia), shape(ib)
        if len(sa_) != len(sb_):
            return False, "asm blocks differ in length"
        diff = [(p, q) for p, q in zip(sa_, sb_) if p != q]
        jumps_ok = all(p[0] == q[0] and p[0] in asm.JCC | {"jmp"} for p, q in diff if p[0] in asm.JCC | {"jmp"})
        core = [(p, q) for p, q in diff if p[0] not in asm.JCC | {"jmp", "label"}]
        inputs_same = [t for _, t in a[1]["ins"]] == [t for _, t in b[1]["ins"]]
        if len(core) == 1 and {core[0][0][0], core[0][1][0]} == {"vpaddd", "vpsubd"} and core[0][0][1] == core[0][1][1] \
                and inputs_same and jumps_ok:
            return True, "asm blocks identical except %s / %s on the same lanes, same pointer range and broadcast operand" % (
                core[0][0][0], core[0][1][0])
        return False, "asm blocks are not an add/remove pair (differences: %s, same inputs: %s)" % (core[:3], inputs_same)
    return False, "mixed shapes %s/%s" % (a[0], b[0])


def elementwise_same_index(v, f):
    """every store of f has the form out[i] (op)= g(in...[i]) inside one loop, or is a scalar field copy"""
    from sa import summ as _summ
    eff, st, ex = run_function(v, f, hooks=_summ.LOCAL_HELPERS)        # file-local helpers and closures are part of f
    for x in flat(eff):
        if x["e"] == "call" and x.get("usr") in v.defs:
            return False
    def elem_reads(t, acc):
        if not isinstance(t, tuple) or not t:
            return acc
        if not isinstance(t[0], str):
            for y in t:
                elem_reads(y, acc)
            return acc
        if t[0] == "fld" and t[1][0] == "idx" and t[1][2] == sym.ZERO:
            return elem_reads(t[1][1], acc)        # p->f : the deref of p is not an element read
        if t[0] == "idx":
            acc.append(t)
        if t[0] == "poly":
            for m, _ in t[1]:
                for y in m:
                    elem_reads(y, acc)
            return acc
        for y in t[1:]:
            if isinstance(y, tuple):
                elem_reads(y, acc)
        return acc

    def ok_store(x, loopvars):
        reads = elem_reads(x["val"], [])
        if x["lv"][0] == "idx":
            i = x["lv"][2]
            return all(r[2] == i for r in reads)
        return not reads
    def scan(effs, lv):
        for x in effs:
            if x["e"] == "store" and not ok_store(x, lv):
                return False
            if x["e"] == "loop" and not scan(x["body"] + (x.get("latch") or []), lv + [x["var"]]):
                return False
            if x["e"] == "inlined" and not scan(x["body"], lv):
                return False
            if x["e"] in ("while", "asm", "unknown"):
                return False
            if x["e"] == "if" and not (scan(x["then"], lv) and scan(x["else"], lv)):
                return False
        return True
    return scan(eff, [])


def balanced_by_evaluation(v, f, pidx):
    """Fallback for writes through a const array parameter that are not one add loop and one remove loop: the function's effect tree
    is evaluated on concrete words (sa/concrete.IntMachine; nothing runs) for every combination of its integer parameters in 1..4
    (array length first) and a few contents of the array; calls are skipped (what they do to OTHER objects is not the question).
    The array must hold after the call what it held before.  -> (True, detail) | (False, witness) | (None, why not evaluable)"""
    import itertools
    from sa import concrete, summ, symexec
    pname = f.params[pidx]["n"]
    ints = [p_["n"] for p_ in f.params if (p_["t"] or "").replace("const ", "").strip() in ("int", "int32_t", "long", "unsigned int", "uint32_t")]
    if not ints or len(ints) > 4:
        return None, "no small set of integer parameters to enumerate"
    effs = symexec.run_function(v, f, hooks=summ.LOCAL_HELPERS)[0]
    ncase = 0
    for vals in itertools.product((1, 2, 3, 4), repeat=len(ints)):
        scal = {sym.sym(n_): x_ for n_, x_ in zip(ints, vals)}
        if any(x_ > 31 for x_ in (scal.get(sym.sym("t"), 1) * scal.get(sym.sym("basebit"), 1),)):
            continue
        length = max(vals)
        for fill in (0x12345678, 0xFFFFFFFF, 0x80000000):
            im = concrete.IntMachine(scalars=dict(scal))
            loc = lambda j_: concrete.lvalue_location(sym.idx(sym.sym(pname), I(j_)), {})
            before = [(fill + 0x01010101 * j_) & 0xFFFFFFFF for j_ in range(length)]
            for j_, x_ in enumerate(before):
                im.inputs[loc(j_)] = x_
            try:
                concrete.interpret(effs, dict(scal), im.handler(on_call=lambda x_, env_: True), on_segment=im.segment)
            except concrete.NotEvaluable as e:
                return None, "not evaluable: %s" % e
            ncase += 1
            for j_, x_ in enumerate(before):
                now = concrete.Memory.read(im, loc(j_))
                if isinstance(now, int) and (now - x_) & 0xFFFFFFFF:
                    return False, "with %s: element %d of the const array '%s' holds 0x%08x after the call, 0x%08x before" % (
                        ", ".join("%s = %d" % (n_, x2) for n_, x2 in zip(ints, vals)), j_, pname, now & 0xFFFFFFFF, x_)
    return True, "evaluated for %d combinations of (%s) in 1..4: the array holds after the call what it held before" % (ncase, ", ".join(ints))


def evaluation_effects(v):
    """deep mod sets with the proved add/remove pairs on const parameters exempted -> (Effects, {(usr, param index): (ok, detail, entries)})"""
    E = Effects(v)
    # first pass: find const-parameter writes, try to prove them balanced, exempt the proved ones
    E.compute()
    balanced = {}
    for f in v.defined():
        if not f.file.startswith("libtfhe/"):
            continue
        direct = {}
        for (rk, fl), ev in E.mod(f.usr).items():
            if rk[0] == "param" and f.params[rk[1]]["pointee_const"] and not ev[1].startswith("via "):
                direct.setdefault(rk[1], []).append(((rk, fl), ev))
        for pidx, entries in direct.items():
            ok, detail = balanced_const_writes(v, f, pidx)
            if not ok:
                ok2, det2 = balanced_by_evaluation(v, f, pidx)
                if ok2 is True:
                    ok, detail = True, det2
                elif ok2 is False:
                    detail = det2
            balanced[(f.usr, pidx)] = (ok, detail, entries)
    if balanced:
        E2 = Effects(v)
        E2.eff = E.eff
        for (usr, pidx), (ok, detail, entries) in balanced.items():
            if ok:
                E2.exempt.setdefault(usr, set()).update(k for k, _ in entries)
        E2.compute()
        E = E2
    return E, balanced


def check_alias_safe_gates(chk, v, E, evalfns):
    """R3: every gate consumes its inputs before the first write to its output (so the output may be one of the inputs)"""
    vn = v.name
    # R3 alias-safe gates
    gates = [f for f in evalfns if GATE.match(f.name) and f.name not in ("bootsSymDecrypt",)]
    chk.set_count("R3.gates", len(gates))
    for f in gates:
        effs, _ = E.effects_of(f.usr)
        out_name = f.params[0]["n"]
        inputs = [p["n"] for p in f.params[1:] if "LweSample" in p["t"]]
        written_at = None
        problem = None
        for x in flat(effs):
            if x["e"] == "store":
                r = sym.root_of(x["lv"])
                if r == sym.sym(out_name) and written_at is None:
                    written_at = x["l"]
                reads = {a[1] for a in sym.atoms(x["val"]) if a[0] == "sym"} | \
                        {sym.root_of(a)[1] for a in sym.atoms(x["val"]) if a[0] in ("fld", "idx") and sym.root_of(a) and sym.root_of(a)[0] == "sym"}
                if written_at is not None and written_at != x["l"] and reads & set(inputs):
                    problem = "input %s read at line %s after the output was written at line %s" % (sorted(reads & set(inputs)), x["l"], written_at)
            elif x["e"] == "call":
                arg_roots = []
                for a in x["args"]:
                    r = sym.root_of(a) if a is not None else None
                    arg_roots.append(r[1] if r is not None and r[0] == "sym" else None)
                reads_inputs = [r for r in arg_roots if r in inputs]
                m = E.mod(x["usr"]) if x.get("usr") in v.defs else {}
                writes_out = any(rk[0] == "param" and rk[1] < len(arg_roots) and arg_roots[rk[1]] == out_name for (rk, fl) in m)
                if written_at is not None and reads_inputs:
                    problem = "input %s passed to %s at line %s after the output was written at line %s" % (
                        reads_inputs, x["name"], x["l"], written_at)
                if writes_out and reads_inputs:
                    callee = v.defs.get(x["usr"])
                    if callee is not None and elementwise_same_index(v, callee):
                        pass
                    else:
                        problem = "%s at line %s writes the output while reading input %s and is not element-wise same-index" % (
                            x["name"], x["l"], reads_inputs)
                if writes_out and written_at is None:
                    written_at = x["l"]
            if problem:
                break
        chk.require(problem is None, "R3", "%s reads its inputs only before writing its output" % f.name, where=f.where,
                    ok="output first written at line %s; inputs %s consumed before" % (written_at, inputs),
                    bad=problem or "", variant=vn)


def run(chk):
    prog = Program()
    chk.explanation = (
        "Deep mod/ref effects computed bottom-up over the resolved call graph (stores, inline-asm stores traced to "
        "their operand, stores of the .s kernels traced to their argument register, virtual fan-out, reassigned "
        "pointer locals resolved to their value sets): for every evaluation-API function the written access paths "
        "rooted at const-pointee parameters must be empty, except a write proved to be an exact add/remove pair; "
        "no evaluation function reaches an RNG object or a clock/entropy call; every gate reads its inputs only "
        "before the first write to its output.")
    chk.trusted = ["clang 14 front end", "compile database", "symbolic executor and effects fixpoint (sa/effects.py)",
                   "AT&T parser for inline and stand-alone assembly (sa/asm.py)"]
    chk.assume("fresh heap objects (new/new_*/malloc results) never alias a parameter")
    chk.assume("external library functions other than the listed memcpy/fread/sprintf family do not write through pointer arguments")
    for v in prog.variants():
        vn = v.name
        chk.analysed["variants"] = chk.analysed.get("variants", 0) + 1
        roles = api.roles(v)
        evalfns = [v.defs[u] for u, r in roles.items() if r == "evaluation" and u in v.defs]
        chk.set_count("R1.evaluation_functions", len(evalfns))
        E, balanced = evaluation_effects(v)
        chk.set_count("R1.direct_const_param_writers", len(balanced))
        for (usr, pidx), (ok, detail, entries) in sorted(balanced.items()):
            f = v.defs[usr]
            key = "%s: write through const parameter '%s' is an exact add/remove pair" % (f.name, f.params[pidx]["n"])
            if ok:
                chk.proved("R1", key, where=entries[0][1][0], detail=detail, variant=vn)
            else:
                # not a violation by itself: it becomes one below if it reaches an evaluation function's const input
                chk.note("%s writes through its const parameter '%s' and the write is not a balanced pair (%s)" % (
                    f.name, f.params[pidx]["n"], detail[:120]))
        # R1 / R4 per evaluation function
        ncasts = 0
        for f in evalfns:
            m = E.mod(f.usr)
            bad = []
            for (rk, fl), ev in m.items():
                if rk[0] == "param" and f.params[rk[1]]["pointee_const"]:
                    bad.append("%s%s written at %s (%s)" % (f.params[rk[1]]["n"], "".join("." + x for x in fl), ev[0], ev[1][:120]))
            npar = sum(1 for p in f.params if p["pointee_const"])
            chk.require(not bad, "R1", "%s writes nothing reachable from its const parameters" % f.name, where=f.where,
                        ok="%d const pointer parameter(s), mod set {%s}" % (npar, ", ".join(sorted(
                            {"%s%s" % (f.params[rk[1]]["n"] if rk[0] == "param" else rk[-1], "".join("." + x for x in fl))
                             for (rk, fl) in m}))[:200]),
                        bad="; ".join(bad)[:600], variant=vn, nontrivial=npar > 0)
            # R4: key records among non-const parameters
            for i, p in enumerate(f.params):
                rec = next((k for k in KEY_RECORDS if re.search(r"\b%s\b" % k, p["t"])), None)
                if rec and not p["pointee_const"] and ("*" in p["t"] or "&" in p["t"]):
                    wrote = [k for k in m if k[0] == ("param", i)]
                    chk.require(not wrote, "R4", "%s does not modify key parameter '%s'" % (f.name, p["n"]), where=f.where,
                                ok="declared non-const but never written", bad="written: %s" % wrote[:3], variant=vn)
            effs, _ = E.effects_of(f.usr)
            ncasts += sum(1 for x in flat(effs) if x["e"] == "constcast")
        chk.set_count("R1.const_dropping_casts_in_evaluation_functions", ncasts)
        # R2 no RNG / clock / environment
        rs = rng_statics(v)
        chk.set_count("R2.rng_statics", len(rs))
        if not rs:
            chk.broken("no RNG objects found (expected the generator and its distributions)")
        refs = referencing(v, {s["q"] for s in rs.values()})
        chk.set_count("R2.functions_referencing_rng", len(refs))
        roots = [f.usr for f in evalfns]
        reach = v.reachable(roots)
        for f in evalfns:
            p = v.path(f.usr, lambda u: u in refs)
            key = "%s reaches no random generator" % f.name
            if p:
                chk.refuted("R2", key, where=f.where, detail="path: %s (references %s)" % (
                    " -> ".join(v.qname(u) for u in p), sorted(refs[p[-1]])), variant=vn)
            else:
                chk.proved("R2", key, where=f.where, detail="call-graph closure inspected", variant=vn)
        badcalls = []
        for u in reach:
            g = v.defs.get(u)
            if g is None or not g.file.startswith(("libtfhe", "include")):
                continue
            for n in walk(g.d.get("body")):
                if n.get("k") in ("call", "mcall", "construct") and n.get("callee") and RNG_CALLEES.search(n["callee"]):
                    badcalls.append("%s calls %s at %s:%s" % (g.q, n["callee"], g.file, n["l"]))
        chk.require(not badcalls, "R2", "no clock, environment or libc RNG call is reachable from the evaluation API",
                    ok="%d reachable functions inspected" % len(reach), bad="; ".join(badcalls[:4]), variant=vn)
        check_alias_safe_gates(chk, v, E, evalfns)
