"""C03 — decryption inverts encryption for LWE, TLWE, TGSW and gate ciphertexts.

Decides (shape): exact cancellation of the mask*key terms between each encrypting function and the sibling that
computes the phase, for every dimension (same index range, same product, opposite sign, message added on b with
coefficient 1); trivial samples clear every mask coefficient; decryption is approxPhase o phase with the caller's
Msize; the gate API encodes +-1/8 and decodes by sign.
Not decided: that |noise| < 1/(2*Msize) for the stated noise range; non-power-of-two Msize rounding (see C13).
"""
from sa import summ, sym
from sa.facts import Program
from sa.sym import I, ZERO

P = lambda p, f: sym.arrow(sym.sym(p), f)
NOINLINE = summ.LOCAL_HELPERS
STOP = ("gaussian32", "approxPhase", "modSwitchFromTorus32", "modSwitchToTorus32", "dtot32", "t32tod",
        "tGswTorus32PolynomialDecompH")


def inl():
    return summ.InlineLib(stop=lambda f: f.name in STOP or "MulR" in f.name or f.name.startswith(("torusPolynomialMult",)))


def calls(ps, name=None):
    return [p for p in ps if p["kind"] == "call" and not p["eff"].get("noreturn") and (name is None or p["name"] == name)]


def product_siblings(chk, v):
    """torusPolynomialAddMulR / SubMulR (as the macros resolve them) are the same pipeline ending in AddTo / SubTo"""
    vn = v.name
    used = {}
    for fname in ("tLweSymEncryptZero", "tLwePhase"):
        ps, _ = summ.pieces(v, v.fn(fname), hooks=NOINLINE)
        used[fname] = sorted({c["name"] for c in calls(ps) if "MulR" in c["name"]})
    enc, phs = used["tLweSymEncryptZero"], used["tLwePhase"]
    if len(enc) != 1 or len(phs) != 1:
        chk.broken("expected one polynomial product in each of tLweSymEncryptZero / tLwePhase: %s" % used)
    if not ("AddMulR" in enc[0] and "SubMulR" in phs[0]) and not ("SubMulR" in enc[0] and "AddMulR" in phs[0]):
        chk.refuted("R2", "the TLWE phase removes the key*mask products the encryption adds", where=v.fn("tLwePhase").where,
                    detail="encryption uses %s, the phase uses %s: the products do not cancel" % (enc[0], phs[0]), variant=vn)
        return enc[0], phs[0]
    adds = enc if "AddMulR" in enc[0] else phs
    subs = phs if "AddMulR" in enc[0] else enc
    a, s = adds[0], subs[0]
    ok_name = a.replace("AddMulR", "") == s.replace("SubMulR", "")
    pa, _ = summ.pieces(v, v.fn(a), hooks=NOINLINE)
    pb, _ = summ.pieces(v, v.fn(s), hooks=NOINLINE)
    def shape(ps, fn):
        names = [p["n"] for p in fn.params]
        ren = {sym.sym(n): sym.sym("$%d" % i) for i, n in enumerate(names)}
        out = []
        from sa.ioseq import normalize_serials
        for p in ps:
            if p["kind"] == "call":
                out.append((p["name"], tuple(sym.subst(x, ren) if x is not None else None for x in p["args"])))
            elif p["kind"] == "store":
                out.append(("store", sym.subst(p["lv"], ren), p["op"], sym.subst(p["val"], ren)))
        return normalize_serials(out)
    sa_, sb_ = shape(pa, v.fn(a)), shape(pb, v.fn(s))
    diff = [(x, y) for x, y in zip(sa_, sb_) if x != y]
    ok = ok_name and len(sa_) == len(sb_) and len(diff) == 1 and diff[0][0][0].endswith("AddTo") and diff[0][1][0].endswith("SubTo") \
        and diff[0][0][1] == diff[0][1][1]
    chk.require(ok, "R2", "%s and %s compute the same product and differ only in the final AddTo / SubTo" % (a, s), where=v.fn(a).where,
                ok="%d steps identical, last step AddTo vs SubTo on the same operands" % (len(sa_) - 1),
                bad="differences: %s" % diff[:2], variant=vn)
    return a, s


def _mentions_call(t, name):
    return any(st[0] in ("call", "obj") and st[1] == name for st in sym.subterms(t))


def _floor_pow2_over(t, M):
    """t == c * (2^a / M) (integer division) -> (c, a), else None"""
    t = _strip(t)
    items = sym.poly_items(t) if t[0] == "poly" else None
    c, core = 1, t
    if items is not None:
        if len(items) != 1 or len(items[0][0]) != 1:
            return None
        c, core = items[0][1], _strip(items[0][0][0])
    if core[0] == "op" and core[1] == "/" and _strip(core[3]) == M:
        num = sym.const_value(_strip(core[2]))
        if num is None and _strip(core[2])[0] == "op" and _strip(core[2])[1] == "<<":
            a0, b0 = sym.const_value(_strip(core[2])[2]), sym.const_value(_strip(core[2])[3])
            num = a0 << b0 if a0 is not None and b0 is not None else None
        if num is not None and num > 0 and num & (num - 1) == 0:
            return c, num.bit_length() - 1
    return None


def _strip(t):
    while t and t[0] == "cast":
        t = t[2]
    return t


def inline_rounding(chk, v, st, phase, M):
    """tLweApproxPhase rounds in line instead of calling approxPhase: compare its grid with approxPhase's.
    Both have the form  X - X % I  with X = lift(phase) + I/2 and I = c*floor(2^a / Msize); approxPhase lifts the phase by
    2^32 (a = 63, c = 2, result >> 32).  The grids coincide for EVERY Msize only if I*2^(32-shift) is the same integer
    expression: c*floor(2^a/M)*2^k == c'*floor(2^a'/M) for all M forces k = 0 (for M not dividing 2^a the left side is a
    multiple of 2^k and the right side differs from it by up to (2^k - 1)*c: e.g. M = 3).
    -> (ok, reason)"""
    from sa.pipeline import AnalysisBroken
    from rules import c13
    ap = v.fn("approxPhase")
    aval = c13.ret_value(v, ap)
    if aval is None:
        raise AnalysisBroken("approxPhase: not a single closed return expression")
    aph, aM = sym.sym(ap.params[0]["n"]), sym.sym(ap.params[1]["n"])
    aval = _strip(sym.subst(aval, {aph: phase, aM: M}))
    val = _strip(st["val"])
    if aval == val:
        return True, "the in-line expression is approxPhase's own return expression"

    def grid(t):
        """-> (c, a, lift shift, result shift) of  ((lift(phase) + I/2) - (...) % I) >> r"""
        r = 0
        t = _strip(t)
        if t[0] == "op" and t[1] == ">>" and sym.const_value(t[3]) is not None:
            r, t = sym.const_value(t[3]), _strip(t[2])
        mods = [a for a in sym.atoms_top(t) if a[0] == "op" and a[1] == "%"]
        if len(mods) != 1:
            return None
        X, Iv = mods[0][2], mods[0][3]
        if sym.add(t, mods[0]) != X:
            return None
        fa = _floor_pow2_over(Iv, M)
        if fa is None:
            return None
        # lift: coefficient of the phase inside X
        ph_atoms = [a for a in sym.atoms_top(X) if sym.contains(a, phase)]
        if len(ph_atoms) != 1:
            return None
        lin_ = sym.linear_in(X, ph_atoms[0])
        cv = sym.const_value(lin_[0]) if lin_ is not None else None
        if cv is None or cv <= 0 or cv & (cv - 1):
            return None
        return fa[0], fa[1], cv.bit_length() - 1, r
    g_ref, g_in = grid(aval), grid(val)
    if g_ref is None or g_in is None:
        raise AnalysisBroken("tLweApproxPhase: in-line rounding expression %s not recognised" % sym.show(val)[:100])
    (c1, a1, l1, r1), (c2, a2, l2, r2) = g_ref, g_in
    # spacing in torus32 units: c*2^a / (M * 2^lift)
    if (c1 * (1 << a1)) * (1 << l2) != (c2 * (1 << a2)) * (1 << l1) or l1 - r1 != l2 - r2:
        return False, ["rounds to multiples of %d*floor(2^%d/Msize)/2^%d, approxPhase rounds to multiples of %d*floor(2^%d/Msize)/2^%d: a different grid" % (
            c2, a2, l2, c1, a1, l1)]
    if (c1, a1, l1) != (c2, a2, l2):
        return False, ["the interval is %d*floor(2^%d/Msize) on the phase lifted by 2^%d, approxPhase uses %d*floor(2^%d/Msize) on the phase lifted by 2^%d: "
                       "same nominal spacing, but the floor is taken %d bits earlier, so for every Msize that does not divide 2^%d (e.g. 3) the "
                       "grid drifts away from the message grid k/Msize used by modSwitchToTorus32 and approxPhase (decryption returns off-grid values)" % (
                           c2, a2, l2, c1, a1, l1, a1 - a2, a2)]
    return True, "same interval expression as approxPhase"


def tgsw_decrypt_by_interpretation(chk, v, gd):
    """tGswSymDecrypt, interpreted with abstract data (sa/concrete.PolyState) for k in {1,2}, l in 1..3, N in {1,2} and every subset Z of
    digits assumed zero: the gadget decomposition of the constant 1/Msize leaves constant polynomials D_i (D_i = 0 for i in Z),
    tLwePhase(tmp, row r, &key->tlwe_key) leaves the indeterminates phase(r, j), AddMulR is the negacyclic product-accumulate, and
    what is finally stored in result[j] must be modSwitchFromTorus32(sum_{i not in Z} D_i * phase(k*l + i, j), Msize).
    -> None or a witness"""
    from sa import concrete, symexec
    import itertools as _it
    dres, dsamp, dkey, dM = [p["n"] for p in gd.params]
    par = P(dkey, "params")
    Kt, Lt, Nt, KPLt = sym.arrow(sym.arrow(par, "tlwe_params"), "k"), sym.arrow(par, "l"), sym.arrow(sym.arrow(par, "tlwe_params"), "N"), sym.arrow(par, "kpl")
    effs = symexec.run_function(v, gd, hooks=NOINLINE)[0]
    cell = lambda poly, fld_, i_: concrete.location(sym.addr(sym.idx(sym.arrow(poly, fld_), I(i_))), {})

    def row_of(t, env, lv_):
        r_, path = concrete.location(t, env)
        if r_ != sym.sym(dsamp):
            raise concrete.NotEvaluable("phase of a row of %s" % sym.show(r_))
        if len(path) == 3 and path[1] == "all_sample":
            return path[2]
        if len(path) == 4 and path[1] == "bloc_sample":
            return path[2] * lv_ + path[3]
        raise concrete.NotEvaluable("row %s" % (path,))
    for kv, lv_, nv in _it.product((1, 2), (1, 2, 3), (1, 2, 5)):
        for Z in _it.chain.from_iterable(_it.combinations(range(lv_), r) for r in range(lv_ + 1)):
            st = concrete.PolyState()
            log = []

            def polyvals(ptr, fld_, env):
                r_, path = concrete.location(ptr, env)
                return [(r_, path + (fld_, j_)) for j_ in range(nv)]

            def h(kind, x, env):
                if kind in ("local", "store"):
                    st.assign(x, env)
                    return None
                if kind == "cond":
                    c = x["cond"]
                    if c[0] == "op" and c[1] in ("==", "!=") and (c[3] == ZERO or c[2] == ZERO):
                        val = st.value(c[2] if c[3] == ZERO else c[3], env)
                        if val is not None:
                            return (not val) == (c[1] == "==")         # an indeterminate digit outside Z is not zero
                    return None
                if kind in ("alloc", "delete"):
                    return None
                if kind != "call":
                    raise concrete.NotEvaluable("%s at line %s" % (kind, x.get("l")))
                nm, a = x["name"], x.get("args", [])
                if x.get("noreturn") or nm.startswith(("new_", "delete_")):
                    return None
                if nm == "torusPolynomialClear":
                    for loc in polyvals(a[0], "coefsT", env):
                        st.write(loc, {})
                elif nm == "tGswTorus32PolynomialDecompH":
                    src = [st.read(loc) for loc in polyvals(a[1], "coefsT", env)]
                    okc = src[0] is not None and len(src[0]) == 1 and all(s_ == {} for s_ in src[1:])
                    if okc:
                        (m_, c_), = src[0].items()
                        okc = c_ == 1 and len(m_) == 1 and m_[0][0] == "draw" and m_[0][1] == ("call", "modSwitchToTorus32", (I(1), sym.sym(dM)))
                    log.append(("decomp", okc))
                    r_, path = concrete.location(a[0], env)
                    for i_ in range(lv_):
                        for j_ in range(nv):
                            st.write((r_, path[:-1] + (path[-1] + i_, "coefs", j_)), {(("digit", i_),): 1} if j_ == 0 and i_ not in Z else {})
                elif nm == "tLwePhase":
                    r = row_of(a[1], env, lv_)
                    if a[2] != sym.addr(sym.fld(sym.idx(sym.sym(dkey), ZERO), "tlwe_key")):
                        log.append(("key", sym.show(a[2])))
                    for j_, loc in enumerate(polyvals(a[0], "coefsT", env)):
                        st.write(loc, {(("phase", r, j_),): 1})
                elif "AddMulR" in nm or "SubMulR" in nm:
                    sgn = -1 if "Sub" in nm else 1
                    ia = [st.read(loc) for loc in polyvals(a[1], "coefs", env)]
                    tb = [st.read(loc) for loc in polyvals(a[2], "coefsT", env)]
                    dst = polyvals(a[0], "coefsT", env)
                    acc = [st.read(loc) for loc in dst]
                    if any(x_ is None for x_ in ia + tb + acc):
                        raise concrete.NotEvaluable("%s on something that is not a polynomial at line %s" % (nm, x.get("l")))
                    for p_ in range(nv):
                        for q_ in range(nv):
                            t_ = concrete._pmul(ia[p_], tb[q_])
                            acc[(p_ + q_) % nv] = concrete.lin_add(acc[(p_ + q_) % nv], t_, sgn * (-1 if p_ + q_ >= nv else 1))
                    for loc, val in zip(dst, acc):
                        st.write(loc, val)
                elif nm == "modSwitchFromTorus32":
                    val = st.value(a[0], env)
                    if val is None:
                        raise concrete.NotEvaluable("rounding of something that is not a number at line %s" % x.get("l"))
                    st.calls[x["ret"]] = ("switch", tuple(sorted(val.items(), key=repr)), a[1])
                elif nm == "modSwitchToTorus32":
                    st.called(x)
                else:
                    raise concrete.NotEvaluable("call of %s at line %s" % (nm, x.get("l")))
                return None
            try:
                concrete.interpret(effs, {Kt: kv, Lt: lv_, Nt: nv, KPLt: (kv + 1) * lv_}, h, on_segment=st.segment)
            except concrete.NotEvaluable as e:
                chk.broken("tGswSymDecrypt: %s" % e)
            dims = "k = %d, l = %d, N = %d%s" % (kv, lv_, nv, ", digits %s zero" % list(Z) if Z else "")
            if ("decomp", True) not in log or ("decomp", False) in log:
                return "with %s: what is decomposed with the gadget is not the constant polynomial modSwitchToTorus32(1, Msize)" % dims
            bad_key = [x_ for x_ in log if x_[0] == "key"]
            if bad_key:
                return "with %s: phase taken under %s, not &key->tlwe_key" % (dims, bad_key[0][1])
            for j_ in range(nv):
                got = st.read(cell(sym.sym(dres), "coefs", j_))
                want = {}
                for i_ in range(lv_):
                    if i_ not in Z:
                        want[tuple(sorted([("digit", i_), ("phase", kv * lv_ + i_, j_)], key=repr))] = 1
                okj = got is not None and len(got) == 1
                if okj:
                    (m_, c_), = got.items()
                    okj = c_ == 1 and len(m_) == 1 and m_[0][0] == "switch" and dict(m_[0][1]) == want and m_[0][2] == sym.sym(dM)
                if not okj:
                    shown = "not a number" if got is None else concrete.show_poly(dict(list(got)[0][0][1]), 4) if got and list(got)[0] and list(got)[0][0][0] == "switch" else concrete.show_poly(got, 3)
                    return "with %s: result[%d] rounds %s; expected the rounding with Msize of sum_i digit_i * phase(row %d + i)[%d]" % (dims, j_, shown, kv * lv_, j_)
    return None


def check_lwe_encrypt(chk, v, sign_ph=1, rule="R1"):
    """both LWE encryption functions: phase(encrypt(m)) = m + noise (shared with C07: a fresh ciphertext carries the configured noise only if
    the mask terms cancel in the phase)"""
    vn = v.name
    def encrypt_enumerated(e, res, msg, key, why):
        """the function is interpreted for n = 0..17 with the key as indeterminates and every call result (noise, mask draws) as a
        fresh atom: afterwards b - sign * sum_{i<n} a[i]*key[i] (a[i] as finally stored) must be free of the key and be
        gaussian32(message, .) or message + (terms without message)"""
        from sa import concrete, symexec
        effs = symexec.run_function(v, e, hooks=inl())[0]
        n_e = sym.arrow(P(key, "params"), "n")
        M = sym.sym(msg)
        roots_ = (sym.sym(res), sym.sym(key))
        for nv in range(0, 18):
            st = concrete.PolyState()

            def h(kind, x, env):
                if kind in ("local", "store"):
                    st.assign(x, env)
                elif kind == "call":
                    if any(isinstance(a_, tuple) and sym.root_of(a_) in roots_ for a_ in x.get("args", [])):
                        raise concrete.NotEvaluable("call of %s on the sample or the key at line %s" % (x["name"], x.get("l")))
                    st.called(x)
                elif kind in ("asm", "unknown", "alloc", "delete"):
                    raise concrete.NotEvaluable("%s at line %s" % (kind, x.get("l")))
                return None
            try:
                concrete.interpret(effs, {n_e: nv}, h, on_segment=st.segment)
                b_ = st.read(concrete.lvalue_location(P(res, "b"), {}))
                tot = {}
                for i_ in range(nv):
                    a_i = st.read(concrete.lvalue_location(sym.idx(P(res, "a"), I(i_)), {}))
                    k_i = {(("init", concrete.lvalue_location(sym.idx(P(key, "key"), I(i_)), {})),): 1}
                    if a_i is None:
                        raise concrete.NotEvaluable("mask coefficient %d is not a number" % i_)
                    tot = concrete.lin_add(tot, concrete._pmul(a_i, k_i))
                if b_ is None:
                    raise concrete.NotEvaluable("b is not a polynomial in the key, the draws and the message")
            except concrete.NotEvaluable as ex_:
                chk.broken("%s: %s; by enumeration: %s" % (e.name, why, ex_))
            resid = {m: c for m, c in concrete.lin_add(b_, tot, -sign_ph).items() if c % (1 << 32)}
            keyed = [m for m in resid if any(isinstance(a_, tuple) and a_[0] == "init" and a_[1][0] == sym.sym(key) for a_ in m)]
            if keyed:
                return ["for n = %d: b - (%+d)*sum a[i]*key[i] = %s still depends on the key (the phase does not cancel the mask)" % (
                    nv, sign_ph, concrete.show_poly(resid, 5))]
            stale = [m for m in resid if any(isinstance(a_, tuple) and a_[0] == "init" and a_[1][0] == sym.sym(res) for a_ in m)]
            if stale:
                return ["for n = %d: b keeps a term of the sample's previous content: %s" % (nv, concrete.show_poly(resid, 5))]
            mterms = {m: c for m, c in resid.items() if (M,) == m or any(isinstance(a_, tuple) and a_[0] == "draw" and a_[1][1] == "gaussian32"
                                                                           and a_[1][2] and a_[1][2][0] == M for a_ in m)}
            okm = len(mterms) == 1 and list(mterms.values())[0] % (1 << 32) == 1 and all(len(m) == 1 for m in mterms)
            if okm and list(mterms)[0] != (M,):
                g = v.fn("gaussian32")
                gr = [p_ for p_ in summ.pieces(v, g, hooks=NOINLINE)[0] if p_["kind"] == "return"]
                gm = sym.sym(g.params[0]["n"])
                okm = len(gr) == 1 and sym.linear_in(gr[0]["val"], gm) is not None and sym.linear_in(gr[0]["val"], gm)[0] == I(1)
            if not okm:
                return ["for n = %d: b - sum a[i]*key[i] = %s: the message does not enter with coefficient 1" % (nv, concrete.show_poly(resid, 5))]
        return []
    for ename in ("lweSymEncrypt", "lweSymEncryptWithExternalNoise"):
        e = v.fn(ename)
        eps, _ = summ.pieces(v, e, hooks=inl())
        eps = summ.forward_stored_calls(summ.fold_accumulators(eps))
        res = e.params[0]["n"]
        msg = e.params[1]["n"]
        key = e.params[-1]["n"]
        bst = [p for p in eps if p["kind"] == "store" and p["lv"] == P(res, "b")]
        problems = []
        init = [p for p in bst if not p["loops"] and p["op"] == "="]
        accb = [p for p in bst if p["loops"] and p["op"] in ("+=", "-=")]
        onto = [p for p in bst if not p["loops"] and p["op"] in ("+=", "-=")]
        if not init and onto:
            problems.append("b is never assigned: message, noise and <a,s> are ADDED to whatever b held before (line %s), so encrypting into a sample "
                            "that was used before (or anything but a freshly constructed one) gives phase = old b + m + noise" % onto[0]["line"])
        elif len(init) != 1 or len(accb) != 1:
            # not "b = m + noise; b += a[i]*key[i] in one loop" (partial sums in a helper, tails, several passes): by interpretation
            problems.extend(encrypt_enumerated(e, res, msg, key, "b is written by %d initialisations and %d accumulations" % (len(init), len(accb))))
        else:
            iv = init[0]["val"]
            # message + noise: either message + dtot32(noise) or gaussian32(message, alpha) (whose summary is message + dtot32(err))
            M = sym.sym(msg)
            okmsg = False
            if iv[0] == "call" and iv[1] == "gaussian32" and iv[2][0] == M:
                g = v.fn("gaussian32")
                gps, _ = summ.pieces(v, g, hooks=NOINLINE)
                gr = [p for p in gps if p["kind"] == "return"]
                gm = sym.sym(g.params[0]["n"])
                okmsg = len(gr) == 1 and sym.linear_in(gr[0]["val"], gm) is not None and sym.linear_in(gr[0]["val"], gm)[0] == I(1)
            else:
                lin = sym.linear_in(iv, M)
                okmsg = lin is not None and lin[0] == I(1)
            if not okmsg:
                problems.append("b is initialised to %s: the message does not enter with coefficient 1" % sym.show(iv))
            lp = accb[0]["loops"][0]
            j = lp["var"]
            n_e = sym.arrow(P(key, "params"), "n")
            want = sym.mul(sym.idx(P(res, "a"), j), sym.idx(P(key, "key"), j))
            sgn = 1 if accb[0]["op"] == "+=" else -1
            ast = [p for p in eps if p["kind"] == "store" and p["lv"][0] == "idx" and p["lv"][1] == P(res, "a")]
            shape = None
            if not summ.visits(lp, ZERO, n_e):
                shape = "mask*key accumulation over [%s %s %s)" % (sym.show(lp["lo"]), lp["cmp"], sym.show(lp["hi"]))
            elif accb[0]["val"] != want:
                shape = "accumulated product %s" % sym.show(accb[0]["val"])[:80]
            elif len(ast) != 1 or not ast[0]["loops"] or ast[0]["loops"][0] is not lp or ast[0]["lv"][2] != j:
                shape = "the mask is drawn in a loop of its own"
            if shape:
                # another arrangement of the same computation (mask drawn first, product summed downwards, ...): by interpretation --
                # a wrong range, operand or sign shows up there with the dimension and the surviving key term as witness
                problems.extend(encrypt_enumerated(e, res, msg, key, shape))
            elif sgn != sign_ph:
                problems.append("encryption adds the product with sign %+d, the phase removes it with sign %+d" % (sgn, -sign_ph))
        chk.require(not problems, rule, "%s: phase(encrypt(m)) = m + noise (mask*key terms cancel for every n)" % ename, where=e.where,
                    ok="b = m + noise + sum_{i<n} a[i]*key[i] with the phase's range, operands and opposite sign", bad="; ".join(problems), variant=vn)
        if rule == "R1":
            chk.vcount(vn, "R1.lwe_encrypt_functions")


def run(chk):
    prog = Program()
    chk.explanation = (
        "Encrypt/phase sibling pairs are reduced to loop pieces and compared: the mask*key accumulation of the "
        "encryption and of the phase computation have the same index range over the key dimension, the same product "
        "operands and opposite signs, and the message enters b with coefficient 1, hence phase(encrypt(m)) = m + noise "
        "symbolically in every dimension; trivial constructors clear the whole mask; decrypt functions apply "
        "approxPhase to the phase with the caller's Msize; the gate API's encode/decode agree.")
    chk.trusted = ["clang 14 front end", "summariser"]
    for v in prog.variants():
        vn = v.name
        chk.analysed["variants"] = chk.analysed.get("variants", 0) + 1
        # R7 the gadget the TGSW encryption places and the decryption decomposes with is computed with logical shifts only
        from sa import shifts as _shifts
        _shifts.check(chk, v, "R7", ["libtfhe/tgsw.cpp", "libtfhe/tgsw-functions.cpp", "libtfhe/numeric-functions.cpp"], "gadget, decomposition and rounding")
        # ------------------------------------------------ R1 LWE
        ph = v.fn("lwePhase")
        pps, _ = summ.pieces(v, ph, hooks=inl())
        psamp, pkey = [p["n"] for p in ph.params]
        from sa.pipeline import AnalysisBroken
        n_ph = sym.arrow(P(pkey, "params"), "n")

        def phase_symbolic():
            acc = [p for p in pps if p["kind"] == "local" and p["op"] in ("+=", "-=") and p["loops"]]
            ret = [p for p in pps if p["kind"] == "return"]
            bad_shape = [p for p in pps if p["kind"] in ("asm", "while", "unknown")]
            if not acc or len(ret) != 1 or bad_shape:
                chk.broken("lwePhase: accumulation/return not recognised")
                # return value = b + sum_k c_k * accumulator_k ; every accumulator starts at 0
            accvars = {("var", A["name"], A["id"]) for A in acc}
            rv = ret[0]["val"]
            coef = {}
            rest = rv
            for av in accvars:
                lin = sym.linear_in(rest, av)
                if lin is None or sym.const_value(lin[0]) is None:
                    chk.broken("lwePhase: return value %s is not linear in the accumulator %s" % (sym.show(rv), av[1]))
                coef[av] = sym.const_value(lin[0])
                rest = lin[1]
            inits = {("var", p["name"], p["id"]): p for p in pps if p["kind"] == "local" and p["op"] in ("=", "decl") and not p["loops"]}
            problems = []
            for av in accvars:
                if av not in inits or inits[av]["val"] != ZERO:
                    problems.append("accumulator %s does not start at 0" % av[1])
            if rest != P(psamp, "b"):
                problems.append("returns %s: b does not enter with coefficient 1" % sym.show(rv))
            terms = []
            for A in acc:
                lp = A["loops"][-1]
                items = sym.poly_items(A["val"])
                av = ("var", A["name"], A["id"])
                if len(A["loops"]) != 1 or items is None or len(items) != 1 or len(items[0][0]) != 2:
                    chk.broken("lwePhase: accumulated value %s is not one product inside one loop" % sym.show(A["val"]))
                (m1, m2), c = items[0]
                fa = [x for x in (m1, m2) if x[0] == "idx" and x[1] == P(psamp, "a")]
                fk = [x for x in (m1, m2) if x[0] == "idx" and x[1] == P(pkey, "key")]
                if len(fa) != 1 or len(fk) != 1:
                    problems.append("accumulated product %s is not a[.]*key[.] (line %s)" % (sym.show(A["val"]), A["line"]))
                    continue
                if fa[0][2] != fk[0][2]:
                    problems.append("product pairs a[%s] with key[%s] (line %s)" % (sym.show(fa[0][2]), sym.show(fk[0][2]), A["line"]))
                    continue
                terms.append((lp, fa[0][2], c * (1 if A["op"] == "+=" else -1) * coef[av]))
            sign_ph = None
            detail = ""
            if not problems:
                from sa import coverage
                status, detail = coverage.cover_1d(terms, n_ph)
                if status == "unknown":
                    chk.broken("lwePhase: %s" % detail)
                if status == "refuted":
                    problems.append(detail)
                signs = {sg for _, _, sg in terms}
                if signs == {-1}:
                    sign_ph = 1          # the phase removes +sum a*s
                elif signs == {1}:
                    sign_ph = -1
                elif not problems:
                    problems.append("products enter the phase with coefficients %s" % sorted(signs))
            return problems, "%d accumulation statement(s): %s; returns b - sum" % (len(acc), detail), sign_ph

        def phase_enumerated(why):
            # the accumulation has a shape the symbolic comparison does not know (several partial sums, a peeled tail, ...):
            # the function is interpreted for n = 0..17 with the mask, the key and b as indeterminates, and the returned
            # polynomial is compared with b - sum_{i<n} a[i]*key[i]
            from sa import concrete, symexec
            effs = symexec.run_function(v, ph, hooks=inl())[0]
            for nv in range(0, 18):
                st = concrete.PolyState()
                got = []

                def h(kind, x, env):
                    if kind in ("local", "store"):
                        st.assign(x, env)
                    elif kind == "return":
                        got.append(st.value(x["val"], env) if isinstance(x.get("val"), tuple) else None)
                    elif kind == "cond":
                        return None
                    elif kind in ("call", "asm", "unknown", "alloc", "delete"):
                        raise concrete.NotEvaluable("%s at line %s" % (kind, x.get("l")))
                try:
                    concrete.interpret(effs, {n_ph: nv}, h, on_segment=st.segment)
                except concrete.NotEvaluable as e:
                    chk.broken("lwePhase: %s; by enumeration: %s" % (why, e))
                if len(got) != 1 or got[0] is None:
                    chk.broken("lwePhase: %s; by enumeration: no polynomial return value for n = %d" % (why, nv))
                A_, K_, B_ = sym.root_of(P(psamp, "a")), sym.root_of(P(pkey, "key")), None
                want = {(("init", concrete.lvalue_location(P(psamp, "b"), {})),): 1}
                for i_ in range(nv):
                    m = tuple(sorted([("init", concrete.lvalue_location(sym.idx(P(psamp, "a"), I(i_)), {})),
                                      ("init", concrete.lvalue_location(sym.idx(P(pkey, "key"), I(i_)), {}))], key=repr))
                    want[m] = -1
                g_ = {m: c for m, c in got[0].items() if c % (1 << 32)}
                if {m: c % (1 << 32) for m, c in g_.items()} != {m: c % (1 << 32) for m, c in want.items()}:
                    return ["for n = %d the function returns %s" % (nv, concrete.show_poly(g_, 6))], "", 1
            return [], "interpreted for n = 0..17 over indeterminate mask, key and b: returns b - sum_{i<n} a[i]*key[i]", 1
        try:
            problems, okmsg_ph, sign_ph = phase_symbolic()
        except AnalysisBroken as e:
            problems, okmsg_ph, sign_ph = phase_enumerated(str(e))
        chk.require(not problems, "R1", "lwePhase = b - sum_{i<n} a[i]*key[i]", where=ph.where,
                    ok=okmsg_ph,
                    bad="; ".join(problems), variant=vn)
        if sign_ph is None:
            sign_ph = 1
        check_lwe_encrypt(chk, v, sign_ph, "R1")
        # ------------------------------------------------ R2 TLWE
        addname, subname = product_siblings(chk, v)
        ez = v.fn("tLweSymEncryptZero")
        eps, _ = summ.pieces(v, ez, hooks=inl())
        res, alpha, key = [p["n"] for p in ez.params]
        K = sym.arrow(P(key, "params"), "k")
        # (the sample's own copy of k -- `TLweSample::k`, set by its constructor from the parameter object -- is the key's k)
        eps = [dict(p_, loops=[dict(l_, lo=sym.subst(l_["lo"], {P(res, "k"): K}), hi=sym.subst(l_["hi"], {P(res, "k"): K})) if "var" in l_ else l_
                               for l_ in p_["loops"]]) for p_ in eps]
        Nn = sym.arrow(P(key, "params"), "N")
        problems = []
        mul = calls(eps, addname)
        if len(mul) != 1 or len(mul[0]["loops"]) != 1:
            problems.append("expected one %s inside the component loop" % addname)
        else:
            lp = mul[0]["loops"][0]
            i = lp["var"]
            if not summ.visits(lp, ZERO, K):
                problems.append("component loop [%s %s %s)" % (sym.show(lp["lo"]), lp["cmp"], sym.show(lp["hi"])))
            if mul[0]["args"] != [P(res, "b"), sym.addr(sym.idx(P(key, "key"), i)), sym.addr(sym.idx(P(res, "a"), i))]:
                problems.append("product operands %s" % [sym.show(a) for a in mul[0]["args"]])
        from sa import coverage
        fps = summ.forward_local_arrays(eps)          # a draw may reach b through a scratch buffer private to the call
        stn, detn, n_noise = coverage.filled_by(
            fps, sym.arrow(P(res, "b"), "coefsT"), Nn,
            lambda val, ix: None if summ.is_gaussian_draw(eps, val) else
            "b[%s] = %s is not gaussian32(0, alpha)" % (sym.show(ix), sym.show(val)[:60]))
        if stn == "unknown":
            chk.broken("tLweSymEncryptZero: noise statements: %s" % detn)
        if stn == "refuted":
            later = summ.noise_added_later(eps, sym.arrow(P(res, "b"), "coefsT"))
            opq = [q_ for q_ in summ.opaque_writers(v, eps) if q_["kind"] in ("while", "unknown", "asm")]
            if later is None and opq:
                chk.broken("tLweSymEncryptZero: %s may write b, which the analysis does not see through" % summ.show_opaque(opq))
            if later is not None:
                chk.broken("tLweSymEncryptZero: the noise is added to b after the products (line %s), an arrangement this rule does not decide" % later["line"])
            problems.append("b is not initialised to gaussian32(0, alpha) in all N coefficients: %s" % detn)
        chk.require(not problems, "R2", "tLweSymEncryptZero: b = noise + sum_{i<k} key[i]*a[i]", where=ez.where,
                    ok="b[j] = gaussian32(0,alpha), j<N; AddMulR(b, key[i], a[i]) for i<k", bad="; ".join(problems), variant=vn)
        tp = v.fn("tLwePhase")
        tps, _ = summ.pieces(v, tp, hooks=inl())
        phs, smp, tk = [p["n"] for p in tp.params]
        problems = []
        sub = calls(tps, subname)
        K2 = sym.arrow(P(tk, "params"), "k")
        cp = [p for p in tps if p["kind"] == "store" and sym.root_of(p["lv"]) == sym.sym(phs) and p["op"] == "="]
        if len(sub) != 1 or len(sub[0]["loops"]) != 1:
            problems.append("expected one %s inside the component loop" % subname)
        else:
            lp = sub[0]["loops"][0]
            i = lp["var"]
            if not summ.visits(lp, ZERO, K2):
                problems.append("component loop [%s %s %s), encryption uses [0,k)" % (sym.show(lp["lo"]), lp["cmp"], sym.show(lp["hi"])))
            if sub[0]["args"] != [sym.sym(phs), sym.addr(sym.idx(P(tk, "key"), i)), sym.addr(sym.idx(P(smp, "a"), i))]:
                problems.append("product operands %s" % [sym.show(a) for a in sub[0]["args"]])
        if len(cp) != 1 or cp[0]["val"] != sym.idx(sym.arrow(P(smp, "b"), "coefsT"), cp[0]["loops"][0]["var"]):
            problems.append("phase is not initialised with b")
        chk.require(not problems, "R2", "tLwePhase = b - sum_{i<k} key[i]*a[i] (same range and operands as the encryption, SubMulR vs AddMulR)",
                    where=tp.where, ok="Copy(phase, b); SubMulR(phase, key[i], a[i]) for i<k", bad="; ".join(problems), variant=vn)
        for ename, how in (("tLweSymEncrypt", "poly"), ("tLweSymEncryptT", "const")):
            e = v.fn(ename)
            eps, _ = summ.pieces(v, e, hooks=NOINLINE)
            res, msg = e.params[0]["n"], e.params[1]["n"]
            z = calls(eps, "tLweSymEncryptZero")
            st = [p for p in eps if p["kind"] == "store" and (sym.root_of(p["lv"]) or ("?",))[0] == "sym"]     # stores through the parameters
            from sa import coverage as _cov
            Nn_ = sym.arrow(P(e.params[-1]["n"], "params"), "N")
            barr = sym.arrow(P(res, "b"), "coefsT")
            # one encryption of zero, then message added onto b: every coefficient exactly once (any loop structure) and nothing else written
            ok = len(z) == 1 and bool(st) and all(sym.root_of(p["lv"]) == sym.sym(res) for p in st)
            foreign = [p for p in st if not (p["lv"][0] == "idx" and p["lv"][1] == barr)]
            seq = {id(p): i_ for i_, p in enumerate(eps)}
            if ok and (foreign or any(seq[id(p)] < seq[id(z[0])] for p in st)):
                ok = False
            elif ok and how == "poly":
                stt, det, _n = _cov.filled_by(st, barr, Nn_, lambda val, ix: None if val == sym.idx(P(msg, "coefsT"), ix) else "adds %s" % sym.show(val)[:60], want_op="+=")
                if stt == "unknown":
                    chk.broken("%s: %s" % (ename, det))
                ok = stt == "proved"
            elif ok:
                ok = len(st) == 1 and st[0]["op"] == "+=" and not st[0]["loops"] and not st[0]["guards"] and \
                    st[0]["lv"] == sym.idx(barr, ZERO) and st[0]["val"] == sym.sym(msg)
            chk.require(ok, "R2", "%s = encryption of zero with the message added on b" % ename, where=e.where,
                        ok="tLweSymEncryptZero then b += message", bad="pieces: %s" % [summ.show_piece(p)[:80] for p in eps], variant=vn)
        # ------------------------------------------------ R3 TGSW
        gz = v.fn("tGswEncryptZero")
        gps, _ = summ.pieces(v, gz, hooks=NOINLINE)
        gres, galpha, gkey = [p["n"] for p in gz.params]
        c = calls(gps, "tLweSymEncryptZero")
        # every call encrypts zero into a row of all_sample with the caller's alpha under the TLWE key; the rows visited by all
        # calls (flat loop, block-wise nest, walking pointer) are enumerated for k, l in 1..3 against [0, kpl) with kpl = (k+1)l
        from sa import concrete
        import itertools as _it
        gpar = P(gkey, "params")
        Kz, Lz, KPLz = sym.arrow(sym.arrow(gpar, "tlwe_params"), "k"), sym.arrow(gpar, "l"), sym.arrow(gpar, "kpl")
        ok = bool(c)
        whyz = ""
        for cz in c:
            a0 = cz["args"][0]
            b0, o0 = sym.ptr_split(a0)
            if b0 != P(gres, "all_sample") and sym.root_of(b0) not in (sym.sym(gres), sym.sym(gkey)):
                chk.broken("tGswEncryptZero: the row passed at line %s is not resolved to the parameters: %s" % (cz["line"], sym.show(a0)[:120]))
            if b0 != P(gres, "all_sample") or cz["args"][1] != sym.sym(galpha) or \
                    cz["args"][2] != sym.addr(sym.fld(sym.idx(sym.sym(gkey), ZERO), "tlwe_key")) or cz["guards"]:
                ok, whyz = False, "call at line %s: %s" % (cz["line"], summ.show_piece(cz)[:120])
                break
        if ok:
            for kv, lv_ in _it.product((1, 2, 3), repeat=2):
                env0 = {Kz: kv, Lz: lv_, KPLz: (kv + 1) * lv_}
                try:
                    seen = [x_[0] for x_ in concrete.visited_tuples(c, lambda cz: (sym.ptr_split(cz["args"][0])[1],), env0)]
                except concrete.NotEvaluable as e:
                    chk.broken("tGswEncryptZero: %s" % e)
                if sorted(seen) != list(range((kv + 1) * lv_)):
                    ok, whyz = False, "with k = %d, l = %d the rows encrypted are %s, the sample has kpl = %d rows" % (kv, lv_, sorted(seen)[:10], (kv + 1) * lv_)
                    break
        chk.require(ok, "R3", "tGswEncryptZero encrypts zero in all (k+1)l rows under the TLWE key", where=gz.where,
                    ok="tLweSymEncryptZero(&all_sample[p], alpha, &key->tlwe_key) for p < kpl, rows enumerated for k, l in 1..3",
                    bad=[whyz] + [summ.show_piece(p)[:100] for p in gps], variant=vn)
        for ename, adder in (("tGswSymEncrypt", "tGswAddMuH"), ("tGswSymEncryptInt", "tGswAddMuIntH")):
            e = v.fn(ename)
            eps, _ = summ.pieces(v, e, hooks=NOINLINE)
            z, a = calls(eps, "tGswEncryptZero"), calls(eps, adder)
            ok = len(z) == 1 and len(a) == 1 and z[0]["line"] < a[0]["line"] and a[0]["args"][0] == sym.sym(e.params[0]["n"]) and \
                a[0]["args"][1] == sym.sym(e.params[1]["n"]) and a[0]["args"][2] == P(e.params[-1]["n"], "params")
            chk.require(ok, "R3", "%s = rows of zero + mu*h on the block diagonal (%s)" % (ename, adder), where=e.where,
                        ok="tGswEncryptZero then %s(result, message, key->params)" % adder, bad=[summ.show_piece(p)[:80] for p in eps], variant=vn)
        # block-diagonal placement of mu*h_i
        for aname in ("tGswAddMuH", "tGswAddMuIntH", "tGswAddH"):
            # the statements are interpreted for k in {1,2}, l in {1,2,3}, N in {1,2,3} (sa/concrete.py): every update must hit
            # component `bloc` of row (bloc, i) with a value carrying h[i] (and mu[j] at coefficient j for the polynomial
            # variant), and all (bloc, i) with bloc <= k, i < l must be updated exactly once -- whatever the loop order
            from sa import concrete
            from sa.pipeline import AnalysisBroken
            import itertools
            a = v.fn(aname)
            aps, aeff = summ.pieces(v, a, hooks=NOINLINE)
            ares = a.params[0]["n"]
            apar = a.params[-1]["n"]
            amsg = a.params[1]["n"] if len(a.params) == 3 else None
            K_, L_, N_ = sym.arrow(P(apar, "tlwe_params"), "k"), P(apar, "l"), sym.arrow(P(apar, "tlwe_params"), "N")
            Hf = P(apar, "h")
            poly_variant = aname == "tGswAddMuH"
            problems = []
            for kv, lv_, nv in itertools.product((1, 2), (1, 2, 3), (1, 2, 3)):
                if problems:
                    break
                env = {K_: kv, L_: lv_, N_: nv, P(apar, "kpl"): (kv + 1) * lv_}
                if amsg and poly_variant:
                    env[P(amsg, "N")] = nv
                hits = {}

                def handler(kind, x, env):
                    if kind == "cond":
                        return None
                    if kind == "call" and not x.get("noreturn") and x["name"] not in ("__assert_fail",):
                        raise AnalysisBroken("%s: call to %s has no meaning here" % (aname, x["name"]))
                    if kind != "store":
                        return
                    try:
                        r, pth = concrete.lvalue_location(x["lv"], env)
                    except concrete.NotEvaluable as e:
                        raise AnalysisBroken("%s: %s" % (aname, e))
                    if r != sym.sym(ares):
                        return
                    if not (len(pth) == 8 and pth[1] == "bloc_sample" and pth[4] == "a" and pth[6] == "coefsT"):
                        problems.append("with k=%d, l=%d, N=%d: %s is written (line %s), not a coefficient of a row of the block table" % (
                            kv, lv_, nv, sym.show(x["lv"])[:80], x["l"]))
                        return
                    b_, i_, c_, j_ = pth[2], pth[3], pth[5], pth[7]
                    hx = [concrete.eval_term(st_[2], env) for st_ in sym.subterms(x["val"]) if st_[0] == "idx" and st_[1] == Hf]
                    mx = [concrete.eval_term(st_[2], env) for st_ in sym.subterms(x["val"])
                          if amsg and st_[0] == "idx" and st_[1] == P(amsg, "coefs")]
                    if x["op"] != "+=":
                        problems.append("row (%d,%d) is updated with '%s'" % (b_, i_, x["op"]))
                    elif c_ != b_:
                        problems.append("with k=%d: row (bloc=%d, i=%d) is updated on component %d, the gadget sits on component `bloc` = %d" % (kv, b_, i_, c_, b_))
                    elif hx != [i_]:
                        problems.append("row (bloc=%d, i=%d) receives h[%s], expected h[%d]" % (b_, i_, hx, i_))
                    elif poly_variant and mx != [j_]:
                        problems.append("coefficient %d of row (%d,%d) receives mu[%s]" % (j_, b_, i_, mx))
                    hits[(b_, i_, j_)] = hits.get((b_, i_, j_), 0) + 1
                try:
                    concrete.interpret(aeff, env, handler)
                except concrete.NotEvaluable as e:
                    raise AnalysisBroken("%s: %s" % (aname, e))
                want = {(b_, i_, j_) for b_ in range(kv + 1) for i_ in range(lv_) for j_ in (range(nv) if poly_variant else (0,))}
                if not problems and (set(hits) != want or any(c != 1 for c in hits.values())):
                    miss = sorted(want - set(hits))
                    extra = sorted(set(hits) - want)
                    dup = sorted(h_ for h_, c in hits.items() if c > 1)
                    problems.append("with k=%d, l=%d, N=%d: %s" % (kv, lv_, nv, "; ".join(
                        ([("row (bloc=%d, i=%d) coefficient %d is never updated" % miss[0])] if miss else []) +
                        ([("(bloc=%d, i=%d) coefficient %d is updated although outside the gadget" % extra[0])] if extra else []) +
                        ([("(bloc=%d, i=%d) coefficient %d is updated %d times" % (dup[0] + (hits[dup[0]],)))] if dup else []))))
            chk.require(not problems, "R3", "%s adds mu*h[i] on component `bloc` of row (bloc, i) for all bloc <= k, i < l" % aname, where=a.where,
                        ok="bloc_sample[bloc][i].a[bloc] += mu * h[i] for every bloc <= k, i < l (interpreted for k in {1,2}, l, N in 1..3)",
                        bad="; ".join(problems)[:500], variant=vn)
        gd = v.fn("tGswSymDecrypt")
        wit = tgsw_decrypt_by_interpretation(chk, v, gd)
        chk.require(wit is None, "R3", "tGswSymDecrypt reads block k, rows i < l, recomposes with the decomposition of 1/Msize and rounds with Msize",
                    where=gd.where, ok="interpreted for k in {1,2}, l in 1..3, N in {1,2,5} and every pattern of zero digits: result[j] = "
                    "modSwitchFromTorus32(sum_i digit_i(1/Msize) * phase(bloc_sample[k][i])[j], Msize)", bad=wit or "", variant=vn)
        # b aliases component k (constructor)
        ctor = [c for c in v.defined() if c.get("record") == "TLweSample" and c.get("kind") == "ctor" and not c.get("implicit")]
        cps, _ = summ.pieces(v, ctor[0], hooks=NOINLINE)
        bst = [p for p in cps if p["kind"] == "store" and p["lv"] == sym.arrow(sym.sym("this"), "b")]
        okb = len(bst) == 1 and bst[0]["val"][0] == "addr" and bst[0]["val"][1][0] == "idx" and sym.show(bst[0]["val"][1][2]).endswith("k")
        chk.require(okb, "R3", "TLweSample::b is component k of the mask array (b = a + k)", where=ctor[0].where,
                    ok="b = a + k", bad=[summ.show_piece(p) for p in bst], variant=vn, nontrivial=False)
        # ------------------------------------------------ R4 gate API
        from rules import c01
        c01.gate_encoding(chk, v, vn, "R4")
        # ------------------------------------------------ R5 trivial samples
        for name, how in (("tLweNoiselessTrivial", "poly"), ("tLweNoiselessTrivialT", "const")):
            f = v.fn(name)
            ps, _ = summ.pieces(v, f, hooks=inl())
            res, mu, par = [p["n"] for p in f.params]
            K = P(par, "k")
            zero = [p for p in ps if p["kind"] == "store" and p["val"] == ZERO and len(p["loops"]) == 2]
            problems = []
            if len(zero) != 1:
                problems.append("mask clearing statement not found")
            else:
                il, jl = zero[0]["loops"]
                if not summ.visits(il, ZERO, K) or jl["lo"] != ZERO or jl["cmp"] != "<":
                    problems.append("mask cleared over i in [%s,%s)" % (sym.show(il["lo"]), sym.show(il["hi"])))
                if zero[0]["lv"] != sym.idx(sym.fld(sym.idx(P(res, "a"), il["var"]), "coefsT"), jl["var"]) or \
                        jl["hi"] != sym.fld(sym.idx(P(res, "a"), il["var"]), "N"):
                    problems.append("cleared cells %s over j < %s" % (sym.show(zero[0]["lv"]), sym.show(jl["hi"])))
            chk.require(not problems, "R5", "%s clears every coefficient of the k mask polynomials" % name, where=f.where,
                        ok="a[i].coefsT[j] = 0 for i<k, j<N", bad="; ".join(problems), variant=vn)
        tg = v.fn("tGswNoiselessTrivial")
        tgp, _ = summ.pieces(v, tg, hooks=NOINLINE)
        okt = [c["name"] for c in calls(tgp)] == ["tGswClear", "tGswAddMuH"]
        chk.require(okt, "R5", "tGswNoiselessTrivial = cleared rows + mu*h", where=tg.where, ok="tGswClear then tGswAddMuH",
                    bad=[c["name"] for c in calls(tgp)], variant=vn, nontrivial=False)
        gc = v.fn("tGswClear")
        gcp, _ = summ.pieces(v, gc, hooks=NOINLINE)
        c = calls(gcp, "tLweClear")
        gcr, gcpar = gc.params[0]["n"], gc.params[1]["n"]
        okc = bool(c)
        for cz in c:
            b0, _o = sym.ptr_split(cz["args"][0])
            if b0 != P(gcr, "all_sample") and sym.root_of(b0) not in (sym.sym(gcr), sym.sym(gcpar)):
                chk.broken("tGswClear: the row passed at line %s is not resolved to the parameters" % cz["line"])
            okc = okc and b0 == P(gcr, "all_sample")
        if okc:
            for kv, lv_ in _it.product((1, 2, 3), repeat=2):
                env0 = {sym.arrow(P(gcpar, "tlwe_params"), "k"): kv, P(gcpar, "l"): lv_, P(gcpar, "kpl"): (kv + 1) * lv_}
                try:
                    seen = sorted(x_[0] for x_ in concrete.visited_tuples(c, lambda cz: (sym.ptr_split(cz["args"][0])[1],), env0))
                except concrete.NotEvaluable as e:
                    chk.broken("tGswClear: %s" % e)
                if seen != list(range((kv + 1) * lv_)):
                    okc = False
                    break
        chk.require(okc, "R5", "tGswClear clears all (k+1)l rows", where=gc.where, ok="tLweClear(&all_sample[p]) for p < kpl",
                    bad=[summ.show_piece(p)[:80] for p in gcp], variant=vn)
        # ------------------------------------------------ R6 decrypt = approxPhase o phase
        ld = v.fn("lweSymDecrypt")
        lp_, _ = summ.pieces(v, ld, hooks=NOINLINE)
        s_, k2, M_ = [p["n"] for p in ld.params]
        r = [p for p in lp_ if p["kind"] == "return"]
        want = ("call", "approxPhase", (("call", "lwePhase", (sym.sym(s_), sym.sym(k2))), sym.sym(M_)))
        chk.require(len(r) == 1 and r[0]["val"] == want, "R6", "lweSymDecrypt = approxPhase(lwePhase(sample, key), Msize)", where=ld.where,
                    ok=sym.show(want), bad=sym.show(r[0]["val"]) if r else "no return", variant=vn)
        td = v.fn("tLweSymDecrypt")
        tdp, _ = summ.pieces(v, td, hooks=NOINLINE)
        r_, s2, k3, M2 = [p["n"] for p in td.params]
        cs = calls(tdp)
        okd = [c["name"] for c in cs] == ["tLwePhase", "tLweApproxPhase"] and cs[0]["args"] == [sym.sym(r_), sym.sym(s2), sym.sym(k3)] and \
            cs[1]["args"][:3] == [sym.sym(r_), sym.sym(r_), sym.sym(M2)] and cs[1]["args"][3] == sym.arrow(P(k3, "params"), "N")
        chk.require(okd, "R6", "tLweSymDecrypt = approxPhase applied to every coefficient of tLwePhase", where=td.where,
                    ok="tLwePhase(result, sample, key); tLweApproxPhase(result, result, Msize, N)", bad=[summ.show_piece(c)[:80] for c in cs], variant=vn)
        ap = v.fn("tLweApproxPhase")
        app, _ = summ.pieces(v, ap, hooks=NOINLINE)
        m_, p_, Ms, Np = [p["n"] for p in ap.params]
        st = [p for p in app if p["kind"] == "store"]
        # every statement rounds the coefficient at the position it writes (by calling approxPhase or by an in-line rounding that is
        # compared with approxPhase's grid); together the statements visit [0, N) exactly once (peeled, unrolled, any direction)
        from sa import coverage
        dst_arr, src_arr = P(m_, "coefsT"), P(p_, "coefsT")
        inline_why = []

        def rounds(val, ix):
            if val == ("call", "approxPhase", (sym.idx(src_arr, ix), sym.sym(Ms))):
                return None
            if not _mentions_call(val, "approxPhase"):
                ok_i, why_i = inline_rounding(chk, v, {"val": val, "line": 0, "loops": [], "lv": sym.idx(dst_arr, ix)}, sym.idx(src_arr, ix), sym.sym(Ms))
                if ok_i:
                    return None
                inline_why.append(why_i)
                return "message[%s] is rounded differently from approxPhase: %s" % (sym.show(ix), why_i)
            return "message[%s] = %s is not approxPhase(phase[%s], Msize)" % (sym.show(ix), sym.show(val)[:80], sym.show(ix))
        sta, deta, na_ = coverage.filled_by(st, dst_arr, sym.sym(Np), rounds)
        if sta == "unknown":
            chk.broken("tLweApproxPhase: %s" % deta)
        oka = sta == "proved"
        why_a = deta if not oka else [summ.show_piece(p)[:100] for p in st]
        chk.require(oka, "R6", "tLweApproxPhase rounds each of the N coefficients with the caller's Msize", where=ap.where,
                    ok="message[i] = approxPhase(phase[i], Msize), i<N", bad=why_a, variant=vn)
