"""C20 — all FFT back-end libraries are drop-in interchangeable and usable from C.

Decides: R1 every public header parses alone as C99 and as gnu++11; R2 record layouts are identical
between the C and C++ views and between the two builds; R3 every public function has C linkage;
R4 the five variants define the same public symbol surface in both builds; R5 displacements used by
the hand-written assembly equal the layouts of the records they address; R6 the back-end private
polynomial record fits the public opaque one.
"""
import re

from sa import api, asm
from sa.facts import Program
from sa.pipeline import BACKENDS, CONFIGS


DECLARED_NEVER_IMPLEMENTED = {
    "tGswAddTo": "tgsw_functions.h; no definition and no caller anywhere in the repository",
    "tGswFFTMulByXaiMinusOne": "tgsw_functions.h; no definition and no caller anywhere in the repository",
    "tGswSymDecryptInt": "tgsw_functions.h; no definition and no caller anywhere in the repository",
}


def run(chk):
    prog = Program()
    chk.explanation = (
        "Header, layout and symbol-surface agreement computed by the compiler front end: each header of the "
        "include closure of tfhe.h is parsed alone in C99 and gnu++11 mode; size, alignment and every field offset of "
        "every public record are compared between the C and C++ parse and between optim and debug flag sets; the "
        "C-linkage definitions of each of the 5 variants x 2 builds (AST definitions plus .globl symbols of their "
        "assembly units), intersected with the functions declared in public headers, must be the same set; "
        "assembly displacements are checked against record layouts.")
    chk.trusted = ["clang 14 front end and its record layout computation (Itanium ABI, x86-64)", "cmake compile database"]
    idx = prog.index
    # public headers = files that contribute declarations to the C99 parse of <tfhe.h> + <tfhe_io.h>
    c99 = prog.header("c99", "optim")
    public_headers = sorted({f["file"] for f in c99["functions"]} | {r["file"] for r in c99["records"]})
    public_headers = [h for h in public_headers if h.startswith("include/")]
    chk.set_count("R1.public_headers", len(public_headers))
    all_headers = sorted({k.split(":")[0] for k in idx["solo_headers"]})
    for h in all_headers:
        rel = "include/" + h
        for mode in ("c99", "cxx"):
            st = idx["solo_headers"]["%s:%s" % (h, mode)]
            if rel in public_headers or mode == "cxx":
                chk.require(st.get("ok", False), "R1", "%s parses alone as %s" % (h, mode), where=rel,
                            ok="no diagnostics of error severity", bad=st.get("error", "parse failed"), nontrivial=False)
            else:
                # C++-only internal header: must say so itself (an #error or nothing but a C++ section)
                chk.note("%s is outside the C include closure of tfhe.h (C99 parse: %s)" % (
                    h, "ok" if st.get("ok") else st.get("error", "")[:120]))
    # R2 layouts
    views = {(m, c): prog.header(m, c) for m in ("c99", "cxx") for c in CONFIGS}
    base = {r["name"]: r for r in views[("c99", "optim")]["records"] if r["file"].startswith("include/")}
    chk.set_count("R2.public_records", len(base))
    for name, r0 in sorted(base.items()):
        for (m, c), d in views.items():
            r1 = next((r for r in d["records"] if r["name"] == name), None)
            key = "%s layout in %s/%s equals c99/optim" % (name, m, c)
            if r1 is None:
                chk.refuted("R2", key, where=r0["loc"], detail="record missing in this view")
                continue
            l0 = (r0["size"], r0["align"], [(f["n"], f["offset"], f["size"]) for f in r0["fields"]])
            l1 = (r1["size"], r1["align"], [(f["n"], f["offset"], f["size"]) for f in r1["fields"]])
            chk.require(l0 == l1, "R2", key, where=r0["loc"], ok="size %d align %d, %d fields" % (l0[0], l0[1], len(l0[2])),
                        bad="c99/optim %s vs %s/%s %s" % (l0, m, c, l1), nontrivial=(m, c) != ("c99", "optim"))
        cxx = next((r for r in views[("cxx", "optim")]["records"] if r["name"] == name), None)
        if cxx is not None:
            chk.require(not cxx.get("polymorphic"), "R2", "%s has no vtable in the C++ view" % name, where=r0["loc"],
                        ok="not polymorphic", bad="polymorphic: a hidden vptr shifts every field for C clients", nontrivial=False)
    # R3 C linkage
    cxxfun = {}
    for f in views[("cxx", "optim")]["functions"]:
        if f["file"].startswith("include/") and f["kind"] == "function" and ("include/" + f["file"].split("/")[-1]) in public_headers:
            cxxfun.setdefault(f["name"], f)
    c99fun = {f["name"] for f in c99["functions"] if f["file"].startswith("include/")}
    chk.set_count("R3.public_functions_c_view", len(c99fun))
    for name in sorted(c99fun):
        f = cxxfun.get(name)
        if f is None:
            chk.refuted("R3", "%s is declared in the C++ view too" % name, detail="declared for C clients only")
            continue
        chk.require(f["externC"], "R3", "%s has C language linkage" % name, where=f["loc"], ok="extern \"C\"",
                    bad="C++ linkage: the symbol is mangled, C clients cannot link", nontrivial=False)
    # R4 symbol surface
    surfaces = {}
    ref_all_defined = set()
    for v in prog.variants():
        chk.analysed["variants"] = chk.analysed.get("variants", 0) + 1
        # a definition with hidden ELF visibility (`#pragma GCC visibility push(hidden)`, a visibility attribute) is not in the
        # dynamic symbol table of the shared library: no export, whatever its linkage
        cands = [f for f in v.defined() if f.get("kind") == "function" and f.get("externC") and not f.get("static") and not f.get("hidden")]
        # an inline definition is no export: the compiler emits a (weak) copy only in translation units that use the
        # function without inlining it, so whether the library carries the symbol depends on optimisation level and callers
        defined = {f.name for f in cands if not f.get("inline")}
        inline_only = sorted({f.name for f in cands if f.get("inline")} - defined)
        pubnames = {f.name for f in api.public_functions(v).values()}
        for nme in inline_only:
            if nme in pubnames:
                f0 = next(f for f in cands if f.name == nme)
                chk.refuted("R4", "%s has an out-of-line definition in the library" % nme, where=f0.where,
                            detail="the only definition is 'inline' (in %s): an optimised build inlines every call and emits no symbol, "
                                   "so C clients and dlsym/FFI users cannot link against it" % f0.file, variant=v.name)
        for u in v.asm_units:
            defined |= set(asm.globals_of(prog.asm_text(u)))
        pub = {f.name for f in api.public_functions(v).values() if f.name in c99fun}
        surfaces[v.name] = (defined & pub, pub)
        ref_all_defined |= defined
    ref_name = sorted(surfaces)[0]
    ref = surfaces[ref_name][0]
    chk.set_count("R4.public_symbols_defined", len(ref))
    for vn, (s, pub) in sorted(surfaces.items()):
        chk.require(s == ref, "R4", "%s defines the same public functions as %s" % (vn, ref_name),
                    ok="%d public functions defined" % len(s),
                    bad="only here: %s; missing here: %s" % (sorted(s - ref)[:6], sorted(ref - s)[:6]), variant=vn)
    # declared for C clients and defined in no variant: a client that calls it cannot link against any of the libraries.  Three such
    # declarations exist upstream (never implemented; confirmed by reading: no definition, no caller); anything else is a violation.
    never = sorted(surfaces[ref_name][1] - ref)
    for nme in never:
        if nme in DECLARED_NEVER_IMPLEMENTED:
            chk.note("declared in a public header and never implemented upstream (%s): %s" % (DECLARED_NEVER_IMPLEMENTED[nme], nme))
            continue
        decl = next((f for f in c99["functions"] if f["name"] == nme), None)
        near = sorted(d_ for d_ in ref_all_defined if d_.lower() == nme.lower() and d_ != nme)
        chk.refuted("R4", "%s is defined by the libraries" % nme, where=decl["loc"] if decl else "",
                    detail="declared in a public header for C clients and defined in none of the %d variants%s: a program that calls it does not "
                           "link against any back-end library" % (len(surfaces), "; a definition named %s exists (spelling differs)" % near[0] if near else ""))
    chk.set_count("R4.public_functions_declared", len(surfaces[ref_name][1]))
    # R5 / R6
    asm.check_c20_offsets(chk, prog)
