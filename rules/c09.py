"""C09 — external product multiplies messages; blind rotation rotates by the secret exponent.

Decides (shape): R1 row/digit correspondence of both external products (all kpl rows, all k+1 components, cleared
accumulator, digit windows = row blocks); R2 CMux shape ACC + BK_i x ((X^a - 1) ACC) in both MuxRotate variants;
R3 rotation loop (shared with C04.R3, re-evaluated there); R4 the FFT image of the bootstrapping key converts every
row of every bk[i] and copies every key-switch cell; R5 the pointwise Lagrange kernels of every back-end compute the
complex product / accumulate (lane-symbolic evaluation of the fma and avx assembly against the C++ siblings).
Not decided: the error bound of the product; FFT accuracy (C10).
R6 the gadget digits that both external products multiply the rows with are balanced, tile the kept bits and
recompose (C12's rules re-evaluated): the analytic error bound assumes |digit| <= Bg/2.
"""
import itertools
from sa import asm, summ, sym
from sa.facts import Program
from sa.sym import I, ZERO
from rules import c11

P = lambda p, f: sym.arrow(sym.sym(p), f)
NOINLINE = summ.LOCAL_HELPERS
KERNELS = {"LagrangeHalfCPolynomialMul": "=", "LagrangeHalfCPolynomialAddMul": "+=", "LagrangeHalfCPolynomialSubMul": "-="}


def calls(ps, name=None):
    return [p for p in ps if p["kind"] == "call" and not p["eff"].get("noreturn") and (name is None or p["name"] == name)]


def rng(lp):
    hi = lp["hi"] if lp["cmp"] == "<" else sym.add(lp["hi"], I(1)) if lp["cmp"] == "<=" else None
    return lp["lo"], hi


def check_kernels(chk, v, prog):
    vn = v.name
    X = lambda k, part: sym.sym("x%d.%s" % (k, part))
    prod_re = sym.sub(sym.mul(X(1, "re"), X(2, "re")), sym.mul(X(1, "im"), X(2, "im")))
    prod_im = sym.add(sym.mul(X(1, "re"), X(2, "im")), sym.mul(X(1, "im"), X(2, "re")))
    want = {
        "=": {(0, "re"): prod_re, (0, "im"): prod_im},
        "+=": {(0, "re"): sym.add(X(0, "re"), prod_re), (0, "im"): sym.add(X(0, "im"), prod_im)},
        "-=": {(0, "re"): sym.sub(X(0, "re"), prod_re), (0, "im"): sym.sub(X(0, "im"), prod_im)},
    }
    found = set()
    for u in v.asm_units:
        fns = asm.functions_of(prog.asm_text(u))
        for name, items in fns.items():
            if name not in KERNELS:
                continue
            found.add(name)
            r = asm.fp_kernel_eval(items)
            key = "%s (%s assembly) computes result %s a*b as a complex product over all N/2 points" % (name, v.backend, KERNELS[name])
            where = "%s:%s" % (u["file"], name)
            if r["problems"]:
                chk.broken("%s: %s" % (where, r["problems"][0]))
            w = want[KERNELS[name]]
            problems = []
            for part in ((0, "re"), (0, "im")):
                got = r["stores"].get(part)
                if got is None:
                    problems.append("no store to the %s part of the result" % part[1])
                elif got != w[part]:
                    problems.append("%s part = %s, the complex %s is %s" % (part[1], sym.show(got), "product" if KERNELS[name] == "=" else "accumulate",
                                                                            sym.show(w[part])))
            lp = r["loop"] or {}
            st = lp.get("strides", {})
            if any(st.get((k, part)) != 32 for k in (0, 1, 2) for part in ("re", "im")):
                problems.append("pointer strides %s are not one 4-double vector per iteration" % st)
            if lp.get("walk") != (0, "re") or lp.get("end") != (0, "im"):
                problems.append("loop does not run from the real base to the imaginary base (N/2 points): walk %s, end %s" % (lp.get("walk"), lp.get("end")))
            chk.require(not problems, "R5", key, where=where,
                        ok="re = %s; im = %s; 4 lanes per iteration from coefsC to coefsC+Ns2" % (sym.show(w[(0, "re")]), sym.show(w[(0, "im")])),
                        bad="; ".join(problems), variant=vn, data={"stores": {"%s.%s" % k: sym.show(t) for k, t in r["stores"].items()}})
    # C++ siblings
    for name, op in KERNELS.items():
        f = v.fn(name, required=False)
        if f is None:
            if name not in found:
                chk.refuted("R5", "%s is defined by back-end %s" % (name, v.backend), detail="neither a C++ nor an assembly definition", variant=vn)
            continue
        found.add(name)
        ps, _ = summ.pieces(v, f, hooks=NOINLINE)
        res, a, b = [p["n"] for p in f.params]
        st = [p for p in ps if p["kind"] == "store"]
        key = "%s (%s C++) computes result %s a*b as a complex product over all N/2 points" % (name, v.backend, op)
        problems = []
        if len(st) != 1 or len(st[0]["loops"]) != 1:
            problems.append("expected one statement in one loop")
        else:
            s = st[0]
            lp = s["loops"][0]
            if "var" not in lp:
                chk.broken("%s: the loop at line %s has no closed form" % (name, lp.get("l")))
            i = lp["var"]
            ns2 = sym.arrow(P(res, "proc"), "Ns2")
            if not summ.visits(lp, ZERO, ns2):
                problems.append("range [%s %s %s), expected [0, proc->Ns2)" % (sym.show(lp["lo"]), lp["cmp"], sym.show(lp["hi"])))
            val = s["val"]
            # std::complex product: a call/operator* on aa[i], bb[i]; compound assignment operators appear as the store op
            ea, eb = sym.idx(P(a, "coefsC"), i), sym.idx(P(b, "coefsC"), i)
            isprod = val[0] in ("call", "obj") and "operator*" in val[1] and set(val[2]) == {ea, eb}
            if s["lv"] != sym.idx(P(res, "coefsC"), i) or not isprod:
                problems.append("statement is %s" % summ.show_piece(s)[:160])
            if s["op"] != op:
                problems.append("operator %s, expected %s" % (s["op"], op))
        # std::complex assignments are operator calls: operator=, operator+=, operator-=
        if problems:
            cs = [c for c in calls(ps) if c["name"].endswith("operator" + op) and c["loops"]]
            if len(cs) == 1:
                c2 = cs[0]
                lp = c2["loops"][0]
                if "var" not in lp:
                    chk.broken("%s: the loop at line %s has no closed form (bounds taken from a helper's result object)" % (name, lp.get("l")))
                i = lp["var"]
                ns2 = sym.arrow(P(res, "proc"), "Ns2")
                ea, eb = sym.idx(P(a, "coefsC"), i), sym.idx(P(b, "coefsC"), i)
                args = [x for x in c2["args"] if x is not None]
                dst = c2["eff"].get("this")
                if dst is None and args:
                    dst, args = sym.addr(args[0]), args[1:]
                prodt = args[0] if args else None
                isprod = prodt is not None and prodt[0] in ("call", "obj") and "operator*" in prodt[1] and set(prodt[2]) == {ea, eb}
                p2 = []
                if not summ.visits(lp, ZERO, ns2):
                    p2.append("range [%s %s %s), expected [0, proc->Ns2)" % (sym.show(lp["lo"]), lp["cmp"], sym.show(lp["hi"])))
                if dst != sym.addr(sym.idx(P(res, "coefsC"), i)) or not isprod:
                    p2.append("statement is %s" % summ.show_piece(c2)[:200])
                problems = p2
            elif cs:
                problems = ["%d complex assignments" % len(cs)]
            else:
                others = [c["name"].split("::")[-1] for c in calls(ps) if "operator" in c["name"] and "operator*" not in c["name"]]
                problems = ["the result is updated with %s, expected operator%s" % (others, op)]
        # a bound read through an operand's processor is a finding of its own (the operand may have been created by another thread:
        # its processor is that thread's); any other deviation from the one-statement form is a mechanism this rule does not model
        # (a functor applied per element, a helper shared by the three kernels): undecided, not a violation
        foreign = [l_ for q_ in ps for l_ in q_["loops"] if "var" in l_ and any(
            st_[0] == "fld" and st_[2] == "Ns2" and sym.root_of(st_) in (sym.sym(a), sym.sym(b)) for st_ in sym.subterms(l_["hi"]))]
        if foreign:
            chk.refuted("R5", key, where=f.where, variant=vn,
                        detail="the loop at line %s runs to %s: the number of points is read through the processor of an operand, not of the polynomial "
                               "being written (the operand's processor belongs to the thread that created the operand)" % (foreign[0].get("l"), sym.show(foreign[0]["hi"])[:60]))
            continue
        if problems and not any(pr_.startswith("range ") for pr_ in problems):
            chk.broken("%s (%s C++): %s" % (name, v.backend, "; ".join(problems)[:200]))
        chk.require(not problems, "R5", key, where=f.where, ok="rr[i] %s aa[i]*bb[i] over [0, Ns2) on std::complex<double>" % op,
                    bad="; ".join(problems), variant=vn)
    chk.vcount(vn, "R5.pointwise_kernels", len(found))


def check_component_coverage(chk, v, g, mc, what, variant):
    """every component index in [0, k+1) is accumulated exactly once, with result and sample at the same index:
    index-coverage decision over the loop descriptors of all accumulate calls (unrolled loops, tails, ...)"""
    from sa import bounds, coverage
    from sa.pipeline import AnalysisBroken
    r, pp, s, tp = [p["n"] for p in g.params]
    NC = sym.sym("ncomp")                      # ncomp = k + 1
    Kt = P(tp, "k")
    toN = lambda t: sym.subst(t, {Kt: sym.sub(NC, I(1))})
    terms, bad1 = [], []
    for c_ in mc:
        if len(c_["loops"]) > 1 or c_["guards"]:
            raise AnalysisBroken("%s: accumulate call at line %s is not in at most one unguarded loop" % (g.name, c_["line"]))
        a0, a1, a2 = c_["args"][:3]
        b0, o0 = bounds.split_base_offset(a0)
        b2, o2 = bounds.split_base_offset(a2)
        if b0 != P(r, "a") or b2 != P(s, "a") or a1 != sym.sym(pp):
            raise AnalysisBroken("%s: accumulate call on %s" % (g.name, [sym.show(x)[:40] for x in c_["args"][:3]]))
        if o0 != o2:
            bad1.append("component %s of the result accumulates component %s of the sample (line %s)" % (sym.show(o0), sym.show(o2), c_["line"]))
        if c_["loops"]:
            lp_ = dict(c_["loops"][0])
            lp_["hi"], lp_["lo"] = toN(lp_["hi"]), toN(lp_["lo"])
            terms.append((lp_, toN(o0), 1))
        else:
            u = sym.sym("u@%s" % c_["line"])
            off = toN(o0)
            terms.append(({"var": u, "lo": off, "cmp": "<", "hi": sym.add(off, I(1)), "step": I(1), "l": c_["line"]}, u, 1))
    if not mc:
        # nothing of the expected kind -- but the function may update the result some other way (its own transform pipeline, helpers):
        # that is a shape this rule does not model, not a violation
        ps_all, _ = summ.pieces(v, g, hooks=NOINLINE)
        touches = [p_ for p_ in ps_all if (p_["kind"] == "call" and any(isinstance(a_, tuple) and sym.root_of(a_) == sym.sym(r) for a_ in p_["args"] if a_ is not None))
                   or (p_["kind"] == "store" and sym.root_of(p_["lv"]) == sym.sym(r) and not (p_["lv"][0] == "fld" and p_["lv"][2] == "current_variance"))]
        if touches:
            raise AnalysisBroken("%s: the result is updated by %s at line %s, not by the multiply-accumulate primitive" % (
                g.name, touches[0].get("name", "a store"), touches[0]["line"]))
        bad1.append("no component is accumulated")
    det1 = ""
    if not bad1:
        st1, det1 = coverage.cover_1d(terms, NC, nmin=2)
        if st1 == "unknown":
            raise AnalysisBroken("%s: %s" % (g.name, det1))
        if st1 == "refuted":
            bad1.append("with n = k+1 components (k >= 1): %s" % det1)
    chk.require(not bad1, "R1", what, where=g.where, ok="(result->a+i, p, sample->a+i): %s (n = k+1)" % det1, bad="; ".join(bad1), variant=variant)


def _show_pair(pr):
    val, row = pr

    def sv(x):
        if x[0] == "fft":
            return "FFT(%s)" % sv(x[1])
        if x[0] == "digit":
            return "digit %d of %s" % (x[1], sv(x[2]))
        if x[0] == "init":
            r, pth = x[1]
            return "%s%s" % (sym.show(r), "".join("[%s]" % q if isinstance(q, int) else ".%s" % q for q in pth[1:]))
        if x[0] == "part":
            return "a part of %s" % sv(x[2])
        return str(x)[:60]
    return "%s x row %s" % (sv(val), row[1][-1] if row[1] else "?")


def check_external_product(chk, v, fname, fft):
    """The external product as a term: the function's effect tree is interpreted (sa/concrete.py) for k, l in 1..3 with abstract
    data.  Each primitive it calls has its documented meaning on abstract values -- digit j of a polynomial, the transform of
    a polynomial, an accumulator as the multiset of (factor, row) products added since it was cleared, the conversion back --
    and the value that ends up in the accumulator must be the sum over all components i <= k and digits j < l of
    digit_j(accum.a[i]) x row[i*l + j] of the accumulator's ORIGINAL polynomials.  Independent of the order of the calls, of
    how the scratch buffers are sized and indexed and of whether blocks are processed one at a time."""
    from sa import concrete
    from sa.pipeline import AnalysisBroken
    vn = v.name
    f = v.fn(fname)
    ps, eff = summ.pieces(v, f, hooks=NOINLINE)
    acc, gsw, par = [p["n"] for p in f.params]
    K, L, KPL = sym.arrow(P(par, "tlwe_params"), "k"), P(par, "l"), P(par, "kpl")
    ACC, GSW = sym.sym(acc), sym.sym(gsw)
    rows_field = "all_samples" if fft else "all_sample"
    key = "%s = sum over all kpl rows of %sdigit[p] * row%s[p], digit window i*l per component" % (fname, "FFT(" if fft else "", "FFT" if fft else "") \
        if fft else "%s = sum over all kpl rows of digit[p] * row[p], from a cleared accumulator" % fname
    if fft:
        key = "%s = sum over all kpl rows of FFT(digit[p]) * rowFFT[p], digit window i*l per component" % fname
    problems = []
    ngrid = 0
    for kv in (1, 2, 3):
        for lv in (1, 2, 3):
            if problems:
                break
            env = {K: kv, L: lv, KPL: (kv + 1) * lv}
            mem = concrete.Memory()
            extents = {}
            notes = []

            def loc(t, env):
                return concrete.location(t, env)

            def wr(lc, val, line):
                r, pth = lc
                if r in extents and pth and isinstance(pth[0], int) and not (0 <= pth[0] < extents[r]):
                    notes.append("with k=%d, l=%d: element %d of a scratch array of %d is written (line %s)" % (kv, lv, pth[0], extents[r], line))
                mem.write(lc, val)

            def handler(kind, x, env):
                if kind == "cond":
                    return None
                if kind == "store":
                    r = sym.root_of(x["lv"])
                    if r in (ACC, GSW) or r in extents:
                        raise AnalysisBroken("%s: direct store to %s at line %s" % (fname, sym.show(x["lv"])[:60], x["l"]))
                    return
                if kind != "call":
                    return
                name, a = x["name"], x["args"]
                if name.startswith("new_") and name.endswith("_array") and x.get("ret") is not None:
                    nv = concrete.eval_term(a[0], env)
                    if nv is None:
                        raise AnalysisBroken("%s: extent %s of %s" % (fname, sym.show(a[0]), name))
                    extents[x["ret"]] = nv
                    return
                if name.startswith(("new_", "delete_")):
                    return
                if name == "tGswTorus32PolynomialDecompH":
                    val = mem.read(loc(a[1], env))
                    for j in range(lv):
                        wr(mem.shift(loc(a[0], env), j), ("digit", j, val), x["l"])
                elif name == "tGswTLweDecompH":
                    # all k+1 polynomials into windows of l digits (the wrapper itself: C12.R6, re-evaluated as R6 here)
                    src = loc(a[1], env)
                    for i_ in range(kv + 1):
                        val = mem.read((src[0], src[1] + ("a", i_)))
                        for j in range(lv):
                            wr(mem.shift(loc(a[0], env), i_ * lv + j), ("digit", j, val), x["l"])
                elif name == "IntPolynomial_ifft":
                    wr(loc(a[0], env), ("fft", mem.read(loc(a[1], env))), x["l"])
                elif name in ("tLweFFTClear", "tLweClear"):
                    wr(loc(a[0], env), ("sum", ()), x["l"])
                elif name in ("tLweFFTAddMulRTo", "tLweAddMulRTo"):
                    cur = mem.read(loc(a[0], env))
                    if cur[0] != "sum":
                        notes.append("with k=%d, l=%d: a product is accumulated (line %s) onto an accumulator that was not cleared" % (kv, lv, x["l"]))
                        cur = ("sum", ())
                    wr(loc(a[0], env), ("sum", cur[1] + ((mem.read(loc(a[1], env)), loc(a[2], env)),)), x["l"])
                elif name == "tLweFromFFTConvert":
                    wr(loc(a[0], env), ("fromfft", mem.read(loc(a[1], env))), x["l"])
                else:
                    raise AnalysisBroken("%s: call to %s (line %s) has no abstract meaning here" % (fname, name, x["l"]))
            try:
                concrete.interpret(eff, env, handler)
            except concrete.NotEvaluable as e:
                raise AnalysisBroken("%s: %s" % (fname, e))
            ngrid += 1
            final = mem.read(loc(ACC, env))
            if fft:
                got = final[1][1] if final[0] == "fromfft" and final[1][0] == "sum" else None
            else:
                got = final[1] if final[0] == "sum" else None
            want = []
            for i in range(kv + 1):
                for j in range(lv):
                    d = ("digit", j, ("init", (ACC, (0, "a", i))))
                    want.append((("fft", d) if fft else d, (GSW, (0, rows_field, i * lv + j))))
            problems += notes
            if got is None:
                problems.append("with k=%d, l=%d: the accumulator does not end as %s" % (kv, lv, "the conversion of a cleared-and-accumulated "
                                "Lagrange sample" if fft else "a cleared-and-accumulated sum"))
            elif sorted(got, key=repr) != sorted(want, key=repr):
                missing = [w for w in want if w not in got]
                extra = [g_ for g_ in got if g_ not in want]
                dup = [g_ for g_ in set(got) if got.count(g_) > 1]
                what = []
                if missing:
                    what.append("missing %s" % _show_pair(missing[0]))
                if extra:
                    what.append("it contains %s" % _show_pair(extra[0]))
                if dup and not extra:
                    what.append("%s is added %d times" % (_show_pair(dup[0]), got.count(dup[0])))
                problems.append("with k=%d, l=%d: the sum has %d products, the external product has %d; %s" % (kv, lv, len(got), len(want), "; ".join(what)))
    chk.require(not problems, "R1", key, where=f.where,
                ok="accumulator = %ssum_{i<=k, j<l} %sdigit_j(accum.a[i])%s x row[i*l+j]%s of the original accumulator (interpreted for k, l in 1..3: %d layouts)" % (
                    "FromFFT(" if fft else "", "FFT(" if fft else "", ")" if fft else "", ")" if fft else "", ngrid),
                bad="; ".join(problems)[:700], variant=vn)


def run(chk):
    prog = Program()
    chk.explanation = (
        "Both external products, both CMux helpers and the FFT key conversion are summarised to call/loop pieces and "
        "checked for row/digit correspondence and full ranges; the six pointwise Lagrange kernels written in AVX/FMA "
        "assembly are evaluated lane-symbolically (polynomials over the real and imaginary lanes of their operands, "
        "pointer roles from the prologue) and compared with the complex product / accumulate that the C++ back-ends "
        "compute with std::complex.")
    chk.trusted = ["clang 14 front end", "summariser", "AT&T parser and FP lane evaluator (exact real algebra: products and signs, not rounding)"]
    for v in prog.variants():
        vn = v.name
        chk.analysed["variants"] = chk.analysed.get("variants", 0) + 1
        # ---------------- R6 the digits fed to both external products are balanced and recompose (C12's rules): the analytic
        # error bound of the product (sum over rows of digit^2 * row noise) assumes |digit| <= Bg/2
        from rules import c04, c12
        # (C12.R4, "the input is restored", concerns the caller's operand, not the product: C15's business)
        c12.check_variant(c04._Sub(chk, "R6", skip={"R4"}), v)
        # ---------------- R1 coefficient external product
        check_external_product(chk, v, "tGswExternMulToTLwe", False)
        g = v.fn("tLweAddMulRTo")
        gps, _ = summ.pieces(v, g, hooks=NOINLINE)
        r, pp, s, tp = [p["n"] for p in g.params]
        mc = [c for c in calls(gps) if "AddMulR" in c["name"]]
        check_component_coverage(chk, v, g, mc, "tLweAddMulRTo multiplies all k+1 components by the same polynomial", vn)
        # ---------------- R1 FFT external product
        check_external_product(chk, v, "tGswFFTExternMulToTLwe", True)
        g = v.fn("tLweFFTAddMulRTo")
        gps, _ = summ.pieces(v, g, hooks=NOINLINE)
        r, pp, s, tp = [p["n"] for p in g.params]
        mc = calls(gps, "LagrangeHalfCPolynomialAddMul")
        check_component_coverage(chk, v, g, mc, "tLweFFTAddMulRTo accumulates all k+1 components", vn)
        # rows of block p start at p*l in both representations: the block table is a pointer table with stride l over the row
        # array, and its k+1 entries are all filled (sa/tables.py: any loop structure, walking pointers, either direction)
        from sa import tables, concrete
        from sa.secretflow import eval_term as _ev
        ctorF = [c for c in v.defined() if c.get("record") == "TGswSampleFFT" and c.get("kind") == "ctor" and not c.get("implicit")][0]
        for fn_, obj_, A_, B_, what, label in (
                (v.fn("init_TGswSample"), sym.sym(v.fn("init_TGswSample").params[0]["n"]), "bloc_sample", "all_sample",
                 "TGSW block p is rows [p*l, (p+1)*l) (init_TGswSample)", "bloc_sample[p] = all_sample + p*l"),
                (ctorF, sym.sym("this"), "sample", "all_samples", "TGSW-FFT block p is rows [p*l, (p+1)*l) (constructor)", "sample[p] = all_samples + p*l")):
            nps, fvals, norm = tables.normalised(v, fn_, obj_)
            B, c, sts = tables.table(nps, obj_, A_)
            problems = []
            if B is None:
                problems.append(c)
            else:
                par_ = next((sym.sym(q["n"]) for q in fn_.params if "TGswParams" in q["t"]), None)
                Lt = norm(P(par_[1], "l")) if par_ is not None else None
                Kt = norm(sym.arrow(P(par_[1], "tlwe_params"), "k")) if par_ is not None else None
                cs = norm(c)
                if B != B_ or (cs != Lt and sym.show(cs).replace("this->", "") != "l"):
                    problems.append("%s[p] = %s + (%s)*p, expected %s + l*p" % (A_, B, sym.show(cs), B_))
                else:
                    dims = sorted({a_ for p_ in sts for l_ in p_["loops"] for t_ in (l_["lo"], l_["hi"]) for a_ in sym.atoms(t_)
                                   if a_[0] in ("fld", "sym") and a_ not in {l2["var"] for l2 in p_["loops"]}}, key=repr)
                    kdim = [d_ for d_ in dims if sym.show(d_).endswith("k")]
                    if len(kdim) != 1:
                        chk.broken("%s: block count not expressed through k (%s)" % (fn_.name, [sym.show(d_) for d_ in dims]))
                    for kv in (1, 2, 3):
                        env0 = {d_: 2 for d_ in dims}
                        env0[kdim[0]] = kv
                        try:
                            xs = tables.visited(sts, env0)
                        except concrete.NotEvaluable as e:
                            chk.broken("%s: %s" % (fn_.name, e))
                        if xs != list(range(kv + 1)):
                            problems.append("with k = %d the statements fill entries %s of %s, expected all k+1 = %d blocks once" % (kv, xs[:6], A_, kv + 1))
                            break
            chk.require(not problems, "R1", what, where=fn_.where, ok=label + " for every block p <= k", bad="; ".join(problems)[:400], variant=vn)
        ah = v.fn("tGswFFTAddH")
        aps, _ = summ.pieces(v, ah, hooks=NOINLINE)
        ac = calls(aps, "LagrangeHalfCPolynomialAddTorusConstant")
        ares, apar = [p["n"] for p in ah.params]
        problems = []
        # every constant addition is resolved to (row, component, gadget index) and the calls are enumerated over their loop nests
        # (any nesting order, cached row pointers, flat or blocked) for k, l in 1..3: exactly {(i*l + j, i, j)}, once each
        Lh, Kh = P(apar, "l"), sym.arrow(P(apar, "tlwe_params"), "k")

        def addh_terms(c_):
            base, comp = sym.ptr_split(c_["args"][0])
            hb, hidx = (c_["args"][1][1], c_["args"][1][2]) if c_["args"][1][0] == "idx" else (None, None)
            if hb != P(apar, "h") or not (base[0] == "fld" and base[2] == "a"):
                raise concrete.NotEvaluable("constant %s added to %s at line %s" % (sym.show(c_["args"][1])[:40], sym.show(c_["args"][0])[:60], c_["line"]))
            row = base[1]
            if row[0] == "idx" and row[1][0] == "idx" and row[1][1] == P(ares, "sample"):
                rt = sym.add(sym.mul(row[1][2], Lh), row[2])
            elif row[0] == "idx" and row[1] == P(ares, "all_samples"):
                rt = row[2]
            else:
                raise concrete.NotEvaluable("row %s at line %s is not reached through sample[i][j] or all_samples[r]" % (sym.show(row)[:60], c_["line"]))
            return (rt, comp, hidx)
        opq = [p_ for p_ in summ.opaque_writers(v, aps) if p_.get("name") != "LagrangeHalfCPolynomialAddTorusConstant"]
        if opq or not ac:
            chk.broken("tGswFFTAddH: %s" % ("memory may be written by " + summ.show_opaque(opq) if opq else "no constant addition found"))
        try:
            for kv, lv in itertools.product((1, 2, 3), (1, 2, 3)):
                seen = concrete.visited_tuples(ac, addh_terms, {Kh: kv, Lh: lv})
                wantset = sorted((i_ * lv + j_, i_, j_) for i_ in range(kv + 1) for j_ in range(lv))
                if sorted(seen) != wantset:
                    miss = [t_ for t_ in wantset if t_ not in seen]
                    extra = [t_ for t_ in seen if t_ not in wantset]
                    dup = [t_ for t_ in set(seen) if seen.count(t_) > 1]
                    problems.append("with k = %d, l = %d: %s" % (kv, lv, "; ".join(
                        (["h[%d] is never added on component %d of row %d" % (miss[0][2], miss[0][1], miss[0][0])] if miss else []) +
                        (["h[%d] is added on component %d of row %d" % (extra[0][2], extra[0][1], extra[0][0])] if extra else []) +
                        (["h[%d] is added %d times on component %d of row %d" % (dup[0][2], seen.count(dup[0]), dup[0][1], dup[0][0])] if dup and not (miss or extra) else []))))
                    break
        except concrete.NotEvaluable as ex_:
            chk.broken("tGswFFTAddH: %s" % ex_)
        chk.require(not problems, "R1", "tGswFFTAddH adds h[j] on component i of row (i, j) for all i <= k, j < l", where=ah.where,
                    ok="%d call site(s), enumerated for k, l in 1..3: sample[i][j].a[i] += h[j] for every (i, j), once" % len(ac), bad="; ".join(problems), variant=vn)
        # ---------------- R2 CMux
        for suffix, ext in (("", "tGswExternMulToTLwe"), ("_FFT", "tGswFFTExternMulToTLwe")):
            m = v.fn("tfhe_MuxRotate" + suffix)
            mps, _ = summ.pieces(v, m, hooks=NOINLINE)
            res, accum, bki, barai, par = [p["n"] for p in m.params]
            cs = calls(mps)
            tp = P(par, "tlwe_params")
            want = [("tLweMulByXaiMinusOne", [sym.sym(res), sym.sym(barai), sym.sym(accum), tp]),
                    (ext, [sym.sym(res), sym.sym(bki), sym.sym(par)]),
                    ("tLweAddTo", [sym.sym(res), sym.sym(accum), tp])]
            got = [(c["name"], c["args"]) for c in cs]
            chk.require(got == want, "R2", "tfhe_MuxRotate%s: result = accum + bk_i x ((X^a - 1) * accum)" % suffix, where=m.where,
                        ok="MulByXaiMinusOne(result, a, accum); ExternMul(result, bk_i); AddTo(result, accum)",
                        bad="calls: %s" % [(n, [sym.show(a) for a in ar]) for n, ar in got], variant=vn)
        from rules import c14 as _c14
        _c14.check_tlwe_monomial(c04._Sub(chk, "R2"), v)
        sub = c11_adapter(chk, "R2")
        c11.check_monomial(sub, v, "torusPolynomialMulByXaiMinusOne", "coefsT", True)
        # ---------------- R3 rotation loop (both variants)
        from rules import c04
        for suffix in ("", "_FFT"):
            c04.check_blind_rotate(chk, v, suffix, "R3")
        # ---------------- R4 FFT image of the key
        c04.check_fft_key(chk, v, rule="R4")       # every bk[i], i < n, converted; every key-switch cell copied to the same cell (enumerated)
        # every row / component is converted exactly once, source index = destination index: the calls' pointer arguments are
        # split into (array, offset) and the offsets enumerated over their loop nests for small dimensions
        from sa import concrete
        import itertools as _it
        for name, inner, hi_of, dstf, srcf in (("tGswToFFTConvert", "tLweToFFTConvert", "kpl", "all_samples", "all_sample"),
                                               ("tLweToFFTConvert", "TorusPolynomial_ifft", "k+1", "a", "a")):
            f2 = v.fn(name)
            p2, _ = summ.pieces(v, f2, hooks=NOINLINE)
            c2 = calls(p2, inner)
            rs, sr, par = [p_["n"] for p_ in f2.params[:3]]
            ok, why = bool(c2), "no call of %s" % inner
            for c_ in c2:
                (b0, _o0), (b1, _o1) = sym.ptr_split(c_["args"][0]), sym.ptr_split(c_["args"][1])
                for b_, want_b in ((b0, P(rs, dstf)), (b1, P(sr, srcf))):
                    if b_ != want_b and sym.root_of(b_) not in (sym.sym(rs), sym.sym(sr), sym.sym(par)):
                        chk.broken("%s: argument of %s at line %s is not resolved to the parameters: %s" % (name, inner, c_["line"], sym.show(b_)[:100]))
                if b0 != P(rs, dstf) or b1 != P(sr, srcf) or (hi_of == "kpl" and c_["args"][2] != P(par, "tlwe_params")):
                    ok, why = False, "call at line %s: %s" % (c_["line"], summ.show_piece(c_)[:120])
            if ok:
                if hi_of == "kpl":
                    Kt, Lt, KPLt = sym.arrow(P(par, "tlwe_params"), "k"), P(par, "l"), P(par, "kpl")
                    grid = [({Kt: k_, Lt: l_, KPLt: (k_ + 1) * l_}, (k_ + 1) * l_) for k_, l_ in _it.product((1, 2, 3), repeat=2)]
                else:
                    grid = [({P(par, "k"): k_}, k_ + 1) for k_ in (1, 2, 3, 4)]
                for env0, count in grid:
                    try:
                        seen = concrete.visited_tuples(c2, lambda c_: (sym.ptr_split(c_["args"][0])[1], sym.ptr_split(c_["args"][1])[1]), env0)
                    except concrete.NotEvaluable as e:
                        chk.broken("%s: %s" % (name, e))
                    dims = ", ".join("%s = %d" % (sym.show(t_).split("->")[-1], x_) for t_, x_ in env0.items())
                    if any(a_ != b_ for a_, b_ in seen):
                        ok, why = False, "with %s: source index differs from destination index in %s" % (dims, [x_ for x_ in seen if x_[0] != x_[1]][:3])
                    elif sorted(a_ for a_, _ in seen) != list(range(count)):
                        ok, why = False, "with %s the converted indices are %s, expected 0..%d once each" % (dims, sorted(a_ for a_, _ in seen)[:12], count - 1)
                    if not ok:
                        break
            chk.require(ok, "R4", "%s covers all %s %s" % (name, hi_of, "rows" if hi_of == "kpl" else "components"), where=f2.where,
                        ok="%s at equal source and destination index, every index once (enumerated)" % inner,
                        bad=[why] + [summ.show_piece(c)[:100] for c in c2], variant=vn)
        # ---------------- R5 kernels
        check_kernels(chk, v, prog)


def c11_adapter(chk, rule):
    from rules.c04 import _Sub
    return _Sub(chk, rule)
