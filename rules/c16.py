"""C16 — no out-of-bounds access, uninitialised read or leak for any valid configuration.

Decides (shape): R1 extent >= index for arrays allocated in the library, symbolic dimensions
unconstrained; R2 every bottom-tested vector loop has its first iteration justified; R3 in-function
acquire/release pairing on all paths; R4 constructor/destructor and init/destroy pairing; R5 thread-exit
release of per-thread processors; R6 collector ownership of parameter objects created by readers;
R7 objects and arrays created in a library function with uninitialised contents (the coefficient arrays behind new_LweSample,
new_TLweSample, new_TorusPolynomial, ..., plain new[]/malloc/stack arrays) are written before they are read on every path;
R11 the key generators write every row of the row arrays that the init_ functions create uninitialised (row index sets
enumerated from the loop descriptors); R8 no address of thread storage escapes into longer-lived objects; R9 the arrays of an object created in a function
(extent from its constructor arguments) cover what every callee indexes through it (field requirements of the callee);
R10 memcpy/memmove/memset ranges over arrays held in object fields stay inside the extent the owning object determines
(zero instances on the unchanged tree: the library has no such call; exercised by the seeded change C14b and a benign rewrite).
Not decided: index arithmetic inside the FFT kernels, user-chosen lifecycles, libfftw3/libstdc++ internals; R7 is generous about
what counts as a write (any loop-indexed element store, any opaque external callee), i.e. it decides "some write comes first", not
that the write covers every element.
"""
import re

from sa import api, asm, bounds, pairing, sym
from sa.facts import Program, walk
from sa.symexec import Hooks, run_function, flat
from sa.sym import I, ZERO


def lib_functions(v):
    return [f for f in v.defined() if f.file.startswith("libtfhe/") or f.file.startswith("include/")]


def run(chk):
    prog = Program()
    chk.explanation = (
        "Memory-safety shape rules over every library function of all 10 variants: polynomial extent/index "
        "inequalities with unconstrained symbolic dimensions for every array allocated in a function (directly "
        "subscripted or passed to a callee with a derived requirement); path-sensitive acquire/release pairing on "
        "the effect tree; owning fields of constructors and init_ functions matched against destructors and "
        "destroy_ functions; per-thread processors' destructors release what their constructors acquire; "
        "addresses of thread_local objects never stored into heap objects; asm vector loops classified as "
        "top/bottom-tested with their trip-count precondition.")
    chk.trusted = ["clang 14 front end", "compile database", "symbolic executor", "AT&T asm parser"]
    chk.assume("dimensions are >= 1 and otherwise unconstrained (n > N, n < 8, k > 1 are inside the quantifier)")
    chk.assume("a recursive callee (Karatsuba_aux) contributes the requirement of one level of its body; its recursive "
               "call narrows the window and is not re-derived")
    chk.assume("R1 covers arrays allocated in a function and subscripted there or in callees; arrays owned by records and "
               "subscripted by unrelated functions rely on the caller passing the matching parameter object")
    chk.assume("R9: the parameter objects reached from one key or parameter set through in_out_params, tgsw_params/bk_params, "
               "tlwe_params/accum_params and extracted_lweparams/extract_params are the linked objects of ONE parameter set "
               "(the key constructors copy these pointers from each other; C04.R8 checks the FFT key against the coefficient key)")
    for v in prog.variants():
        vn = v.name
        chk.analysed["variants"] = chk.analysed.get("variants", 0) + 1
        fns = lib_functions(v)
        chk.analysed["functions"] = max(chk.analysed.get("functions", 0), len(fns))
        reqs = bounds.Requirements(v)
        rel = bounds.ctor_relations(v)
        fext = bounds.object_field_extents(v)
        earr = bounds.element_arrays(v)
        chk.set_count("R1.constructor_relations", len(rel))
        narr = 0
        npair = 0
        nsized = 0
        nmem = 0
        for f in fns:
            if f.get("implicit") or f.get("defaulted"):
                continue
            # ---------------- R1
            try:
                obs, n = bounds.check_function(v, f, reqs, rel)
            except RecursionError:
                chk.broken("expression too deep in %s" % f.q)
            narr += n
            for o in obs:
                chk.ob("R1", o["key"], o["status"], where=o["where"], detail=o["detail"], variant=vn, data=o.get("data"))
            # ---------------- R9
            nsized += check_sized_objects(chk, v, f, rel, reqs, fext)
            nmem += check_field_arrays(chk, v, f, rel, fext, earr)
            # ---------------- R3
            tr, eff = pairing.function_pairing(v, f)
            if tr.allocs:
                npair += len(tr.allocs)
                leaked = {}
                for obj, info, line in tr.leaks:
                    leaked.setdefault(info["what"], []).append(line)
                for obj, info in tr.allocs.items():
                    key = "%s: %s (line %s) is released or handed over on every path" % (f.name, info["what"], info["line"])
                    if info["what"] in leaked:
                        chk.refuted("R3", key, where="%s:%s" % (f.file, info["line"]),
                                    detail="still held at exit %s" % sorted(set(map(str, leaked[info["what"]])))[:3], variant=vn)
                    else:
                        chk.proved("R3", key, where="%s:%s" % (f.file, info["line"]), detail="all normal exits release or transfer it",
                                   variant=vn)
                for obj, info, line in tr.error_path_leaks:
                    chk.note("%s: %s is not released on the path that returns NULL at line %s (malformed input only)" % (
                        f.name, info["what"], line))
                for kind, line, text in tr.problems:
                    chk.refuted("R3", "%s: %s" % (f.name, text[:80]), where="%s:%s" % (f.file, line), detail="%s: %s" % (kind, text),
                                variant=vn)
        chk.set_count("R1.local_arrays", narr)
        check_initialised(chk, v, fns)
        check_lifecycle_init(chk, v, fns)
        check_generated_rows(chk, v)
        chk.set_count("R9.sized_object_uses", nsized)
        chk.set_count("R10.memcpy_ranges_over_field_arrays", nmem)
        chk.set_count("R3.allocations_in_functions", npair)
        # ---------------- R4 / R5 constructor-destructor
        ctors = [f for f in fns if f.get("kind") == "ctor" and not f.get("implicit") and not f.get("defaulted") and not f.get("deleted")]
        nown = 0
        for c in ctors:
            owned, p2f, ceff = pairing.owned_fields(v, c)
            if not owned:
                continue
            rec = c.record
            dtors = [f for f in fns if f.get("kind") == "dtor" and f.get("record") == rec and not f.get("implicit")]
            isproc = rec in [r["name"] for r in v.records.values() if re.search(r"[Pp]rocessor", r["name"])]
            rule = "R5" if isproc else "R4"
            rel = {}
            if dtors:
                rel, _ = pairing.releases_in(v, dtors[0], sym.sym("this"))
            for lv, info in owned.items():
                nown += 1
                fld = sym.show(lv)
                key = "%s::%s (%s) is released by the destructor" % (rec, fld.replace("this->", ""), info["what"][:50])
                where = "%s:%s" % (c.file, info["line"])
                r = rel.get(lv)
                if not dtors:
                    chk.refuted(rule, key, where=where, detail="record has no user destructor", variant=vn)
                elif not r:
                    chk.refuted(rule, key, where=where,
                                detail="~%s releases %s but not this field%s" % (
                                    rec, sorted(sym.show(k) for k in rel)[:4],
                                    " (one leak per thread exit)" if isproc else ""), variant=vn)
                else:
                    fam, arr, cnt, line = r[0]
                    ok = fam == info["family"] and arr == info["array"]
                    if ok and arr and cnt is not None and info.get("count_this") is not None and cnt != info["count_this"]:
                        chk.refuted(rule, key, where="%s:%s" % (dtors[0].file, line),
                                    detail="allocated with count %s, released with count %s" % (sym.show(info["count_this"]), sym.show(cnt)),
                                    variant=vn)
                    else:
                        chk.require(ok, rule, key, where="%s:%s" % (dtors[0].file, line), ok="released with the matching form",
                                    bad="allocated by %s, released as %s%s" % (info["what"], fam, "[]" if arr else ""), variant=vn)
        # fields a method other than the constructor fills with a fresh allocation (built on first use) are owned as well; and a release in
        # the destructor may depend on the released field only: `if (a) release(b)` leaks b in every object where a is not set
        for rec in sorted({f.get("record") for f in fns if f.get("kind") == "dtor" and not f.get("implicit")}):
            dtor = next(f for f in fns if f.get("kind") == "dtor" and f.get("record") == rec and not f.get("implicit"))
            methods = [f for f in fns if f.get("record") == rec and f.get("kind") not in ("ctor", "dtor") and not f.get("static")]
            lazy = pairing.lazily_owned_fields(v, methods)
            rel, _ = pairing.releases_in(v, dtor, sym.sym("this"))
            isproc = bool(re.search(r"[Pp]rocessor", rec or ""))
            rule = "R5" if isproc else "R4"
            for lv, info in sorted(lazy.items(), key=repr):
                key = "%s::%s (%s, built on first use in %s) is released by the destructor" % (rec, sym.show(lv).replace("this->", ""), info["what"][:40], info["method"])
                where = "%s:%s" % (dtor.file, dtor.line)
                if lv not in rel:
                    chk.refuted(rule, key, where=where, detail="~%s does not release this field" % rec, variant=vn)
                else:
                    chk.proved(rule, key, where=where, detail="released", variant=vn)
            for lv in sorted(rel, key=repr):
                for gs in pairing.RELEASE_GUARDS.get((dtor.usr, lv), []):
                    foreign = [g_ for g_ in gs if not sym.contains(g_, lv) and any(a_[0] == "fld" and sym.root_of(a_) == sym.sym("this") for a_ in sym.atoms(g_))]
                    if foreign:
                        chk.refuted(rule, "%s: the release of %s in the destructor depends on that field only" % (rec, sym.show(lv).replace("this->", "")),
                                    where="%s:%s" % (dtor.file, dtor.line),
                                    detail="%s is released only when %s: an object in which that condition fails while %s is set leaks it%s" % (
                                        sym.show(lv), sym.show(foreign[0])[:80], sym.show(lv), " (once per thread exit)" if isproc else ""), variant=vn)
        chk.set_count("R4.owning_fields", nown)
        # init_X / destroy_X pairs: allocations handed to the constructor and stored in fields
        inits = [f for f in fns if re.match(r"^init_[A-Za-z]+$", f.name)]
        ninit = 0
        for f in inits:
            eff, st, ex = run_function(v, f, hooks=Hooks())
            allocs = {}
            for x in flat(eff):
                if x["e"] == "call" and x.get("ret") is not None and x["ret"][0] == "obj" and pairing.alloc_kind(x["name"]):
                    fam, arr = pairing.alloc_kind(x["name"])
                    allocs[x["ret"]] = {"family": fam, "array": arr, "count": x["args"][0] if arr else None, "line": x["l"],
                                        "what": "%s(%s)" % (x["name"], ", ".join(sym.show(a) for a in x["args"] if a is not None)[:50])}
            if not allocs:
                continue
            ctor_call = next((x for x in flat(eff) if x["e"] == "call" and x.get("kind") == "construct" and
                              any(a in allocs for a in x["args"])), None)
            dname = "destroy_" + f.name[len("init_"):]
            d = v.fn(dname, required=False)
            if ctor_call is None or d is None or ctor_call.get("usr") not in v.defs:
                for obj, info in allocs.items():
                    chk.assumed("R4", "%s: %s has a matching release in %s" % (f.name, info["what"], dname), where=f.where,
                                detail="hand-over to a constructor not recognised", variant=vn)
                continue
            cfn = v.defs[ctor_call["usr"]]
            ceff, _, _ = run_function(v, cfn, hooks=Hooks())
            cparams = [p["n"] for p in cfn.params]
            rel, deff = pairing.releases_in(v, d, None)
            objname = d.params[0]["n"] if len(d.params) == 1 else d.params[-1]["n"]
            for ai, a in enumerate(ctor_call["args"]):
                if a not in allocs:
                    continue
                ninit += 1
                info = allocs[a]
                pname = cparams[ai]
                fieldlv = next((x["lv"] for x in flat(ceff) if x["e"] == "store" and x["val"] == sym.sym(pname)
                                and sym.root_of(x["lv"]) == sym.sym("this")), None)
                key = "%s: %s is released by %s" % (f.name, info["what"], dname)
                if fieldlv is None:
                    chk.assumed("R4", key, where=f.where, detail="constructor does not store the argument in a field", variant=vn)
                    continue
                want = sym.subst(fieldlv, {sym.sym("this"): sym.sym(objname)})
                r = rel.get(want)
                if not r:
                    chk.refuted("R4", key, where=d.where, detail="%s never releases %s" % (dname, sym.show(want)), variant=vn)
                else:
                    fam, arr, cnt, line = r[0]
                    chk.require(fam == info["family"] and arr == info["array"], "R4", key, where="%s:%s" % (d.file, line),
                                ok="released with the matching form", bad="allocated by %s, released as %s" % (info["what"], fam), variant=vn)
        chk.set_count("R4.init_destroy_handovers", ninit)
        # ---------------- R8 escape of thread storage
        tls = {s["q"] for s in v.statics.values() if s.get("tls")}
        nesc = 0
        for f in fns:
            body = [f.d.get("body"), f.d.get("inits")]
            if not any(n.get("k") == "ref" and n.get("rk") in ("tls", "global") and n.get("q") in tls for n in walk(body)):
                continue
            eff, st, ex = run_function(v, f, hooks=Hooks())
            for x in flat(eff):
                if x["e"] == "store" and isinstance(x.get("val"), tuple):
                    val = x["val"]
                    r = sym.root_of(val) if val[0] in ("addr", "fld", "idx") else None
                    if val[0] == "addr" and r is not None and r[0] == "glob" and r[1] in tls and x["lv"][0] != "var":
                        nesc += 1
                        rec = f.get("record") or f.name
                        chk.refuted("R8", "%s stores the address of thread_local '%s' into %s" % (rec, r[1], sym.show(x["lv"])),
                                    where="%s:%s" % (f.file, x["l"]),
                                    detail="the object outlives the creating thread (rows of the FFT bootstrapping key are created "
                                           "once and used from every thread): after that thread exits the pointer dangles",
                                    variant=vn)
                elif x["e"] == "return" and isinstance(x.get("val"), tuple) and x["val"][0] == "addr":
                    r = sym.root_of(x["val"])
                    if r is not None and r[0] == "glob" and r[1] in tls:
                        chk.refuted("R8", "%s returns the address of thread_local '%s'" % (f.name, r[1]), where="%s:%s" % (f.file, x["l"]),
                                    detail="pointer to per-thread storage handed to the caller", variant=vn)
        chk.set_count("R8.thread_local_objects", len(tls))
        # ---------------- R6 collector ownership
        readers = [f for f in fns if f.file.endswith("tfhe_io.cpp") and re.match(r"^read_new_", f.name)]
        for f in readers:
            tr, eff = pairing.function_pairing(v, f)
            # parameter objects read inside: results of read_new_*Param* calls
            for x in flat(eff):
                if x["e"] == "call" and re.match(r"^read_new_.*[Pp]aram", x["name"]) and x.get("ret") is not None:
                    obj = x["ret"]
                    owned = False
                    for y in flat(eff):
                        if y["e"] == "call" and y["name"].endswith("register_param") and obj in y["args"]:
                            owned = True
                        if y["e"] == "return" and (y.get("val") == obj):
                            owned = True
                    chk.require(owned, "R6", "%s: the parameter object from %s is registered with the collector or returned" % (f.name, x["name"]),
                                where="%s:%s" % (f.file, x["l"]), ok="ownership established", bad="neither registered nor returned: leaked",
                                variant=vn)
                    chk.count("R6.parameter_objects_in_readers")
        # ---------------- R2 vector loops
        check_vector_loops(chk, v, prog)


def _whole_vectors(length, stride):
    """the byte length is a multiple of the stride: every term carries a factor c*(x & -m) or a constant with c*m resp. c divisible"""
    for mono, c in sym.poly_items(length):
        m_ = 1
        for a in mono:
            if a[0] == "op" and a[1] == "&" and a[3][0] == "int" and a[3][1] < 0 and (-a[3][1]) & (-a[3][1] - 1) == 0:
                m_ *= -a[3][1]
            elif a[0] == "op" and a[1] == "&" and a[2][0] == "int" and a[2][1] < 0 and (-a[2][1]) & (-a[2][1] - 1) == 0:
                m_ *= -a[2][1]
        if (c * m_) % stride:
            return False
    return True


def check_vector_loops(chk, v, prog):
    """every bottom-tested loop in inline asm is justified by a dominating guard or by a ring-degree fact"""
    vn = v.name
    n = 0
    for f in lib_functions(v):
        asms = [x for x in walk(f.d.get("body")) if x.get("k") == "asm"]
        if not asms:
            continue
        eff, st, ex = run_function(v, f, hooks=Hooks())
        for x in flat(eff):
            if x["e"] != "asm":
                continue
            items = asm.inline_items(x["node"]["template"])
            asm.check_mnemonics(items, "%s:%s" % (f.file, x["l"]))
            regs, nout = asm.inline_operand_regs(x["node"])
            ins_terms = [t for _, t in x["ins"]]
            # strip-mined element-wise kernels: every block must touch exactly the lanes its guard admits
            by_reg = {regs[nout + k]: t for k, (c_, t) in enumerate(x["ins"])}
            if {"rdi", "rsi", "rdx"} <= set(by_reg):
                cl = asm.classify_stripmined(items, {"dst": "rdi", "src": "rsi", "n": "rdx"})
                if cl["facts"].get("main_width"):
                    widths = cl["facts"]["safety"]
                    chk.require(not widths, "R2", "%s: no block of the strip-mined kernel accesses more lanes than its guard admits" % f.name,
                                where="%s:%s" % (f.file, x["l"]), ok="main loop %d lanes, tails %s, store widths match" % (
                                    cl["facts"]["main_width"], cl["facts"].get("tails")),
                                bad="; ".join(widths) + " (past the end of the arrays when the remainder is exactly the guard value)", variant=vn)
            for lp in asm.loops_of(items):
                n += 1
                cl = asm.classify_loop(items, lp)
                key = "%s: asm loop '%s' at line %s runs only when its range is non-empty" % (f.name, lp["label"], x["l"])
                where = "%s:%s" % (f.file, x["l"])
                if not cl["bottom_tested"] or cl["guarded"]:
                    chk.proved("R2", key, where=where, detail="top-tested or guarded by a preceding count test", variant=vn)
                    continue
                # bottom-tested: the first iteration always runs; find the compared end pointer and its C definition
                bound = loop_bound_terms(items, lp, regs, nout, ins_terms)
                if bound is None:
                    chk.assumed("R2", key, where=where, detail="bottom-tested loop whose bound operand was not resolved", variant=vn)
                    continue
                start, end, stride = bound
                length = sym.sub(end, start)
                dims = set()
                for mono, _c in sym.poly_items(length):
                    for a in mono:
                        if a[0] in ("fld", "sym"):
                            dims.add(a)
                        else:
                            dims.update(b for b in sym.atoms(a) if b[0] == "sym" or (b[0] == "fld" and not any(
                                c != b and c[0] == "fld" and sym.contains(c, b) for c in sym.atoms(a))))
                dims = sorted(dims, key=repr)
                ring = dims and all(_is_ring_degree(a) for a in dims)
                # a C-level guard around the statement: `if (start < end) __asm__(...)` -- the first iteration has a non-empty range
                def _dominating(effs, conds):
                    for y in effs:
                        if y is x:
                            return conds
                        for br, neg in (("then", False), ("else", True)):
                            if y["e"] == "if":
                                r_ = _dominating(y[br], conds + [(y["cond"], neg)])
                                if r_ is not None:
                                    return r_
                        if y["e"] in ("loop", "while", "inlined"):
                            r_ = _dominating(y["body"], conds)
                            if r_ is not None:
                                return r_
                    return None
                cguard = None
                for c_, neg_ in (_dominating(eff, []) or []):
                    if neg_ or not (isinstance(c_, tuple) and c_[0] == "op" and c_[1] in ("<", ">")):
                        continue
                    lo_, hi_ = (c_[2], c_[3]) if c_[1] == "<" else (c_[3], c_[2])
                    d_ = sym.sub(hi_, lo_)
                    if any(sym.sub(sym.mul(I(k_), d_), length) == ZERO for k_ in (1, 2, 4, 8)):
                        cguard = c_
                    import os
                    if os.environ.get("VERIF_DEBUG"): print("CGUARD", c_, "D", d_, "LEN", length)
                es_ = None
                for a_ in sym.subterms(end):
                    if a_[0] == "fld":
                        for r_ in v.records.values():
                            for fd_ in r_["fields"]:
                                if fd_["n"] == a_[2] and fd_["t"].replace("const ", "").strip() in ("int *", "unsigned int *", "float *"):
                                    es_ = 4
                                elif fd_["n"] == a_[2] and fd_["t"].replace("const ", "").strip() in ("double *", "long *", "unsigned long *"):
                                    es_ = 8
                if cguard is not None and stride and es_ and _whole_vectors(sym.mul(I(es_), length), stride):
                    chk.proved("R2", key, where=where, detail="bottom-tested, inside `if (%s)`: the range is a non-empty whole number of %d-byte "
                               "vectors when the loop is entered" % (sym.show(cguard)[:80], stride), variant=vn)
                    continue
                if cguard is not None and not ring:
                    chk.broken("%s: asm loop at line %s is bottom-tested inside `if (%s)`; that the guarded range is a whole number of %s-byte "
                               "vectors was not established (element size %s): not decided" % (f.name, x["l"], sym.show(cguard)[:80], stride, es_))
                if ring:
                    chk.proved("R2", key, where=where,
                               detail="bottom-tested over %s bytes: a ring-degree quantity (N is a power of two >= the vector width, "
                                      "fixed by the processors, C19.R3)" % sym.show(length), variant=vn)
                else:
                    chk.refuted("R2", key, where=where,
                                detail="bottom-tested: the %d-byte body runs once even when the range %s is shorter than one vector "
                                       "(dimension %s has no lower bound; witness: 1)" % (
                                           stride or 32, sym.show(length), [sym.show(a) for a in dims][:2]), variant=vn,
                                data={"start": sym.show(start), "end": sym.show(end)})
    chk.set_count("R2.inline_asm_loops", n)


def _is_ring_degree(a):
    s = sym.show(a)
    return bool(re.search(r"(->|\.)(N|Ns2|_2N)$", s)) or s in ("N", "Ns2", "_2N", "this->N", "this->Ns2", "this->_2N")


def loop_bound_terms(items, lp, regs, nout, ins_terms):
    """(start pointer term, end pointer term, stride) of a pointer-walking asm loop from its cmp instruction"""
    cmpi = None
    for ins in lp["body"]:
        if ins.op in ("cmpq", "cmp"):
            cmpi = ins
    if cmpi is None or len(cmpi.args) != 2 or cmpi.args[0][0] != "reg" or cmpi.args[1][0] != "reg":
        return None
    endr, curr = cmpi.args[0][1], cmpi.args[1][1]
    strides = asm.pointer_strides(lp["body"])
    rev = {r: k for k, r in regs.items() if k >= nout}
    def term_of(reg):
        k = rev.get(reg)
        if k is not None:
            return ins_terms[k - nout]
        return None
    s, e = term_of(curr), term_of(endr)
    if s is None or e is None:
        # the end register may be computed inside the block (lea/and): resolve through the straight-line prefix
        init = {r: ins_terms[k - nout] for r, k in rev.items()}
        pre = items[:lp["head"]]
        vals = dict(init)
        for it in pre:
            if not isinstance(it, asm.Ins):
                continue
            if it.op == "movq" and it.args[0][0] == "reg" and it.args[1][0] == "reg" and it.args[0][1] in vals:
                vals[it.args[1][1]] = vals[it.args[0][1]]
            elif it.op == "andq" and it.args[0][0] == "imm" and it.args[1][0] == "reg" and it.args[1][1] in vals:
                vals[it.args[1][1]] = ("op", "&", vals[it.args[1][1]], sym.I(it.args[0][1] if isinstance(it.args[0][1], int) else 0))
            elif it.op == "leaq" and it.args[0][0] == "mem" and it.args[1][0] == "reg":
                m = it.args[0]
                b = vals.get(m[2])
                i = vals.get(m[3]) if m[3] else None
                if b is not None and (m[3] is None or i is not None):
                    t = b
                    if i is not None:
                        t = ("ptr+", b, sym.mul(i, sym.I(m[4])))
                    vals[it.args[1][1]] = t
        s = s or vals.get(curr)
        e = e or vals.get(endr)
        if s is None or e is None:
            return None
        if e[0] == "ptr+" and e[1] == s:
            return sym.ZERO, e[2], strides.get(curr)
        return None
    # pointer terms: end - start in bytes when end == start + k elements
    if e[0] == "addr" and e[1][0] == "idx" and e[1][1] == s:
        return sym.ZERO, e[1][2], strides.get(curr)
    if s[0] == "addr" and e[0] == "addr" and s[1][0] == "idx" and e[1][0] == "idx" and s[1][1] == e[1][1]:
        return s[1][2], e[1][2], strides.get(curr)
    return None


# ------------------------------------------------------------------------------ R9: sized objects are large enough for their users
ROLE_HOPS = {"in_out_params": "in", "extracted_lweparams": "ext", "extract_params": "ext", "extracted_params": "ext",
             "tlwe_params": "tlwe", "accum_params": "tlwe", "tgsw_params": "tgsw", "bk_params": "tgsw"}


def to_roles(t, rec_of=None):
    """Dimension atoms reached through the linked parameter objects of one key / parameter set are renamed by their role:
    ...->in_out_params->n -> n_in; ...->tlwe_params->N / accum_params->N -> N (k likewise); extracted_lweparams.n -> N*k
    (TLweParams constructor); ...->bk_params->l -> l.  -> (rewritten term, every dimension atom had a role)"""
    m = {}
    full = True
    for a in sym.atoms(t):
        if a[0] != "fld" or any(b != a and b[0] == "fld" and sym.contains(b, a) and b in sym.atoms(t) for b in []):
            continue
        # only leaf dimension fields
        if a[2] not in ("n", "N", "k", "l", "kpl"):
            continue
        path = sym.path_of(a)
        hops = [x[1:] for x in path[1:-1] if isinstance(x, str) and x.startswith(".")]
        root = path[0][1] if path[0][0] == "sym" else None
        owner = hops[-1] if hops else root
        role = ROLE_HOPS.get(owner)
        if role is None and not hops and root in ("$TLweParams", "$TGswParams"):
            role = {"$TLweParams": "tlwe", "$TGswParams": "tgsw"}[root]       # the parameter object an owning object was constructed with
        if role is None and rec_of is not None:
            # the hop has a neutral name (e.g. `params`): use the type of the parameter object when it is unambiguous
            role = {"TLweParams": "tlwe", "TGswParams": "tgsw"}.get(rec_of(a[1]))
        if role == "in" and a[2] == "n":
            m[a] = sym.sym("n_in")
        elif role == "ext" and a[2] == "n":
            m[a] = sym.mul(sym.sym("N"), sym.sym("k"))
        elif role == "tlwe" and a[2] in ("N", "k"):
            m[a] = sym.sym(a[2])
        elif role == "tgsw" and a[2] == "l":
            m[a] = sym.sym("l")
        elif role == "tgsw" and a[2] == "kpl":
            m[a] = sym.mul(sym.add(sym.sym("k"), I(1)), sym.sym("l"))
    t2 = sym.rewrite(t, m) if m else t
    for a in sym.atoms(t2):
        if a[0] == "fld" or (a[0] == "sym" and a[1] not in ("n_in", "N", "k", "l")):
            full = False
    return t2, full

def check_sized_objects(chk, v, f, rel, reqs, fext):
    """An object created in this function by new_<T>(args) owns arrays whose extents the constructor derives from those
    arguments (LweSample::a has params->n elements).  A callee that receives the object indexes those arrays up to a bound
    expressed in ITS parameters (its field requirement, e.g. lweAddTo: result->a up to params->n).  With the actual
    arguments substituted, extent - requirement >= 0 must hold as a polynomial inequality over unconstrained dimensions."""
    import re as _re
    eff, st, ex = run_function(v, f, hooks=Hooks())
    created = {}
    n = 0
    roots = {sym.sym(p["n"]): p["t"] for p in f.params}
    R = lambda t: bounds.apply_relations(v, t, roots, rel) if rel else t
    for x in flat(eff):
        if x["e"] != "call" or x.get("usr") not in v.defs:
            continue
        g = v.defs[x["usr"]]
        m = _re.match(r"^new_(\w+?)$", x["name"])
        if m and not x["name"].endswith("_array") and x.get("ret") is not None and x["ret"][0] == "obj":
            rec = m.group(1)
            ext = {fl: e for (r_, fl), e in fext.items() if r_ == rec}
            if ext and all(len(cp) == len(x["args"]) for _, cp in ext.values()):
                created[x["ret"]] = (rec, ext, list(x["args"]), x["l"], x["name"])
            continue
        sub = reqs.of(x["usr"])
        cnames = [p["n"] for p in g.params]
        amap = {sym.sym(nm): (x["args"][i] if i < len(x["args"]) and x["args"][i] is not None else ("unk", "arg")) for i, nm in enumerate(cnames)}
        for i, a in enumerate(x["args"]):
            if a is None or a not in created:
                continue
            rec, ext, cargs, cline, cname = created[a]
            for key_, lst in sub.items():
                if not (isinstance(key_, tuple) and key_[0] == i and key_[1] in ext):
                    continue
                e_term, cparams = ext[key_[1]]
                extent = R(sym.subst(e_term, {sym.sym(nm): (cargs[k] if cargs[k] is not None else ("unk", "arg")) for k, nm in enumerate(cparams)}))
                worst = None
                ext_r, ext_full = to_roles(extent)
                for need, where2, detail in lst:
                    need2 = R(sym.subst(need, amap))
                    if bounds._has_unk(need2) or bounds._has_unk(extent):
                        continue
                    need_r, need_full = to_roles(need2)
                    s_, d_ = bounds.decide_nonneg(sym.sub(ext_r, need_r))
                    if s_ == "refuted" and not (ext_full and need_full):
                        s_ = "unknown"          # a dimension that is not a parameter-set dimension (e.g. a polynomial's own N)
                    if s_ != "proved" and (worst is None or s_ == "refuted"):
                        worst = (s_, need2, where2, detail, d_)
                n += 1
                key = "%s: %s::%s of the object created at line %s is large enough for %s" % (f.name, rec, key_[1], cline, x["name"])
                where = "%s:%s" % (f.file, x["l"])
                if worst is None:
                    chk.proved("R9", key, where=where, detail="extent %s covers every index %s uses" % (sym.show(extent)[:60], x["name"]), variant=v.name)
                else:
                    s_, need2, where2, detail, d_ = worst
                    chk.ob("R9", key, "refuted" if s_ == "refuted" else "assumed", where=where,
                           detail="%s(%s) gives %s %s elements; %s accesses %s (%s), i.e. up to %s with the arguments of this call: %s" % (
                               cname, ", ".join(sym.show(c)[:40] for c in cargs if c is not None), key_[1], sym.show(extent)[:60], x["name"], detail[:60], where2,
                               sym.show(need2)[:60], d_[:120]), variant=v.name,
                           data={"extent": sym.show(extent), "needed": sym.show(need2)})
    return n


# ------------------------------------------------------------------------------ R10: arrays owned by objects
MEMFUNCS = {"memcpy": (0, 1), "std::memcpy": (0, 1), "memmove": (0, 1), "std::memmove": (0, 1), "memset": (0,), "std::memset": (0,)}


def check_field_arrays(chk, v, f, rel, fext, earr):
    """Subscripts of, and memcpy/memset ranges over, arrays held in fields of objects whose extent the object itself
    determines (LweKey::key has params->n elements, each IntPolynomial of a TLweKey has params->N coefficients, ...):
    index range / byte count vs that extent, dimensions renamed by their role; assertions of the function are facts."""
    from sa.symexec import pointee_size
    from sa.ioseq import type_of
    eff, st, ex = run_function(v, f, hooks=Hooks())
    roots = {sym.sym(p["n"]): p["t"] for p in f.params}
    if f.get("record"):
        roots[sym.sym("this")] = f.record + " *"
    R = lambda t: bounds.apply_relations(v, t, roots, rel) if rel else t
    n = 0
    strip_ = lambda t: strip_(t[2]) if t and t[0] == "cast" else t

    from sa.ioseq import _record_in_type
    rec_of = lambda o: _record_in_type(v, type_of(v, o, roots))

    def decide(extent, need, guards, loops, what, where):
        ext_r, e_full = to_roles(R(extent), rec_of)
        need_r, n_full = to_roles(R(need), rec_of)
        s_, d_ = bounds.decide_nonneg(sym.sub(ext_r, need_r))
        if s_ != "proved":
            from sa import affine
            facts = affine.guard_constraints([to_roles(R(g))[0] for g in guards]) + affine.loop_constraints(loops)
            if affine.prove_nonneg(sym.sub(ext_r, need_r), facts):
                s_, d_ = "proved", "under the enclosing conditions"
        if s_ == "refuted" and not (e_full and n_full):
            s_ = "unknown"
        exact = all(sym.const_value(l_.get("step")) in (1, -1) and l_.get("cmp") in ("<", "<=", ">", ">=") for l_ in loops)
        if s_ != "proved" and exact:
            # (the highest index is attained only when every enclosing loop moves in unit steps; with a stride the range used here
            # is an over-approximation and proves nothing about a violation)
            # a witness: small values of the parameter-set dimensions for which the extent is exceeded whatever the other
            # quantities are (scalar parameters the function itself uses as a bare subscript are >= 0 in every valid call)
            import itertools as _it2
            from sa import affine
            diff = sym.sub(ext_r, need_r)
            role = [d_0 for d_0 in (sym.sym("N"), sym.sym("k"), sym.sym("l"), sym.sym("n_in")) if sym.contains(diff, d_0)]
            facts = affine.guard_constraints([to_roles(R(g), rec_of)[0] for g in guards]) + list(nonneg_params)
            for vals in _it2.product((1, 2, 3), repeat=len(role)):
                sub_ = dict(zip(role, (I(x_) for x_ in vals)))
                d2 = sym.subst(diff, sub_)
                f2 = [sym.subst(c_, sub_) for c_ in facts]
                if affine.prove_nonneg(sym.sub(sym.neg(d2), I(1)), f2):
                    return "refuted", "with %s: extent - (highest index + 1) = %s < 0 for every admissible value of the remaining quantities" % (
                        ", ".join("%s = %d" % (sym.show(r_), x_) for r_, x_ in zip(role, vals)) or "no dimensions", sym.show(d2)[:60])
        return s_, d_
    # scalar parameters used as a bare subscript somewhere in the function (x[index]): non-negative in every valid call
    nonneg_params = []
    psyms = {sym.sym(p_["n"]) for p_ in f.params if not p_["t"].rstrip().endswith("*")}
    for x, _lo, _gu in bounds.walk_eff(eff):
        for t in ([x.get("lv"), x.get("val")] if x["e"] == "store" else [x.get("val")] if x["e"] in ("return", "local") else []):
            if isinstance(t, tuple):
                for st_ in sym.subterms(t):
                    if st_[0] == "idx" and st_[2] in psyms and st_[2] not in nonneg_params:
                        nonneg_params.append(st_[2])
    # memcpy family
    for x, loops, guards in bounds.walk_eff(eff):
        if x["e"] != "call" or x["name"] not in MEMFUNCS:
            continue
        nbytes = strip_(x["args"][-1])
        for ai in MEMFUNCS[x["name"]]:
            a = strip_(x["args"][ai]) if x["args"][ai] is not None else None
            base, off = bounds.split_base_offset(a)
            if base is None or base[0] != "fld":
                continue
            extent = bounds.field_array_extent(v, base, roots, fext, earr)
            if extent is None:
                continue
            ty = type_of(v, base, roots) or ""
            es = pointee_size(ty) or 4
            cnt = sym.binop("/", nbytes, I(es)) if sym.const_value(nbytes) is None else I(-(-sym.const_value(nbytes) // es))
            rng = bounds.index_range(sym.add(off, cnt), loops)
            if rng is None:
                continue
            n += 1
            s_, d_ = decide(extent, rng[1], guards, loops, x["name"], x["l"])
            key = "%s: %s over %s stays inside the array (%s elements)" % (f.name, x["name"], sym.show(base)[:50], sym.show(R(extent))[:40])
            chk.ob("R10", key, {"proved": "proved", "refuted": "refuted"}.get(s_, "assumed"), where="%s:%s" % (f.file, x["l"]),
                   detail="%s bytes = %s elements from offset %s: %s" % (sym.show(nbytes)[:60], sym.show(cnt)[:60], sym.show(off)[:30], d_[:160]), variant=v.name)
    # subscripts: O.G[e] with G an array whose extent O determines
    seen = {}
    for x, loops, guards in bounds.walk_eff(eff):
        terms = []
        if x["e"] == "store":
            terms = [x["lv"], x.get("val")]
        elif x["e"] == "call":
            terms = list(x.get("args") or [])
        elif x["e"] == "if":
            terms = [x["cond"]]
        elif x["e"] == "return":
            terms = [x.get("val")]
        elif x["e"] == "local":
            terms = [x.get("val")]
        for t in terms:
            if not isinstance(t, tuple):
                continue
            addressed = {a_[1] for a_ in sym.subterms(t) if a_[0] == "addr"}       # &A[e] computes an address, it does not access A[e]
            for st_ in sym.subterms(t):
                if st_[0] != "idx" or st_[1][0] != "fld" or sym.const_value(st_[2]) == 0 or st_ in addressed:
                    continue
                base, e = st_[1], st_[2]
                if (base, e) in seen or bounds._has_unk(e):
                    continue
                extent = bounds.field_array_extent(v, base, roots, fext, earr)
                if extent is None or bounds._has_unk(extent):
                    continue
                rng = bounds.index_range(e, loops)
                if rng is None:
                    continue
                seen[(base, e)] = True
                s_, d_ = decide(extent, sym.add(rng[1], I(1)), guards, loops, "subscript", x.get("l"))
                if s_ == "proved":
                    s0, d0 = decide(rng[0], I(0), guards, loops, "subscript", x.get("l"))
                    if s0 == "refuted":
                        s_, d_ = s0, "the index can be negative: " + d0
                n += 1
                key = "%s: %s[%s] stays inside the array (%s elements)" % (f.name, sym.show(base)[:50], re.sub(r"\bu\d+@", "u@", sym.show(e))[:40], sym.show(R(extent))[:40])
                chk.ob("R10", key, {"proved": "proved", "refuted": "refuted"}.get(s_, "assumed"), where="%s:%s" % (f.file, x.get("l")),
                       detail="index up to %s: %s" % (sym.show(rng[1])[:60], d_[:160]), variant=v.name)
    # bottom-tested loops: the first iteration runs whatever the bound says (`do *dst++ = *src; while (++src < end);` with src == end)
    def has_do(fn_, depth=0):
        from sa.facts import walk as _walk
        for nd in _walk(fn_.d.get("body")):
            if nd.get("k") == "do":
                return True
            if depth < 2 and nd.get("k") == "call" and nd.get("cusr") in v.defs:
                g_ = v.defs[nd["cusr"]]
                if g_.get("static") and not g_.get("record") and has_do(g_, depth + 1):
                    return True
        return False
    if has_do(f):
        n += first_iteration_subscripts(chk, v, f, roots, fext, earr, R, rec_of)
    return n


def first_iteration_subscripts(chk, v, f, roots, fext, earr, R, rec_of):
    """Statements inside a bottom-tested counted loop (and in no other loop): the subscripts of object-owned arrays at the loop's
    FIRST iteration, which executes even when the range is empty.  Decided by a search for a concrete witness: small values of the
    dimensions (1..3) and of the function's integer parameters (0..7) that satisfy the function's assertions and the statement's
    path conditions and put the subscript outside [0, extent).  No witness on the grid -> proved on the grid (stated)."""
    import itertools as _it
    from sa import concrete, summ
    ps, _ = summ.pieces(v, f, hooks=summ.LOCAL_HELPERS)
    # the function's contract: its assertions -- compiled out of the optim build, read from the debug variant of the same function
    contract = []
    try:
        dv_ = v.prog.variant("debug", v.backend)
        fd_ = dv_.fn(f.name, required=False)
        if fd_ is not None:
            for q_ in summ.pieces(dv_, fd_, hooks=summ.LOCAL_HELPERS)[0]:
                for c_ in q_.get("pre") or []:
                    if c_ not in contract:
                        contract.append(c_)
    except Exception:
        contract = []
    n = 0
    seen = set()
    iparams = [sym.sym(p_["n"]) for p_ in f.params if p_["t"].replace("const ", "").strip() in ("int", "int32_t", "long", "unsigned int")]
    for p in ps:
        if p["kind"] not in ("store", "local") or len(p["loops"]) != 1 or not p["loops"][0].get("at_least_once") or "var" not in p["loops"][0]:
            continue
        lp = p["loops"][0]
        for t in (p.get("lv"), p.get("val")):
            if not isinstance(t, tuple):
                continue
            addressed = {a_[1] for a_ in sym.subterms(t) if a_[0] == "addr"}
            for st_ in sym.subterms(t):
                if st_[0] != "idx" or st_[1][0] != "fld" or st_ in addressed:
                    continue
                base, e = st_[1], st_[2]
                if not sym.contains(e, lp["var"]) or (base, e) in seen or bounds._has_unk(e):
                    continue
                extent = bounds.field_array_extent(v, base, roots, fext, earr)
                if extent is None or bounds._has_unk(extent):
                    continue
                seen.add((base, e))
                def conv(x_):
                    y_ = to_roles(R(x_), rec_of)[0]
                    # (every polynomial of one call has the ring degree of the parameter set: their own N fields are the role N)
                    return sym.rewrite(y_, {a_: sym.sym("N") for a_ in sym.atoms(y_) if a_[0] == "fld" and a_[2] == "N"})
                e0 = conv(sym.subst(e, {lp["var"]: lp["lo"]}))
                ext = conv(extent)
                conds = [conv(g_) for g_ in p["guards"]] + [conv(c_) for c_ in (p.get("pre") or [])] + [conv(c_) for c_ in contract]
                atoms = []
                for t2 in [e0, ext] + conds:
                    for a_ in sym.atoms(t2):
                        if a_ not in atoms and (a_[0] == "fld" or a_ in iparams or (a_[0] == "sym" and a_[1] in ("N", "k", "l", "n_in"))):
                            atoms.append(a_)
                dims = [a_ for a_ in atoms if a_ not in iparams]
                pars = [a_ for a_ in atoms if a_ in iparams]
                if len(dims) > 3 or len(pars) > 2:
                    continue
                wit = None
                undecided = False
                for dv in _it.product((1, 2, 3), repeat=len(dims)):
                    for pv in _it.product(range(0, 8), repeat=len(pars)):
                        env = dict(zip(dims, dv))
                        env.update(zip(pars, pv))
                        cv = [concrete.eval_term(c_, env) for c_ in conds]
                        if any(x_ is None for x_ in cv):
                            undecided = True
                            continue
                        if not all(cv):
                            continue
                        iv, xv = concrete.eval_term(e0, env), concrete.eval_term(ext, env)
                        if iv is None or xv is None:
                            undecided = True
                            continue
                        if not 0 <= iv < xv:
                            wit = "with %s: the first iteration of the bottom-tested loop at line %s runs although its range is empty or not, and accesses element %d of %d" % (
                                ", ".join("%s = %d" % (sym.show(a_), env[a_]) for a_ in dims + pars), lp.get("l"), iv, xv)
                            break
                    if wit:
                        break
                n += 1
                key = "%s: %s[%s] at the first iteration of the bottom-tested loop stays inside the array" % (f.name, sym.show(base)[:50], re.sub(r"\b\w+#@", "p@", sym.show(e))[:40])
                status = "refuted" if wit else ("assumed" if undecided else "proved")
                chk.ob("R10", key, status, where="%s:%s" % (f.file, p.get("line")),
                       detail=wit or "no admissible values of the dimensions (1..3) and integer parameters (0..7) put the first-iteration subscript outside the array",
                       variant=v.name)
    return n


# ------------------------------------------------------------------------------ R7: written before read
def check_lifecycle_init(chk, v, fns):
    """R7 (lifecycle helpers): a function named init_X / clone_X / copy_X that builds an X in storage it is given WITHOUT running X's
    constructor there (field-by-field, or with a block copy of part of another X) must give every field of X a value: the fields
    assigned one by one and those inside the bytes a memcpy of constant length covers are collected; a field outside both keeps
    whatever the storage held."""
    from sa.symexec import flat
    import re as _re
    n = 0
    for f in fns:
        m_ = _re.match(r"^(init|clone|copy)_(\w+?)(_array)?$", f.name or "")
        if not m_ or m_.group(3) or m_.group(2) not in v.records or not f.params:
            continue
        rec = v.records[m_.group(2)]
        if m_.group(2) not in (f.params[0]["t"] or ""):
            continue
        obj = sym.sym(f.params[0]["n"])
        eff, st, ex = run_function(v, f, hooks=Hooks())
        covered_to = 0
        fields = set()
        constructed = False
        for x in flat(eff):
            if x["e"] == "call" and (x.get("kind") == "construct" or x["name"].endswith("::" + m_.group(2))):
                this = x.get("this")
                if this is not None and sym.root_of(this) == obj:
                    constructed = True
            if x["e"] == "call" and x["name"] in ("memcpy", "std::memcpy", "memmove", "std::memmove") and len(x.get("args") or []) == 3:
                d_ = x["args"][0]
                while isinstance(d_, tuple) and d_[0] == "cast":
                    d_ = d_[2]
                nb = sym.const_value(x["args"][2]) if isinstance(x["args"][2], tuple) else None
                if d_ == obj and nb is not None:
                    covered_to = max(covered_to, nb)
                elif d_ == obj:
                    constructed = True          # a length that is not a constant: not decided here
            if x["e"] == "store":
                lv = x["lv"]
                while isinstance(lv, tuple) and lv[0] in ("idx", "fld"):
                    if lv[0] == "fld" and lv[1] in (sym.idx(obj, ZERO), obj):
                        fields.add(lv[2])
                        break
                    lv = lv[1]
        if constructed or (not covered_to and not fields):
            continue
        missing = [fd_ for fd_ in rec.get("fields", []) if fd_["n"] not in fields and not (fd_["offset"] + fd_["size"] <= covered_to)]
        n += 1
        key = "%s gives every field of the %s it builds a value" % (f.name, m_.group(2))
        chk.ob("R7", key, "refuted" if missing else "proved", where=f.where, variant=v.name,
               detail=("field%s %s (offset %d) %s neither assigned nor inside the %d bytes copied from the source object: the new object keeps what the storage held there" % (
                   "s" if len(missing) > 1 else "", ", ".join(fd_["n"] for fd_ in missing), missing[0]["offset"], "are" if len(missing) > 1 else "is", covered_to))
               if missing else "%d field(s): %d assigned, bytes [0, %d) copied" % (len(rec.get("fields", [])), len(fields), covered_to))
    chk.vcount(v.name, "R7.lifecycle_helpers", n)


def check_initialised(chk, v, fns):
    """objects and arrays created in a library function with uninitialised contents are written before they are read
    (sa/initflow.py: first-access summaries of callees, assembly functions included)"""
    from sa import initflow
    vn = v.name
    F = initflow.InitFlow(v)
    nobj = 0
    for f in fns:
        if f.get("implicit") or f.get("defaulted"):
            continue
        objs, events = F.local_objects(f)
        if not objs:
            continue
        bad = {}
        for o, desc, oline, path, line, how in events:
            bad.setdefault((desc, oline), []).append((path, line, how))
        for o, rec, desc, oline, up in objs:
            nobj += 1
            key = "%s: %s created at line %s is written before it is read" % (f.name, desc, oline)
            ev = bad.get((desc, oline))
            where = "%s:%s" % (f.file, oline)
            if ev:
                path, line, how = ev[0]
                chk.refuted("R7", key, where="%s:%s" % (f.file, line),
                            detail="%s is read at line %s (%s) and nothing on that path has written it since it was created uninitialised at line %s" % (
                                ("its part " + ".".join(path)) if path else "the array", line, how, oline), variant=vn)
            else:
                chk.proved("R7", key, where=where, detail="uninitialised at birth: %s; first access on every path is a write" % (
                    sorted(".".join(p) or "elements" for p in up)), variant=vn)
    chk.vcount(vn, "R7.objects_created_uninitialised", nobj)


# ------------------------------------------------------------------------------ R11: key generators write every row they own
KEY_GENERATORS = {
    # generator: (index of the output key parameter, record, raw row array field)
    "lweCreateKeySwitchKey": (0, "LweKeySwitchKey", "ks0_raw"),
    "tfhe_createLweBootstrappingKey": (0, "LweBootstrappingKey", "bk"),
}


def check_generated_rows(chk, v):
    """The rows of a key are created uninitialised (new_LweSample_array / new_TGswSample_array leave the coefficient arrays
    unwritten) by the init_ function and filled by the generator.  Every row must be written by the generator, because
    conversion to the FFT key and export read all of them: the set of row indices the generator passes to functions that
    write the whole sample is enumerated from the loop descriptors on a grid of the dimensions and compared with
    [0, extent of the row array)."""
    import itertools
    from sa import initflow, secretflow, summ
    from sa.pipeline import AnalysisBroken
    vn = v.name
    IF = initflow.InitFlow(v)
    FL = secretflow.Flow(v, set())
    NO = summ.InlineLib(only=lambda fn: False)
    for gname, (pi, rec, field) in sorted(KEY_GENERATORS.items()):
        g = v.fn(gname, required=False)
        if g is None:
            chk.broken("key generator %s not found" % gname)
        ps, _ = summ.pieces(v, g, hooks=NO)
        roots = FL.roots_of(g, ps)
        R = lambda t: bounds.apply_relations(v, t, roots, FL.rel)
        out = sym.sym(g.params[pi]["n"])
        rowarr = None
        writers = []
        for p in ps:
            if p["kind"] != "call" or not p["args"] or p["args"][0] is None or sym.root_of(p["args"][0]) != out:
                continue
            callee = v.defs.get((p.get("eff") or {}).get("usr"))
            if callee is None:
                continue
            summ_ = IF.summary(callee.usr) or {}
            first = summ_.get(0, {})
            elem_rec = next((r_ for r_ in c17_records(v, callee.params[0]["t"])), None)
            up = IF.uninit_paths(elem_rec) if elem_rec else set()
            if not up or not all(first.get(q, first.get(IF.canon(elem_rec, q))) == "W" or
                                 any(first.get(q2) == "W" for q2 in first if IF.canon(elem_rec, q2) == IF.canon(elem_rec, q)) for q in up):
                continue            # does not write the whole sample
            slot = R(FL.resolve_tables(sym.idx(p["args"][0], sym.ZERO), roots))
            if not (slot[0] == "idx" and slot[1][0] == "fld"):
                # the key's row array may sit behind another pointer (bk->ks for the bootstrapping key): only direct rows here
                continue
            if slot[1][2] != field:
                continue
            rowarr = slot[1]
            writers.append((p, slot[2]))
        key = "%s writes every row of %s::%s" % (gname, rec, field)
        if not writers:
            chk.broken("%s: no row-writing call found" % gname)
        ext = FL.field_extent(rec, field)
        if ext is None:
            chk.broken("%s: extent of %s::%s not derivable" % (gname, rec, field))
        # the init_ function's own parameters (n, t, basebit) are what the constructor stores in the fields of the same name
        fnames = {fl["n"] for fl in v.records[rec]["fields"]}
        ext = sym.rewrite(ext, {a: sym.sym("%s.%s" % (rec, a[1])) for a in sym.atoms(ext) if a[0] == "sym" and a[1] in fnames})
        terms = [FL.canon_dims(R(ix), roots) for _, ix in writers]
        loops_all = [l for p, _ in writers for l in p["loops"]]
        loopvars = {l["var"] for l in loops_all}
        bound_terms = [FL.canon_dims(R(l[k]), roots) for l in loops_all for k in ("lo", "hi")] + terms + [ext]
        dims = sorted({a for t in bound_terms for a in sym.atoms(t) if a not in loopvars and a[0] == "sym"}, key=repr)
        if len(dims) > 4:
            chk.broken("%s: too many dimensions %s" % (gname, [sym.show(d) for d in dims]))
        wit = None
        npts = 0
        for vals in itertools.product((1, 2, 3), repeat=len(dims)):
            env0 = dict(zip(dims, vals))
            tot = secretflow.eval_term(ext, env0)
            if tot is None:
                chk.broken("%s: extent %s not evaluable" % (gname, sym.show(ext)))
            seen = set()
            for (p, _), ixc in zip(writers, terms):
                def go(k, env):
                    if k == len(p["loops"]):
                        for g_ in p["guards"]:
                            gv = secretflow.eval_term(FL.canon_dims(R(g_), roots), env)
                            if gv is None:
                                raise AnalysisBroken("%s: guard not evaluable" % gname)
                            if not gv:
                                return
                        x = secretflow.eval_term(ixc, env)
                        if x is None:
                            raise AnalysisBroken("%s: row index %s not evaluable" % (gname, sym.show(ixc)))
                        seen.add(x)
                        return
                    l = p["loops"][k]
                    lo = secretflow.eval_term(FL.canon_dims(R(l["lo"]), roots), env)
                    hi = secretflow.eval_term(FL.canon_dims(R(l["hi"]), roots), env)
                    st = sym.const_value(l["step"])
                    if lo is None or hi is None or not st or st <= 0 or l["cmp"] not in ("<", "<="):
                        raise AnalysisBroken("%s: loop at line %s not evaluable" % (gname, l.get("l")))
                    x = lo
                    while (x < hi) if l["cmp"] == "<" else (x <= hi):
                        e2 = dict(env)
                        e2[l["var"]] = x
                        go(k + 1, e2)
                        x += st
                go(0, env0)
            npts += 1
            missing = sorted(set(range(tot)) - seen)
            if missing and wit is None:
                wit = (env0, missing[0], tot, len(seen))
        chk.require(wit is None, "R11", key, where=g.where,
                    ok="%d row-writing call site(s); all %s rows written on %d grid points of %s" % (len(writers), sym.show(ext), npts, [sym.show(d) for d in dims]),
                    bad="" if wit is None else "with %s: row %d of the %d rows is never written by %s (%d are): it keeps the uninitialised coefficient array it got from "
                        "new_*_array, which init_LweBootstrappingKeyFFT copies and the export functions write out" % (
                            ", ".join("%s = %d" % (sym.show(d), x) for d, x in wit[0].items()), wit[1], wit[2], gname, wit[3]), variant=vn)
    chk.vcount(vn, "R11.key_generators", len(KEY_GENERATORS))


def c17_records(v, t):
    from rules.c17 import record_names_in_type
    return sorted(record_names_in_type(t, v.records))
