"""C18 — truncated or mistyped serialized input is never accepted silently.

Decides (shape): R1 every binary reader reads a tag first and a mismatch is fatal; R2 every text-section
reader checks the title fatally before using a property; R3 short reads: the FILE wrapper compares the
count fatally, the C++ wrapper delegates to istream::read and nothing reachable from the import API
clears stream state or swallows exceptions; R4 a producer that can return "no object" is tested before
use by every consumer; R5 every dimension read from the stream reaches a field or is fatally validated;
R6 property parsers throw on missing/malformed text; R7 the text-section parser returns a section only under an equality
test of the whole line with the END line built from the title of the BEGIN line; R8 every reader requests exactly the bytes
its writer produced (the writer/reader mirror of C05.R1, re-evaluated: a tail that is never requested can be truncated silently).
Not decided: the exhaustive statement over every byte offset (runtime enumeration).
"""
import re

from sa import api, ioseq, sym
from sa.facts import Program, walk, calls_in
from sa.symexec import Hooks, run_function, flat, paths
from sa.sym import ZERO


class PlainIO(ioseq.IOHooks):
    """property-object terms as in ioseq, but no inlining and no pruning of NULL tests"""

    def want_inline(self, ex, callee, node):
        # (file-local static helpers are part of the function that calls them: a shared "read the section and test its title")
        return bool(callee.get("static")) and not callee.get("record") and ex.depth < 6

    def decide(self, ex, cond):
        return Hooks.decide(self, ex, cond)


class LocalHelpers(Hooks):
    """inline file-local (static) helper functions: they are part of the function that calls them"""

    def want_inline(self, ex, callee, node):
        return bool(callee.get("static")) and not callee.get("record") and ex.depth < 6


def direct_stream_calls(fn, method):
    return [n for n in walk(fn.d.get("body")) if n.get("k") == "mcall" and n.get("method") == method
            and n.get("record") in ioseq.STREAM_RECORDS]


def ordered(effects):
    """effects in program order with the enclosing-if context flattened"""
    return list(flat(effects))


def _only_for_zero(conds, want):
    """can this path (conditions with their polarity) be taken only when the requested size is 0?  The conditions that compare
    the size with literals are evaluated at every non-zero breakpoint (c-1, c, c+1) and at the ends of the size_t range: the
    path must be infeasible at each of them; conditions on anything else are ignored (they can only restrict the path further)."""
    from sa.secretflow import eval_term
    cuts = set()
    for c, _pol, _l in conds:
        for st_ in sym.subterms(c):
            if isinstance(st_, tuple) and st_ and st_[0] == "op" and st_[1] in ("<", "<=", ">", ">=", "==", "!=") and want in (st_[2], st_[3]):
                o = st_[3] if st_[2] == want else st_[2]
                if o[0] == "int":
                    cuts.add(o[1])
    pts = sorted(x for x in ({c + d for c in cuts for d in (-1, 0, 1)} | {1, 2, 2 ** 31, 2 ** 63, 2 ** 64 - 1}) if x > 0)
    for x in pts:
        feasible = True
        for c, pol, _l in conds:
            val = eval_term(c, {want: x})
            if val is not None and bool(val) != bool(pol):
                feasible = False
                break
        if feasible:
            return False
    return True


def run(chk):
    prog = Program()
    chk.explanation = (
        "Reader-side rejection discipline decided on the effect trees of every function of the serialisation "
        "layer: tag and title comparisons exist, use the writer's constants, dominate every later read and end in "
        "a no-return call; the count returned by fread is compared; no reachable function clears stream state or "
        "catches exceptions; the only producer with a NULL return path is tested by each consumer before the "
        "first dereference; numeric property parsers are of the throwing kind.")
    chk.trusted = ["clang 14 front end", "cmake compile database", "symbolic executor (sa/symexec.py)"]
    for v in prog.variants():
        vn = v.name
        chk.analysed["variants"] = chk.analysed.get("variants", 0) + 1
        printer, parser = ioseq.find_primitives(v)
        check_section_end(chk, v, parser)
        # ---------------- R8 the reader asks for every byte the writer produced (C05.R1 re-evaluated): what a reader never requests
        # can be cut off without any read failing
        from rules import c05 as _c05
        _c05.check_mirror(chk, v, "R8")
        nr = v.noreturn
        # ---------------- R1 tags
        # readers: the functions with external linkage that read binary data, directly or through file-local (static)
        # helpers; a helper is part of each of its callers and is analysed inlined into them
        local = lambda g: bool(g.get("static")) and not g.get("record")
        reading = {f.usr for f in v.defined() if not f.get("record") and direct_stream_calls(f, "fread")}
        grew = True
        while grew:
            grew = False
            for f in v.defined():
                if f.usr in reading or f.get("record"):
                    continue
                if any(c.get("cusr") in reading and c.get("cusr") in v.defs and local(v.defs[c["cusr"]]) for c in calls_in(f.d.get("body"))):
                    reading.add(f.usr)
                    grew = True
        readers = [v.defs[u] for u in sorted(reading) if not local(v.defs[u])]
        chk.set_count("R1.binary_readers", len(readers))
        for f in readers:
            eff, st, ex = run_function(v, f, hooks=LocalHelpers())
            seq = ordered(eff)
            freads = [i for i, x in enumerate(seq) if x["e"] == "call" and x["name"].endswith("::fread")
                      and x["name"].split("::")[0] in ioseq.STREAM_RECORDS]
            key = "%s reads and fatally checks a type tag before any payload" % f.name
            if not freads:
                chk.broken("no fread effect in %s" % f.name)
            first = seq[freads[0]]
            cell = first["args"][0]
            cell = cell[1] if cell[0] == "addr" else cell
            nxt = freads[1] if len(freads) > 1 else len(seq)
            if cell[0] != "var":
                chk.refuted("R1", key, where="%s:%s" % (f.file, first["l"]),
                            detail="the first read fills %s, not a local tag variable" % sym.show(first["args"][0]),
                            variant=vn)
                continue
            ok, detail = False, "no comparison of the tag before the next read"
            for xi in range(freads[0] + 1, nxt):
                x = seq[xi]
                if x["e"] == "if" and sym.contains(x["cond"], cell):
                    c = x["cond"]
                    if c[0] == "op" and c[1] in ("!=", "==") and (c[2] == cell or c[3] == cell):
                        other = c[3] if c[2] == cell else c[2]
                        # the mismatch path ends the process: the `!=` branch exits, or the `==` branch returns and the code after the
                        # test runs into a no-return call (a tag-reading helper written `if (tag == expected) return; die(...)`)
                        fatal = ioseq.mismatch_is_fatal(seq, xi)
                        if other[0] == "fld":
                            from rules.c05 import const_member
                            cmv = const_member(v, other)
                            if cmv is not None:
                                other = ("int", cmv)          # a const data member with a constant in-class initialiser
                        if other[0] != "int":
                            if other[0] in ("idx", "var") or any(st_[0] in ("idx", "var") for st_ in sym.subterms(other)):
                                # the tag is looked up in a table / compared with a computed value: which tags end up accepted is a
                                # property of that search, which this rule does not evaluate
                                chk.broken("%s: the tag read at line %s is compared with %s (a table element or a computed value): the set of accepted tags is not decided" % (
                                    f.name, first["l"], sym.show(other)[:60]))
                            detail = "tag compared with %s, not a constant" % sym.show(other)
                        elif not fatal:
                            detail = "mismatch branch at line %s returns to the caller" % x["l"]
                        else:
                            ok, detail = True, "tag == %d enforced at line %s (mismatch ends in a no-return call)" % (other[1], x["l"])
                        break
            if not ok and detail.startswith("no comparison"):
                # the tag is not tested where it is read.  If its value is handed on -- returned to the caller, or combined into a
                # value that is tested later (tags of several rows or-ed together and tested once) -- the test is deferred, which the
                # property allows (the import still ends fatally) and this rule does not model: undecided.  A tag that is read and
                # then never used at all is a violation.
                used = any((x["e"] == "return" and isinstance(x.get("val"), tuple) and sym.contains(x["val"], cell)) or
                           (x["e"] in ("local", "store") and isinstance(x.get("val"), tuple) and sym.contains(x["val"], cell)) or
                           (x["e"] == "if" and sym.contains(x["cond"], cell))
                           for x in seq[freads[0] + 1:])
                if used:
                    chk.broken("%s: the tag read at line %s is not tested before the next read but handed on (returned or combined into a later test): "
                               "deferred tag tests are not modelled" % (f.name, first["l"]))
            chk.require(ok, "R1", key, where="%s:%s" % (f.file, first["l"]), ok=detail, bad=detail, variant=vn)
        # the tag constants are pairwise distinct
        tags = {}
        for s in v.statics.values():
            if s["name"].endswith("_TYPE_UID") and s.get("const") and s.get("init") is not None:
                val = s["init"].get("cv", s["init"].get("v"))
                tags.setdefault(val, []).append(s["name"])
        chk.set_count("R1.tag_constants", sum(len(x) for x in tags.values()))
        dup = {k: n for k, n in tags.items() if len(n) > 1}
        chk.require(not dup, "R1", "type tags are pairwise distinct", where="include/tfhe_generic_streams.h",
                    ok="%d distinct tags" % len(tags), bad="shared values: %s" % dup, variant=vn)
        # ---------------- R2 titles, R4 null result
        # the functions that obtain a section object from the parser, directly or through file-local static helpers (which are
        # analysed as part of their callers)
        via = {parser}
        grew = True
        while grew:
            grew = False
            for f_ in v.defined():
                if f_.get("static") and not f_.get("record") and f_.d["q"] not in via and \
                        any(c.get("callee") in via for c in calls_in(f_.d.get("body"))):
                    via.add(f_.d["q"])
                    grew = True
        consumers = [f for f in v.defined() if f.d["q"] not in via and any(c.get("callee") in via for c in calls_in(f.d.get("body")))]
        chk.set_count("R2.section_readers", len(consumers))
        pf = v.fn(parser)
        peff, _, _ = run_function(v, pf, hooks=Hooks())
        null_returns = [x for x in flat(peff) if x["e"] == "return" and x.get("val") == ZERO]
        chk.set_count("R4.null_return_paths", len(null_returns))
        for f in consumers:
            eff, st, ex = run_function(v, f, hooks=PlainIO())
            seq = ordered(eff)
            idx = next(i for i, x in enumerate(seq) if x["e"] == "call" and x["name"] == parser)
            obj = seq[idx]["ret"]
            st8 = {"title": None, "null": None, "first_use": None}

            def scan(effs, guarded):
                for x in effs:
                    if x["e"] == "call" and x.get("this") == obj:
                        if not guarded and st8["first_use"] is None:
                            st8["first_use"] = x
                        if x["name"].split("::")[-1].startswith("getProperty") and st8["title"] is None:
                            st8["title"] = (False, None, x["l"])
                    elif x["e"] == "if":
                        c = x["cond"]
                        t = ioseq._title_check(c)
                        if t and t[0] == obj and st8["title"] is None and not x.get("shortcircuit"):
                            fatal = (x.get("then_status") == "exit") if t[2] else (x.get("else_status") == "exit")
                            st8["title"] = (fatal, t[1], x["l"])
                        n = _null_test(c, obj)
                        gt = scan(x["then"], guarded or n is False)
                        ge = scan(x["else"], guarded or n is True)
                        if n is True and (x.get("then_status") == "exit") and not x.get("shortcircuit"):
                            if not guarded and st8["null"] is None:
                                st8["null"] = (st8["first_use"] is None, x["l"])
                            guarded = True
                        elif n is False and (x.get("else_status") == "exit"):
                            if not guarded and st8["null"] is None:
                                st8["null"] = (st8["first_use"] is None, x["l"])
                            guarded = True
                    elif x["e"] == "inlined":
                        guarded = scan(x["body"], guarded)      # what a file-local helper established holds after the call
                    elif x["e"] in ("loop", "while"):
                        scan(x["body"], guarded)
                return guarded

            scan(eff[[i for i, x in enumerate(eff) if x is seq[idx]][0] + 1:] if seq[idx] in eff else eff, False)
            title_ok, null_ok, first_use = st8["title"], st8["null"], st8["first_use"]
            k2 = "%s checks the section title fatally before reading a property" % f.name
            if title_ok is None:
                chk.refuted("R2", k2, where=f.where, detail="no title comparison found", variant=vn)
            else:
                chk.require(title_ok[0], "R2", k2, where="%s:%s" % (f.file, title_ok[2]),
                            ok="title '%s' enforced" % title_ok[1],
                            bad="a property is read before/without a fatal title check", variant=vn)
            k4 = "%s tests the parser's result before dereferencing it" % f.name
            if not null_returns:
                chk.proved("R4", k4, where=f.where, detail="%s has no NULL return path" % parser, variant=vn)
            elif null_ok is not None and null_ok[0]:
                chk.proved("R4", k4, where="%s:%s" % (f.file, null_ok[1]),
                           detail="NULL result is fatal before the first use", variant=vn)
            else:
                chk.refuted("R4", k4, where="%s:%s" % (f.file, first_use["l"] if first_use else f.line),
                            detail="%s returns NULL at line %s (end of input before the END marker) and %s "
                                   "dereferences the result unconditionally via %s" % (
                                       parser, null_returns[0]["l"], f.name,
                                       first_use["name"] if first_use else "?"), variant=vn)
        # ---------------- R3 short reads
        impls = [f for f in v.defined() if f.name == "fread" and f.get("record") and
                 any("Istream" in b for b in v.records.get(f.record, {}).get("bases", []))]
        chk.set_count("R3.fread_impls", len(impls))
        for f in impls:
            eff, st, ex = run_function(v, f, hooks=Hooks())
            seq = ordered(eff)
            calls = [x for x in seq if x["e"] == "call"]
            names = [x["name"] for x in calls]
            key = "%s::fread does not accept a short read silently" % f.record
            data = ex.env.get(f.params[0]["id"])
            want = ex.env.get(f.params[1]["id"])
            problems, accepted, npaths = [], set(), 0
            for leaves, conds, status in paths(eff):
                if status == "exit":
                    continue
                npaths += 1
                filled = None
                for x in leaves:
                    if x["e"] != "call" or not any(sym.contains(a, data) for a in x.get("args", [])):
                        continue
                    nm = x["name"]
                    if "basic_istream" in nm and nm.endswith("::read") and list(x["args"]) == [data, want]:
                        # [istream.unformatted]: read() calls setstate(failbit|eofbit) when fewer than n characters are stored
                        filled = "std::istream::read(data, bytes) at line %s" % x["l"]
                    else:
                        # a count-returning read: on this (normally returning) path the count must equal the request
                        full = None
                        if nm in ("fread", "std::fread") and len(x["args"]) == 4 and x["args"][0] == data and \
                                sym.mul(x["args"][1], x["args"][2]) == want:
                            full = want if x["args"][1] == ("int", 1) else x["args"][2]
                        elif re.search(r"basic_streambuf<.*>::sgetn$|basic_istream<.*>::readsome$", nm) and \
                                list(x["args"]) == [data, want]:
                            full = want
                        ok = False
                        for c, pol, line in conds:
                            if full is None or c[0] != "op":
                                continue
                            if c[1] in ("!=", "==") and {c[2], c[3]} == {x["ret"], full}:
                                ok = ok or (pol is (c[1] == "=="))
                            if c[1] == "<" and c[2] == x["ret"] and c[3] == full:
                                ok = ok or (pol is False)
                        if ok:
                            filled = "%s at line %s with the count compared on this path" % (nm, x["l"])
                        elif full is not None:
                            problems.append("returns normally after %s at line %s without the returned count being equal "
                                            "to the request on that path" % (nm, x["l"]))
                        else:
                            problems.append("a path fills the buffer through %s at line %s, which reports a short read "
                                            "neither by a stream failure nor by a count" % (nm, x["l"]))
                if filled is None and not problems and _only_for_zero(conds, want):
                    accepted.add("no read when zero bytes are requested")
                elif filled is None and not problems:
                    problems.append("a normally returning path (conditions %s) performs no read at all" % (
                        ", ".join("%s%s" % ("" if pol else "!", sym.show(c)) for c, pol, _ in conds) or "none"))
                elif filled:
                    accepted.add(filled)
            if npaths == 0:
                chk.broken("%s::fread has no normally returning path" % f.record)
            chk.require(not problems, "R3", key, where=f.where,
                        ok="%d returning path(s), each through %s" % (npaths, "; ".join(sorted(accepted))),
                        bad="; ".join(sorted(set(problems))[:3]), variant=vn)
        # nothing reachable from the import API clears stream state or catches exceptions
        pubs = api.public_functions(v)
        entry = [u for u, f in pubs.items() if api.IO_IMPORT.match(f.name)]
        chk.set_count("R3.import_entry_points", len(entry))
        reach = v.reachable(entry)
        bad = []
        ntry = 0
        for u in reach:
            f = v.defs.get(u)
            if f is None or not f.file.startswith(("libtfhe", "include")):
                continue
            for c in calls_in(f.d.get("body")):
                nm = c.get("callee", "")
                if nm in ("clearerr", "std::clearerr") or re.search(r"(basic_ios|ios_base|basic_istream)<?.*::(clear|exceptions)$", nm):
                    bad.append("%s calls %s at line %s" % (f.q, nm, c["l"]))
            for n in walk(f.d.get("body")):
                if n.get("k") == "try":
                    ntry += 1
                    bad.append("%s contains try/catch at line %s" % (f.q, n["l"]))
        chk.require(not bad, "R3", "no function reachable from an importer clears stream state or catches exceptions",
                    where="libtfhe/tfhe_io.cpp", ok="%d reachable functions inspected" % len(reach),
                    bad="; ".join(bad[:4]), variant=vn)
        # ---------------- R6 parsers throw
        getters = [f for f in v.defined() if f.get("record") and f.name.startswith("getProperty") and f.get("kind") == "method"]
        chk.set_count("R6.getters", len(getters))
        for f in getters:
            names = [c.get("callee", "") for c in calls_in(f.d.get("body"))]
            if f.name == "getProperty":
                ok = any(n.endswith("::at") for n in names)
                chk.require(ok, "R6", "%s::getProperty throws on a missing key" % f.record, where=f.where,
                            ok="uses map::at", bad="callees: %s" % names, variant=vn)
            else:
                throwing = [n for n in names if re.search(r"std::sto(l|ll|ul|ull|d|ld|f|i)$", n)]
                silent = [n for n in names if re.search(r"(^|::)(atoi|atol|atof|strtol|strtod|strtold|sscanf)$", n)]
                chk.require(bool(throwing) and not silent, "R6", "%s::%s throws on malformed text" % (f.record, f.name),
                            where=f.where, ok="parser %s" % throwing, bad="non-throwing parser %s" % (silent or names), variant=vn)
        # ---------------- R5 dimensions from the stream
        from rules import c05
        pairs = api.io_pairs(v)
        for (tname, transport), pr in sorted(pairs.items()):
            if transport != "File" or not pr["r"].name.startswith("new_"):
                continue
            W = c05.view(v, pr["w"], deep=False)
            R = c05.view(v, pr["r"], deep=True)
            problems, _ = c05.compare(chk, v, tname, W, R, pr["r"].where, vn)
            loose = [p for p in problems if "reaches no field" in p or "never tests" in p or "does not stop" in p]
            chk.require(not loose, "R5", "%s: every dimension read from the stream is stored or fatally validated" % tname,
                        where=pr["r"].where, ok="all text properties flow into the result or into a fatal guard",
                        bad="; ".join(loose)[:500], variant=vn)
            chk.count("R5.readers")


def _null_test(cond, obj):
    """True if cond is true when obj is NULL ( obj == 0 / !obj ), False if true when non-NULL, None otherwise"""
    if cond[0] == "op" and cond[1] in ("==", "!=") and ((cond[2] == obj and cond[3] == ZERO) or (cond[3] == obj and cond[2] == ZERO)):
        return cond[1] == "=="
    if cond[0] == "un" and cond[1] == "!":
        r = _null_test(cond[2], obj)
        return None if r is None else (not r)
    if cond == obj:
        return False
    if cond[0] == "op" and cond[1] == "||":
        for side in (cond[2], cond[3]):
            r = _null_test(side, obj)
            if r is True:
                return True
    return None


# ------------------------------------------------------------------------------ R7: a section ends only at ITS end line
def _refs(n):
    return {x.get("id") for x in walk(n) if isinstance(x, dict) and x.get("k") == "ref" and x.get("id") is not None}


def check_section_end(chk, v, parser_name):
    """In the text-section parser, every return of a (non-NULL) property object must be guarded by an equality test of the
    whole current line with a string built from the title of the BEGIN line that opened the section: otherwise a
    truncated or foreign END line closes the section silently."""
    vn = v.name
    f = v.fn(parser_name)
    body = f.d.get("body")
    # the current line: the variable handed to getLine; the title: the argument of setTypeTitle
    line_ids, title_ids = set(), set()
    for n in walk(body):
        if n.get("k") == "mcall" and n.get("method") == "getLine":
            line_ids |= _refs({"a": n.get("args")})
        if n.get("k") == "mcall" and n.get("method") == "setTypeTitle":
            title_ids |= _refs({"a": n.get("args")})
    if not line_ids or not title_ids:
        chk.broken("%s: getLine / setTypeTitle calls not found" % parser_name)
    # variables whose value is built from the title
    derived = set(title_ids)
    for _ in range(3):
        for n in walk(body):
            if n.get("k") in ("assign", "opcall") and n.get("op") in ("=",):
                args = n.get("args") or [n.get("a"), n.get("b")]
                if args and isinstance(args[0], dict) and args[0].get("k") == "ref" and any(_refs(a) & derived for a in args[1:] if isinstance(a, dict)):
                    derived.add(args[0].get("id"))
            if n.get("k") == "var" and n.get("init") is not None and _refs(n["init"]) & derived:
                derived.add(n.get("id"))
            if n.get("k") == "mcall" and n.get("method") in ("assign", "append", "operator+=", "insert", "replace", "push_back", "operator="):
                # s.assign("-----END ").append(title).append("-----"): the string at the bottom of the call chain is built from
                # every argument of the chain
                base = n
                while isinstance(base, dict) and base.get("k") == "mcall":
                    base = base.get("obj")
                while isinstance(base, dict) and base.get("k") == "cast":
                    base = base.get("a")
                if isinstance(base, dict) and base.get("k") == "ref" and "id" in base:
                    others = set()
                    m_ = n
                    while isinstance(m_, dict) and m_.get("k") == "mcall":
                        for a_ in m_.get("args") or []:
                            if isinstance(a_, dict):
                                others |= _refs(a_)
                        m_ = m_.get("obj")
                    if others & derived:
                        derived.add(base["id"])

    def returns_with_conditions(n, conds, out):
        if isinstance(n, list):
            for y in n:
                returns_with_conditions(y, conds, out)
            return
        if not isinstance(n, dict):
            return
        k = n.get("k")
        if k == "if":
            def parts(c, pol):
                """the conditions a branch establishes: both operands of a taken `&&`, of a refused `||`; through casts and `!`"""
                while isinstance(c, dict) and c.get("k") == "cast":
                    c = c.get("a")
                if isinstance(c, dict) and c.get("k") == "un" and c.get("op") == "!" and isinstance(c.get("a"), dict) and \
                        c["a"].get("k") in ("bin", "un", "cast", "opcall") and not (c["a"].get("k") == "cast" and c["a"]["a"].get("k") == "mcall"):
                    return parts(c["a"], not pol)
                if isinstance(c, dict) and c.get("k") == "bin" and ((c.get("op") == "&&" and pol) or (c.get("op") == "||" and not pol)):
                    return parts(c.get("a"), pol) + parts(c.get("b"), pol)
                return [(c, pol)]
            returns_with_conditions(n.get("then"), conds + parts(n.get("c"), True), out)
            returns_with_conditions(n.get("else"), conds + parts(n.get("c"), False), out)
            return
        if k == "return":
            out.append((n, conds))
            return
        for key_, y in n.items():
            if key_ in ("c",):
                continue
            if isinstance(y, (dict, list)):
                returns_with_conditions(y, conds, out)
    rets = []
    returns_with_conditions(body, [], rets)
    good = [r for r in rets if r[0].get("a") is not None and not (r[0]["a"].get("k") in ("null", "int") or r[0]["a"].get("cv") in ("0", 0)
                                                                   or (r[0]["a"].get("k") == "cast" and "null" in str(r[0]["a"].get("ck", "")).lower()))]
    good = [r for r in good if r[0]["a"].get("k") == "ref" or r[0]["a"].get("k") == "cast" and _refs(r[0]["a"])]
    if not good:
        chk.broken("%s: no return of a property object found" % parser_name)
    problems = []
    for r, conds in good:
        ok = False
        for c, pol in conds:
            if pol and isinstance(c, dict) and c.get("k") == "opcall" and c.get("op") == "==" and len(c.get("args") or []) == 2:
                a, b = c["args"]
                ia, ib = _refs(a), _refs(b)
                if (ia & line_ids and ib & derived and a.get("k") == "ref" and b.get("k") == "ref") or \
                        (ib & line_ids and ia & derived and a.get("k") == "ref" and b.get("k") == "ref"):
                    ok = True
            # line.compare(E) == 0, !line.compare(E), and the else branch of line.compare(E) / line != E
            cmp_call, eq_pol = None, None
            if isinstance(c, dict):
                if c.get("k") == "un" and c.get("op") == "!" and isinstance(c.get("a"), dict) and c["a"].get("k") == "mcall":
                    cmp_call, eq_pol = c["a"], True
                elif c.get("k") == "bin" and c.get("op") in ("==", "!=") and any(isinstance(c.get(s_), dict) and c[s_].get("k") == "mcall" for s_ in ("a", "b")):
                    mc = c["a"] if c["a"].get("k") == "mcall" else c["b"]
                    other = c["b"] if mc is c["a"] else c["a"]
                    if str(other.get("cv", other.get("v"))) == "0":
                        cmp_call, eq_pol = mc, (c["op"] == "==")
                elif c.get("k") == "mcall":
                    cmp_call, eq_pol = c, False
                elif c.get("k") == "opcall" and c.get("op") == "!=" and len(c.get("args") or []) == 2:
                    a, b = c["args"]
                    if not pol and a.get("k") == "ref" and b.get("k") == "ref" and ((_refs(a) & line_ids and _refs(b) & derived) or (_refs(b) & line_ids and _refs(a) & derived)):
                        ok = True
            if cmp_call is not None and cmp_call.get("method") == "compare" and len(cmp_call.get("args") or []) == 1 and pol == eq_pol:
                objn = cmp_call.get("obj") or cmp_call.get("this") or cmp_call.get("a")
                arg = cmp_call["args"][0]
                if isinstance(objn, dict) and ((_refs(objn) & line_ids and _refs(arg) & derived) or (_refs(objn) & derived and _refs(arg) & line_ids)):
                    ok = True
        if not ok:
            problems.append("the section object is returned at line %s without comparing the whole line with the END line of the title that opened "
                            "the section (conditions on the path: %s): a truncated END line or the END line of another object type is accepted" % (
                                r["l"], [("" if pol else "!") + (c.get("callee") or c.get("method") or c.get("op") or c.get("k", "?")) for c, pol in conds][-3:]))
    chk.require(not problems, "R7", "%s closes a section only on the exact END line of its own title" % parser_name, where=f.where,
                ok="%d return(s) of the section object, each under `line == \"-----END \" + title + \"-----\"`" % len(good),
                bad="; ".join(problems)[:600], variant=vn)
    chk.vcount(vn, "R7.section_parsers")
