"""C19 — default parameter selection is monotone and matches the documented sets.

Decides: R1 the selection map over all int32 requests by exact region partitioning of the threshold
chain; R2 the constants of both sets against the README table / the historic published values;
R3 structural constraints tying the sets to the rest of the library; R4 (with the noise model) margin.
Not decided: the security level itself.
"""
import math
import re

from sa import sym
from sa.facts import Program, walk
from sa.symexec import Hooks, run_function, flat
from sa.sym import I

SELECTOR = "new_default_gate_bootstrapping_parameters"
# the one oracle that is a table in the checker: [CGGI16] historic 80-bit set (DESIGN §5 C19)
HISTORIC_80 = {"n": 500, "N": 1024, "k": 1, "l": 2, "Bgbit": 10, "ks_t": 8, "ks_basebit": 2,
               "ks_stdev": 2.44e-5, "bk_stdev": 7.18e-9}
INT32_MIN, INT32_MAX = -2 ** 31, 2 ** 31 - 1


def fold_float(t):
    """evaluate float terms made of literals, + - * / and pow/ldexp/exp2 calls"""
    if t is None:
        return None
    if t[0] == "float":
        return t[1]
    if t[0] == "int":
        return float(t[1])
    if t[0] == "cast":
        return fold_float(t[2])
    if t[0] == "fop":
        a, b = fold_float(t[2]), fold_float(t[3])
        if a is None or (b is None and t[1] != "neg"):
            return None
        try:
            return {"+": lambda: a + b, "-": lambda: a - b, "*": lambda: a * b, "/": lambda: a / b,
                    "neg": lambda: -a}[t[1]]()
        except Exception:
            return None
    if t[0] == "call" and t[1] in ("pow", "std::pow") and len(t[2]) == 2:
        a, b = fold_float(t[2][0]), fold_float(t[2][1])
        if a is not None and b is not None:
            return math.pow(a, b)
    if t[0] == "call" and t[1] in ("exp2", "std::exp2") and len(t[2]) == 1:
        a = fold_float(t[2][0])
        return None if a is None else 2.0 ** a
    if t[0] == "call" and t[1] in ("ldexp", "std::ldexp") and len(t[2]) == 2:
        a, b = fold_float(t[2][0]), fold_float(t[2][1])
        return None if a is None or b is None else math.ldexp(a, int(b))
    return None


def eval_cond(t, lam, L):
    """exact evaluation of a condition built from comparisons of the request with literals"""
    k = t[0]
    if k == "int":
        return t[1]
    if t == L:
        return lam
    # constant tables of thresholds (file-scope const arrays with literal initialisers, _TABLES): an element read is its value;
    # a pointer into the table is its element index (differences of such pointers are what the selector computes with)
    if k == "glob" and t[1] in _TABLES:
        return 0
    if k == "idx" and t[1][0] == "glob" and t[1][1] in _TABLES:
        i = eval_cond(t[2], lam, L)
        tb = _TABLES[t[1][1]]
        return tb[i] if isinstance(i, int) and not isinstance(i, bool) and 0 <= i < len(tb) else None
    if k == "addr" and t[1][0] == "idx" and t[1][1][0] == "glob" and t[1][1][1] in _TABLES:
        i = eval_cond(t[1][2], lam, L)
        return i if isinstance(i, int) and not isinstance(i, bool) and 0 <= i <= len(_TABLES[t[1][1][1]]) else None
    if k == "obj" and t[1] in ("std::lower_bound", "std::upper_bound") and len(t[2]) == 3:
        # binary search of the request in a sorted constant table: the position is the count of elements < (<=) the value
        roots = {sym.root_of(a) for a in t[2][:2]}
        if len(roots) != 1 or None in roots:
            return None
        r = roots.pop()
        if r[0] != "glob" or r[1] not in _TABLES:
            return None
        tb = _TABLES[r[1]]
        lo, hi, x = (eval_cond(a, lam, L) for a in t[2])
        if lo is None or hi is None or x is None or not (0 <= lo <= hi <= len(tb)):
            return None
        seg = tb[lo:hi]
        if seg != sorted(seg):
            return None          # precondition of the algorithm violated: undefined, not decided
        if t[1] == "std::lower_bound":
            return lo + sum(1 for e in seg if e < x)
        return lo + sum(1 for e in seg if e <= x)
    if k == "op":
        a, b = eval_cond(t[2], lam, L), eval_cond(t[3], lam, L)
        if a is None or b is None:
            return None
        return {"<": a < b, "<=": a <= b, ">": a > b, ">=": a >= b, "==": a == b, "!=": a != b,
                "&&": bool(a) and bool(b), "||": bool(a) or bool(b)}.get(t[1])
    if k == "un" and t[1] == "!":
        a = eval_cond(t[2], lam, L)
        return None if a is None else (not a)
    if k == "poly":
        r = 0
        for m, c in t[1]:
            p = c
            for x in m:
                vx = eval_cond(x, lam, L)
                if vx is None:
                    return None
                p *= vx
            r += p
        return r
    return None


_TABLES = {}


def const_int_tables(v):
    """file-scope const arrays of integers whose initialiser is a full list of literals (the compiler rejects any write to them)"""
    out = {}
    for s_ in v.statics.values():
        ini = s_.get("init")
        if not (s_.get("definition") and s_.get("const") and ini and ini.get("k") == "initlist" and not s_.get("static_local")):
            continue
        m = re.match(r"const (?:int|unsigned int|long|unsigned long|short|unsigned short)\[(\d+)\]$", s_.get("t", ""))
        vals = []
        for a in ini.get("args", []):
            while a.get("k") == "cast" and a.get("implicit"):
                a = a["a"]
            cv = a.get("cv", a.get("v") if a.get("k") == "int" else None)
            if cv is None or not re.match(r"-?\d+$", str(cv)):
                vals = None
                break
            vals.append(int(cv))
        if m and vals is not None and len(vals) == int(m.group(1)):
            out[s_["name"]] = vals
    return out


def outcome(effects, lam, L):
    """walk the effect tree for a concrete request: ('return', callee) | ('exit', how) | ('fall',)"""
    for x in effects:
        e = x["e"]
        if e == "if":
            c = eval_cond(x["cond"], lam, L)
            if c is None:
                return ("unknown", "condition at line %s is not a comparison of the request with literals" % x["l"])
            r = outcome(x["then"] if c else x["else"], lam, L)
            if r[0] != "fall":
                return r
        elif e == "return":
            v = x["val"]
            if v is not None and v[0] in ("obj", "call"):
                # the constructor may take arguments computed from the request (one builder with a flag): evaluate them here
                av = tuple(eval_cond(a, lam, L) for a in v[2])
                if any(a is None for a in av):
                    return ("unknown", "argument of %s at line %s is not computed from the request and literals" % (v[1], x["l"]))
                return ("return", (v[1], tuple(int(a) for a in av)))
            return ("return", (sym.show(v), ()))
        elif e == "exit":
            return ("exit", x["how"])
    return ("fall",)


class InlineLocalHelpers(Hooks):
    """inline file-local (static) helper functions of the parameter constructors"""

    def __init__(self, fn):
        self.fn = fn

    def want_inline(self, ex, callee, node):
        return bool(callee.get("static")) and callee.file == self.fn.file and not callee.get("record")


def _disjuncts(c):
    if c[0] == "op" and c[1] == "||":
        return _disjuncts(c[2]) + _disjuncts(c[3])
    return [c]


def cached_object(v, eff, glob, alloc_name):
    """The argument is read from static storage `glob` (a cache that outlives the call).  Sound only when the cache is
    refilled whenever ANY constructor argument differs: find the guarded refill  if (!g || g->F1 != a1 || ...) g = alloc(a...)
    and compare the tested fields with the fields the constructor derives from its arguments.
    -> (True, detail) | (False, detail) | (None, reason)"""
    fills = []

    def scan(effs, conds):
        for x in effs:
            if x["e"] == "if":
                scan(x["then"], conds + [x["cond"]])
                scan(x["else"], conds + [sym.unop("!", x["cond"])])
            elif x["e"] == "inlined":
                scan(x["body"], conds)
            elif x["e"] in ("loop", "while"):
                scan(x["body"], conds + [("unk",)])
            elif x["e"] == "store" and x["lv"] == glob and not x.get("static_init"):
                fills.append((x, conds))
    scan(eff, [])
    if len(fills) != 1 or len(fills[0][1]) != 1:
        return None, "refill of %s not recognised (%d stores)" % (sym.show(glob), len(fills))
    st, (cond,) = fills[0]
    if not (st["val"][0] == "obj" and st["val"][1] == alloc_name):
        return None, "%s is filled with %s" % (sym.show(glob), sym.show(st["val"]))
    args = st["val"][2]
    tested = {}
    for d in _disjuncts(cond):
        if d[0] in ("op", "fop") and d[1] == "!=" and d[2][0] == "fld" and d[2][1] == sym.idx(glob, sym.ZERO):
            tested[d[2][2]] = d[3]
        elif d[0] in ("op", "fop") and d[1] == "!=" and d[3][0] == "fld" and d[3][1] == sym.idx(glob, sym.ZERO):
            tested[d[3][2]] = d[2]
    # fields the constructor sets directly from each parameter
    rec = alloc_name[len("new_"):]
    ctor = [f for f in v.defined() if f.get("record") == rec and f.get("kind") == "ctor" and not f.get("implicit") and not f.get("copy")]
    if len(ctor) != 1:
        return None, "%s constructor not found" % rec
    ceff, _, cex = run_function(v, ctor[0], hooks=Hooks())
    this0 = sym.idx(sym.sym("this"), sym.ZERO)
    direct = {}
    for x in flat(ceff):
        if x["e"] == "store" and x["lv"][0] == "fld" and x["lv"][1] == this0 and x["val"][0] == "sym":
            direct.setdefault(x["val"][1], x["lv"][2])
    missing = []
    for k, prm in enumerate(ctor[0].params):
        fld_ = direct.get(prm["n"])
        if fld_ is None or fld_ not in tested or tested[fld_] != args[k]:
            missing.append("%s (argument %d, value %s)" % (prm["n"], k, sym.show(args[k])))
    if missing:
        return False, ("%s is a cache in static storage refilled only when %s differ(s); it is NOT refilled when %s differs, so the "
                       "object handed out carries the value of an EARLIER call (line %s)" % (
                           sym.show(glob), sorted(tested), "; ".join(missing), st["l"]))
    return True, "%s is a cache keyed on every constructor argument" % sym.show(glob)


def param_set(v, fn, argvals=()):
    """constants of one static parameter constructor (called with the given literal arguments), by following its constructor calls"""
    eff, st, ex = run_function(v, fn, args=[sym.I(a) for a in argvals] if argvals else None, hooks=InlineLocalHelpers(fn))
    for x in flat(eff):
        if x["e"] == "call":
            x["args"] = [sym.fold(a) if isinstance(a, tuple) else a for a in x["args"]]
    calls = {}
    for x in flat(eff):
        if x["e"] == "call":
            calls.setdefault(x["name"], []).append(x)
    out = {"problems": []}
    need = ("new_LweParams", "new_TLweParams", "new_TGswParams")
    for n in need:
        if len(calls.get(n, [])) != 1:
            return None, "%d calls to %s in %s (helpers inlined)" % (len(calls.get(n, [])), n, fn.name)
    calls = {k: x[0] for k, x in calls.items()}
    a = calls["new_LweParams"]["args"]
    out["n"], out["ks_stdev"], out["lwe_alpha_max"] = sym.const_value(a[0]), fold_float(a[1]), fold_float(a[2])
    a = calls["new_TLweParams"]["args"]
    out["N"], out["k"], out["bk_stdev"], out["tlwe_alpha_max"] = sym.const_value(a[0]), sym.const_value(a[1]), fold_float(a[2]), fold_float(a[3])
    a = calls["new_TGswParams"]["args"]
    out["l"], out["Bgbit"] = sym.const_value(a[0]), sym.const_value(a[1])

    def same_object(arg, alloc):
        if arg == calls[alloc]["ret"]:
            return True
        if arg[0] == "glob":
            ok, detail = cached_object(v, eff, arg, alloc)
            if ok is None:
                return None
            if not ok:
                out["problems"].append(detail)
            return ok
        return False
    out["tgsw_uses_tlwe"] = same_object(a[2], "new_TLweParams")
    ctor = next((x for x in flat(eff) if x["e"] == "call" and x["name"].startswith("TFheGateBootstrappingParameterSet::")), None)
    if ctor is None:
        return None, "no TFheGateBootstrappingParameterSet construction in %s" % fn.name
    a = ctor["args"]
    out["ks_t"], out["ks_basebit"] = sym.const_value(a[0]), sym.const_value(a[1])
    out["set_uses_lwe"] = same_object(a[2], "new_LweParams")
    out["set_uses_tgsw"] = same_object(a[3], "new_TGswParams")
    for k in ("tgsw_uses_tlwe", "set_uses_lwe", "set_uses_tgsw"):
        if out[k] is None:
            return None, "%s: source of the parameter object not recognised in %s" % (k, fn.name)
    return out, None


def readme_table(prog):
    txt = open(prog.repo + "/README.md").read()
    rows = {}
    for line in txt.splitlines():
        m = re.match(r"\|\s*(Key-Switching key|Bootstrapping key)[^|]*\|\s*(\d+)\s*\|\s*\$2\^\{(-?\d+)\}\$\s*\|\s*(\d+) bits", line)
        if m:
            rows[m.group(1)] = (int(m.group(2)), 2.0 ** int(m.group(3)), int(m.group(4)))
    return rows


def selected_parameter_sets(chk, v):
    """the selector evaluated at a representative of every region of the request axis (between consecutive literals the outcome is
    constant), and the constants of every parameter set it can return -- a constructor per set, or one builder called with
    arguments computed from the request.  -> (selector function, points, outcomes, {(constructor name, argument values): constants})"""
    vn = v.name
    sel = v.fn(SELECTOR)
    L = sym.sym(sel.params[0]["n"])
    eff, st, ex = run_function(v, sel, hooks=Hooks())
    lits = set()
    _TABLES.clear()
    _TABLES.update(const_int_tables(v))
    for x in flat(eff):
        if x["e"] == "if":
            for a in _ints(x["cond"]):
                lits.add(a)
            for g in _globs(x["cond"]):
                lits.update(_TABLES.get(g, ()))     # thresholds kept in a constant table delimit regions like literals do
    points = sorted({INT32_MIN, INT32_MAX, 0, 1} | {c + d for c in lits for d in (-1, 0, 1)})
    points = [p for p in points if INT32_MIN <= p <= INT32_MAX]
    chk.set_count("R1.region_representatives", len(points))
    # regions: between consecutive literals the outcome is constant; verify by evaluating both ends
    outcomes = {p: outcome(eff, p, L) for p in points}
    unknown = [(p, o) for p, o in outcomes.items() if o[0] == "unknown"]
    if unknown:
        chk.broken("selector condition not decidable: %s" % (unknown[0][1][1],))
    # identify the sets returned
    fns = {}
    for p, o in outcomes.items():
        if o[0] == "return":
            fns.setdefault(o[1], []).append(p)
    sets = {}
    for key_ in fns:
        f = v.fn(key_[0], required=False)
        if f is None:
            chk.broken("selector returns %s, not a parameter constructor" % key_[0])
        ps, err = param_set(v, f, key_[1])
        if ps is None:
            chk.broken(err)
        if any(ps.get(q_) is None for q_ in ("n", "N", "k", "l", "Bgbit", "ks_t", "ks_basebit")):
            chk.broken("%s%s: a dimension is not a literal after folding" % (key_[0], key_[1] or ""))
        sets[key_] = ps
    return sel, points, outcomes, sets


def run(chk):
    prog = Program()
    chk.explanation = (
        "The threshold chain of the default-parameter selector is evaluated exactly for one representative of "
        "every region delimited by the literals it compares the request with (plus INT32_MIN/INT32_MAX), which "
        "covers all 2^32 requests because its conditions mention only the request and literals; the constants of "
        "both sets are folded from the constructors' initialisers and compared with the README table and the "
        "historic published set; structural constraints (ring degree == FFT processor size, l*Bgbit <= 32, "
        "t*basebit <= 31, extracted dimension == k*N) are read from constructors.")
    chk.trusted = ["clang 14 front end", "README.md security table as the documented values",
                   "historic [CGGI16] 80-bit values recorded in rules/c19.py"]
    doc = readme_table(prog)
    if set(doc) != {"Key-Switching key", "Bootstrapping key"}:
        chk.broken("README security table not found/parsed: %s" % doc)
    for v in prog.variants():
        vn = v.name
        chk.analysed["variants"] = chk.analysed.get("variants", 0) + 1
        sel, points, outcomes, sets = selected_parameter_sets(chk, v)
        # R5 "every field of the returned sets": the derived gadget fields of the TGSW parameter object (h[], offset, halfBg, maskMod)
        # are what the decomposition assumes -- C12's rules on the constructor and the digits, re-evaluated here
        from rules import c12 as _c12, c04 as _c04
        _c12.check_variant(_c04._Sub(chk, "R5", skip={"R4", "R8"}), v)
        chk.set_count("R1.region_representatives", len(points))
        chk.set_count("R1.parameter_sets", len(sets))

        def expected(p):
            if p <= 0 or p > 128:
                return "reject"
            return "80" if p <= 80 else "128"

        def label(o):
            if o[0] in ("exit",):
                # rejection means the process ends here; an exception only unwinds into the caller, who may catch it and go on
                return "reject" if v.terminates_process(o[1]) else "does-not-abort(%s)" % (o[1],)
            if o[0] == "return":
                n = sets[o[1]]["n"]
                return {doc["Key-Switching key"][0]: "128", HISTORIC_80["n"]: "80"}.get(n, "other(n=%s)" % n)
            return "falls-through"
        for p in points:
            got = label(outcomes[p])
            chk.require(got == expected(p), "R1", "request %d selects %s" % (p, expected(p)), where=sel.where,
                        ok="-> %s" % (outcomes[p],), bad="selects %s (%s)" % (got, outcomes[p]), variant=vn)
        # monotone: along increasing requests the accepted sets never get weaker
        order = {"80": 1, "128": 2}
        seq = [order[label(outcomes[p])] for p in points if label(outcomes[p]) in order]
        chk.require(seq == sorted(seq), "R1", "selection is monotone in the request", where=sel.where,
                    ok="levels along the axis: %s" % seq, bad="levels along the axis: %s" % seq, variant=vn)
        # R2 constants
        for key_, ps in sets.items():
            f = v.fn(key_[0])
            name = key_[0] + ("(%s)" % ", ".join(str(a) for a in key_[1]) if key_[1] else "")
            is128 = ps["n"] == doc["Key-Switching key"][0]
            if is128:
                want = {"n": doc["Key-Switching key"][0], "ks_stdev": doc["Key-Switching key"][1],
                        "N": doc["Bootstrapping key"][0], "bk_stdev": doc["Bootstrapping key"][1],
                        "k": 1, "l": 3, "Bgbit": 7, "ks_t": 8, "ks_basebit": 2}
                src = {"n": "README", "ks_stdev": "README", "N": "README", "bk_stdev": "README"}
            else:
                want = dict(HISTORIC_80)
                src = {}
            for k, w in sorted(want.items()):
                got = ps.get(k)
                if isinstance(w, float):
                    ok = got is not None and abs(got - w) <= 1e-12 * abs(w)
                else:
                    ok = got == w
                chk.require(ok, "R2", "%s: %s == %s (%s)" % (name, k, w, src.get(k, "published set")), where=f.where,
                            ok="folded value %s" % got, bad="folded value %s" % got, variant=vn)
            for k in ("tgsw_uses_tlwe", "set_uses_lwe", "set_uses_tgsw"):
                chk.require(ps[k], "R2", "%s: %s (the object built in this call from this set's constants)" % (name, k), where=f.where,
                            ok="same object", bad="; ".join(ps["problems"]) or "a different object is passed", variant=vn, nontrivial=False)
            # R3 structural
            chk.require(ps["l"] * ps["Bgbit"] <= 32, "R3", "%s: l*Bgbit <= 32" % name, where=f.where,
                        ok="%d" % (ps["l"] * ps["Bgbit"]), bad="%d" % (ps["l"] * ps["Bgbit"]), variant=vn)
            chk.require(ps["ks_t"] * ps["ks_basebit"] <= 31, "R3", "%s: ks_t*ks_basebit <= 31" % name, where=f.where,
                        ok="%d" % (ps["ks_t"] * ps["ks_basebit"]), bad="%d" % (ps["ks_t"] * ps["ks_basebit"]), variant=vn)
            procs = [s for s in v.statics.values() if s.get("tls") and s.get("definition") and re.search(r"FFT_Processor", s.get("t", ""))]
            chk.set_count("R3.thread_local_processors", len(procs))
            for s in procs:
                init = s.get("init") or {}
                sizes = [int(a["v"]) for a in init.get("args", []) if isinstance(a, dict) and a.get("k") == "int"]
                chk.require(sizes == [ps["N"]], "R3", "%s: ring degree N equals the size of FFT processor %s" % (name, s["name"]),
                            where=s["loc"], ok="N = %s" % sizes, bad="processor built for %s, N = %s" % (sizes, ps["N"]), variant=vn)
            chk.require(ps["N"] > 0 and ps["N"] & (ps["N"] - 1) == 0 and ps["N"] % 8 == 0, "R3",
                        "%s: N is a power of two and a multiple of the vector width" % name, where=f.where,
                        ok=str(ps["N"]), bad=str(ps["N"]), variant=vn, nontrivial=False)
        # extracted dimension = k*N from the TLweParams constructor
        ctor = [f for f in v.defined() if f.get("record") == "TLweParams" and f.get("kind") == "ctor" and not f.get("implicit")]
        if len(ctor) != 1:
            chk.broken("TLweParams constructor not found")

        class H(Hooks):
            def want_inline(self, ex, callee, node):
                return callee.get("kind") == "ctor"
        ceff, _, cex = run_function(v, ctor[0], hooks=H())
        N, K = sym.sym("N"), sym.sym("k")
        ext = [x for x in flat(ceff) if x["e"] == "store" and sym.show(x["lv"]).endswith("extracted_lweparams.n")]
        # members read back in the initialiser list are the values they were initialised with (declaration order)
        inits_ = {x["lv"]: x["val"] for x in flat(ceff) if x["e"] == "store" and x.get("ctor_init") and isinstance(x.get("val"), tuple)}
        for x in ext:
            x["val"] = sym.subst(sym.subst(x["val"], inits_), inits_)
        chk.require(len(ext) == 1 and ext[0]["val"] == sym.mul(N, K), "R3", "extracted LWE dimension == k*N",
                    where=ctor[0].where, ok="extracted_lweparams.n = %s" % (sym.show(ext[0]["val"]) if ext else None),
                    bad="extracted_lweparams.n = %s" % (sym.show(ext[0]["val"]) if ext else None), variant=vn)


def _globs(t):
    if isinstance(t, (tuple, list)):
        if len(t) == 2 and t[0] == "glob" and isinstance(t[1], str):
            yield t[1]
        else:
            for x in t:
                yield from _globs(x)


def _ints(t):
    if not isinstance(t, tuple) or not t:
        return
    if t[0] == "int":
        yield t[1]
        return
    if t[0] == "poly":
        for m, c in t[1]:
            if not m:
                yield c
            for x in m:
                yield from _ints(x)
        return
    for x in t[1:]:
        if isinstance(x, tuple):
            yield from _ints(x)
