"""C13 — torus rounding and modulus-switch functions round to nearest exactly.

Decides, for power-of-two Msize = 2^m (1 <= m <= 30) and all 2^32 phases, by power-of-two algebra:
R1 the interval is 2^(64-m), the added half interval 2^(63-m), and modSwitchFromTorus32 is the rounding form
((p*2^32 + 2^(s-1)) mod 2^64) >> s with s = 64-m; R2 approxPhase is modSwitchToTorus32 o modSwitchFromTorus32;
R3 modSwitchToTorus32(mu) = mu*2^(32-m), so encode-then-switch is the identity on [0,M); R4 the three functions
use the same interval expression and unsigned 64-bit arithmetic.
R5 dtot32 converts frac(d)*2^32 (magnitude < 2^32) through a 64-bit integer before reducing modulo 2^32 (range rule on
the float-to-integer conversion: periodicity modulo 1).
Not decided: non-power-of-two Msize (needs a solver or exhaustive evaluation); rounding of the floating product itself.
"""
from sa import affine, bits, summ, sym
from sa.facts import Program, walk
from sa.sym import I, ZERO

NOINLINE = summ.LOCAL_HELPERS
FNS = ("modSwitchFromTorus32", "approxPhase", "modSwitchToTorus32")


def ret_value(v, f):
    ps, _ = summ.pieces(v, f, hooks=NOINLINE)
    rets = [p for p in ps if p["kind"] == "return"]
    if len(rets) != 1 or any(p["kind"] in ("asm", "while", "unknown") for p in ps):
        return None
    return rets[0]["val"]


def strip(t):
    while t[0] == "cast":
        t = t[2]
    return t


def find_interval(t, M):
    """the sub-term built from 2^63 / Msize that plays the interval: returns (interval term) or None"""
    cands = []

    def visit(x):
        if not isinstance(x, tuple) or not x:
            return
        if not isinstance(x[0], str):
            for y in x:
                visit(y)
            return
        if x[0] == "poly":
            if len(x[1]) == 1 and any(a[0] == "op" and a[1] == "/" and a[3] == M for a in x[1][0][0]):
                cands.append(x)
            for m, _ in x[1]:
                for a in m:
                    visit(a)
            return
        if x[0] == "op" and x[1] == "/" and x[3] == M:
            cands.append(x)
        for y in x[1:]:
            if isinstance(y, tuple):
                visit(y)
    visit(t)
    return cands


INT_BITS = {"int": 32, "unsigned int": 32, "long": 64, "unsigned long": 64, "long long": 64, "unsigned long long": 64,
            "short": 16, "unsigned short": 16, "char": 8, "signed char": 8, "unsigned char": 8}


def fbound(v, t):
    """upper bound of |value| of a floating term (float('inf') when unbounded); the fractional part d - trunc(d) is < 1"""
    inf = float("inf")
    if t is None:
        return inf
    k = t[0]
    if k == "float":
        return abs(t[1])
    if k == "int":
        return float(abs(t[1]))
    if k == "glob":
        s_ = v.statics.get(t[1])
        init = (s_ or {}).get("init") or {}
        cv = init.get("cv", init.get("v"))
        try:
            return abs(float(cv))
        except (TypeError, ValueError):
            return inf
    if k == "cast":
        return fbound(v, t[2])
    if k == "fop":
        a, b = t[2], t[3] if len(t) > 3 else None
        if t[1] == "-" and b is not None and b[0] == "cast" and b[2][0] == "cast" and b[2][1] in INT_BITS and b[2][2] == a:
            return 1.0                      # d - (double)(integer)d : the fractional part, magnitude < 1
        if t[1] == "*":
            return fbound(v, a) * fbound(v, b)
        if t[1] in ("+", "-"):
            return fbound(v, a) + fbound(v, b)
        if t[1] == "/" and b is not None:
            db = fbound(v, b)
            if b[0] in ("float", "int", "glob") and db not in (0.0, inf):
                return fbound(v, a) / db
        if t[1] == "neg":
            return fbound(v, a)
    return inf


def float_to_int_casts(t):
    """(target type, floating operand) of every conversion of a floating value to an integer type inside t"""
    out = []
    for st in sym.subterms(t):
        if st[0] == "cast" and st[1] in INT_BITS:
            x = st[2]
            while x[0] == "cast" and x[1] in ("double", "float", "long double"):
                x = x[2]
            if x[0] in ("fop", "float") or (x[0] == "call" and False):
                out.append((st[1], x))
    return out


def check_double_conversion(chk, v):
    """R5: dtot32(d) = wrap32(trunc(frac(d) * 2^32)); the scaled fractional part (magnitude < 2^32) must be converted
    through an integer type that can hold it, otherwise the conversion is undefined for |frac(d)| >= 1/2 and the function
    stops being periodic modulo 1"""
    vn = v.name
    f = v.fn("dtot32")
    val = ret_value(v, f)
    if val is None:
        chk.broken("dtot32: not a single closed return expression")
    d = sym.sym(f.params[0]["n"])
    casts = float_to_int_casts(val)
    key = "dtot32 is periodic modulo 1: the scaled fractional part is converted through a type that holds it"
    outer = [c for c in casts if sym.contains(c[1], d) and not (c[1][0] == "sym")]
    # the conversion that produces the result: the outermost float->int cast
    top = None
    x = val
    while x[0] == "cast" and x[1] not in INT_BITS:
        x = x[2]
    if x[0] == "cast" and x[1] in INT_BITS:
        top = (x[1], x[2])
    if top is None:
        chk.broken("dtot32: result %s is not a float-to-integer conversion" % sym.show(val))
    ty, operand = top
    b = fbound(v, operand)
    problems = []
    scale = None
    if operand[0] == "fop" and operand[1] == "*":
        for a_, b_ in ((operand[2], operand[3]), (operand[3], operand[2])):
            if fbound(v, a_) == 1.0 and a_[0] == "fop" and a_[1] == "-" and a_[2] == d:
                scale = fbound(v, b_)
    if scale != 4294967296.0:
        problems.append("the converted value %s is not frac(d) * 2^32" % sym.show(operand)[:80])
    cap = 2.0 ** (INT_BITS[ty] - (0 if ty.startswith("unsigned") else 1))
    if not (b <= cap):
        problems.append("a double of magnitude up to %.10g is converted directly to '%s' (range +-%.10g): undefined for |frac(d)| >= %.3g, "
                        "e.g. dtot32(0.75) != dtot32(-0.25)" % (b, ty, cap, cap / b if b != float("inf") else 0))
    chk.require(not problems, "R5", key, where=f.where,
                ok="trunc(frac(d)*2^32) through '%s' (|value| < %.10g <= %.10g), then reduced modulo 2^32" % (ty, b, cap),
                bad="; ".join(problems), variant=vn)
    chk.vcount(vn, "R5.real_to_torus_conversions")


def run(chk):
    prog = Program()
    chk.explanation = (
        "The three rounding functions are folded to closed terms; with Msize = 2^m the interval expression normalises "
        "to 2^(64-m) and the half interval to 2^(63-m) (division of powers of two is exact because 63-m >= 0), which "
        "puts modSwitchFromTorus32 in the rounding form (x + 2^(s-1)) >> s; approxPhase and modSwitchToTorus32 are "
        "compared with it on normal forms. Arithmetic types are read from the AST.")
    chk.trusted = ["clang 14 front end", "summariser", "power-of-two algebra (sa/bits.py)"]
    chk.assume("Msize is a power of two 2^m with 1 <= m <= 30 (covers 2N = 2048, 8 and 4, every use inside the library)")
    m = sym.sym("m")
    for v in prog.variants():
        vn = v.name
        chk.analysed["variants"] = chk.analysed.get("variants", 0) + 1
        # R6 the rounding functions shift unsigned 64-bit quantities only
        from sa import shifts as _shifts
        _shifts.check(chk, v, "R6", ["libtfhe/numeric-functions.cpp"], "torus rounding")
        vals, intervals = {}, {}
        for name in FNS:
            f = v.fn(name)
            val = ret_value(v, f)
            if val is None:
                chk.broken("%s: not a single closed return expression" % name)
            vals[name] = (f, strip(val))
            chk.vcount(vn, "R1.rounding_functions")
        check_double_conversion(chk, v)
        # ---- modSwitchFromTorus32
        f, val = vals["modSwitchFromTorus32"]
        ph, M = sym.sym(f.params[0]["n"]), sym.sym(f.params[1]["n"])
        env = {M: m}
        key = "modSwitchFromTorus32 is ((p*2^32 + 2^(s-1)) mod 2^64) >> s with s = 64 - m"
        problems = []
        s_exp = None
        if not (val[0] == "op" and val[1] in ("/", ">>")):
            problems.append("result %s is not a quotient" % sym.show(val))
        else:
            num, den = val[2], val[3]
            s_exp = bits.pow2_exp(den, env) if val[1] == "/" else den
            if s_exp is None:
                problems.append("divisor %s is not a power of two when Msize is" % sym.show(den))
            elif s_exp != sym.sub(I(64), m):
                problems.append("interval is 2^(%s), expected 2^(64-m)" % sym.show(s_exp))
            intervals["modSwitchFromTorus32"] = den
            # numerator = p*2^32 + half
            rest = sym.sub(num, sym.mul(ph, I(1 << 32)))
            if sym.contains(rest, ph):
                problems.append("numerator %s is not p*2^32 + constant" % sym.show(num))
            else:
                e = bits.pow2_exp(rest, env)
                if rest == ZERO:
                    problems.append("no half interval is added: the function truncates instead of rounding to nearest")
                elif e is None or s_exp is None or e != sym.sub(s_exp, I(1)):
                    problems.append("added constant is 2^(%s), half of the interval is 2^(%s)" % (
                        sym.show(e) if e is not None else sym.show(rest), sym.show(sym.sub(s_exp, I(1))) if s_exp is not None else "?"))
        # exactness of 2^63 / 2^m
        if not affine.prove_nonneg(sym.sub(I(63), m), [sym.sub(m, I(1)), sym.sub(I(30), m)]):
            problems.append("63 - m >= 0 not established")
        chk.require(not problems, "R1", key, where=f.where, ok="interval 2^(64-m), half interval 2^(63-m), numerator p*2^32 + half",
                    bad="; ".join(problems), variant=vn)
        X_from = val[2] if val[0] == "op" else None
        # ---- approxPhase
        f2, val2 = vals["approxPhase"]
        ph2, M2 = sym.sym(f2.params[0]["n"]), sym.sym(f2.params[1]["n"])
        ren = {ph2: ph, M2: M}
        v2 = sym.subst(val2, ren)
        key2 = "approxPhase == modSwitchToTorus32(modSwitchFromTorus32(phase)) on normal forms"
        problems = []
        facts_m = [sym.sub(m, I(1)), sym.sub(I(30), m)]
        sl = bits.slice_of(v2, {M: m}, facts_m)
        if sl is None:
            chk.broken("approxPhase: the bit range selected by %s cannot be compared" % sym.show(v2)[:100])
        X, a_, b_, c_ = sl
        if sym.contains(X, ph) and (a_, b_, c_) == (ZERO, I(64), ZERO):
            problems.append("result %s does not round the phase to a multiple of the interval" % sym.show(v2)[:120])
        else:
            want_s = sym.sub(I(64), m)
            if a_ != want_s or b_ != I(64):
                problems.append("approxPhase keeps bits [%s, %s) of the offset phase, the interval index is bits [64-m, 64)" % (sym.show(a_), sym.show(b_)))
            if c_ != sym.sub(want_s, I(32)):
                problems.append("the interval index is placed at bit %s of the result, expected %s (index * 2^(32-m))" % (sym.show(c_), sym.show(sym.sub(want_s, I(32)))))
            if X_from is not None and bits.normalize(X, env) != bits.normalize(X_from, env):
                problems.append("rounded quantity %s differs from modSwitchFromTorus32's %s" % (sym.show(X), sym.show(X_from)))
            intervals["approxPhase"] = ("op", "<<", I(1), a_)
        chk.require(not problems, "R2", key2, where=f2.where, ok="bits [64-m, 64) of the same X = p*2^32 + I/2, placed at bit 32-m: "
                    "floor(X / I) * I >> 32", bad="; ".join(problems), variant=vn)
        # ---- modSwitchToTorus32
        f3, val3 = vals["modSwitchToTorus32"]
        mu, M3 = sym.sym(f3.params[0]["n"]), sym.sym(f3.params[1]["n"])
        v3 = sym.subst(val3, {M3: M})
        key3 = "modSwitchToTorus32(mu) = mu * 2^(32-m), inverse of the rounding on [0, M)"
        problems = []
        if not (v3[0] == "op" and v3[1] == ">>" and v3[3] == I(32)):
            problems.append("result %s is not (mu * interval) >> 32" % sym.show(v3))
        else:
            lin = sym.linear_in(v3[2], mu)
            if lin is None or lin[1] != ZERO:
                problems.append("%s is not mu * interval" % sym.show(v3[2]))
            else:
                intervals["modSwitchToTorus32"] = lin[0]
                e = bits.pow2_exp(lin[0], env)
                if e is None or e != sym.sub(I(64), m):
                    problems.append("weight is 2^(%s), expected 2^(64-m)" % (sym.show(e) if e is not None else sym.show(lin[0])))
        chk.require(not problems, "R3", key3, where=f3.where, ok="(mu * 2^(64-m)) >> 32 = mu * 2^(32-m); mu*2^s + 2^(s-1) rounds back to mu",
                    bad="; ".join(problems), variant=vn)
        # ---- R4 same interval, unsigned 64-bit arithmetic
        iv = {k: sym.subst(t, {M2: M, M3: M}) for k, t in intervals.items()}
        same = len({bits.normalize(t, env) for t in iv.values()}) == 1 and len(iv) == 3
        chk.require(same, "R4", "the three functions use the same interval (compared on power-of-two normal forms)", where=f.where,
                    ok=sym.show(next(iter(iv.values()))) if iv else "", bad="; ".join("%s: %s" % (k, sym.show(t)) for k, t in iv.items()), variant=vn)
        for name in FNS:
            fn, _ = vals[name]
            bad = []
            n_ops = 0
            bodies = [fn.d.get("body")]
            seen_h = set()
            for body_ in bodies:
                for c_ in walk(body_):
                    g_ = v.defs.get(c_.get("cusr")) if c_.get("k") == "call" else None
                    if g_ is not None and g_.get("static") and not g_.get("record") and g_.usr not in seen_h:
                        seen_h.add(g_.usr)
                        bodies.append(g_.d.get("body"))          # file-local helpers are part of the function
            for n in walk(bodies):
                if n.get("k") == "bin" and n.get("op") in ("/", "%", ">>", "<<", "+", "*", "-") or \
                        (n.get("k") == "assign" and n.get("op") in ("-=", "+=")):
                    t = n.get("t", "")
                    if n.get("k") == "bin" and n.get("op") == "<<" and "cv" in n:
                        continue
                    n_ops += 1
                    if t != "unsigned long":
                        bad.append("%s at line %s has type %s" % (n.get("op"), n["l"], t))
            chk.require(not bad and n_ops > 0, "R4", "%s computes in unsigned 64-bit arithmetic" % name, where=fn.where,
                        ok="%d arithmetic nodes, all uint64" % n_ops, bad="; ".join(bad)[:300], variant=vn, nontrivial=False)
