"""C01 — every homomorphic gate computes its Boolean function.

Decides the *encoding table*: for each of the 14 gates the affine combination the code builds, evaluated over all
admissible input phases (+-1/8 +- 1/32 per input, as exact rational intervals on the torus), lies strictly inside
the half-torus whose sign the truth table demands, and the value then bootstrapped / returned is +-1/8 with the
right sign; bit encoding and sign decoding agree with it.
R4 re-evaluates, for the FFT path the gates use, the exact bootstrapping-chain rules of C04 (modulus switch to 2N, initial
rotation X^(2N-barb) with the barb = 0 copy, rotation loop, extraction, test vector, final key switch).
Not decided: FFT accuracy and the external product's error (C09/C10) and that noise stays inside the margin (C02).
R5 no function-local static reachable from a gate is initialised from run-time values (a gate is a function of its
arguments: the first call's key or parameters must not be remembered).
"""
from fractions import Fraction as Fr
from itertools import product

from sa import summ, sym
import re
from sa.facts import Program, walk
from sa.sym import I, ZERO

P = lambda p, f: sym.arrow(sym.sym(p), f)
NOINLINE = summ.LOCAL_HELPERS

TRUTH = {
    "NAND": lambda a, b: 1 - (a & b), "OR": lambda a, b: a | b, "AND": lambda a, b: a & b, "XOR": lambda a, b: a ^ b,
    "XNOR": lambda a, b: 1 - (a ^ b), "NOR": lambda a, b: 1 - (a | b), "ANDNY": lambda a, b: (1 - a) & b,
    "ANDYN": lambda a, b: a & (1 - b), "ORNY": lambda a, b: (1 - a) | b, "ORYN": lambda a, b: a | (1 - b),
    "MUX": lambda a, b, c: b if a else c, "NOT": lambda a: 1 - a, "COPY": lambda a: a,
}
NOISE = Fr(1, 32)
ENC = {1: Fr(1, 8), 0: Fr(-1, 8)}


def torus_const(t):
    """modSwitchToTorus32(c, M) with literal arguments, read as the rational c/M (C13.R3)"""
    if t == ZERO:
        return Fr(0)
    if t[0] == "call" and t[1] == "modSwitchToTorus32" and t[2][0][0] == "int" and t[2][1][0] == "int" and t[2][1][1] > 0:
        return Fr(t[2][0][1], t[2][1][1])
    if t[0] == "poly" and len(t[1]) == 1 and len(t[1][0][0]) == 1:
        inner = torus_const(t[1][0][0][0])
        if inner is not None:
            return inner * t[1][0][1]
    return None


def centre(x):
    """representative of x mod 1 in [-1/2, 1/2)"""
    y = x - (x.numerator // x.denominator)
    if y >= Fr(1, 2):
        y -= 1
    return y


class Form:
    """K + sum_j p_j * c_j  over named ciphertext operands"""

    def __init__(self):
        self.k = Fr(0)
        self.coef = {}
        self.defined = False

    def copy(self):
        f = Form()
        f.k, f.coef, f.defined = self.k, dict(self.coef), self.defined
        return f


def gate_flow(ps, ins):
    """forward interpretation of the LWE calls of a gate body, in execution order (static helpers are inlined, a temporary may
    be reused): every temporary holds a Form over the gate's input samples and over the outputs of the bootstraps met so far
    (operand ("boot", k): exactly +-mu_k, the sign decided by the form that was bootstrapped).
    -> (forms at the end, bootstraps [{p, form, mu, dst, opd}], key switches [{p, form, dst}]) or (None, reason, None)"""
    forms, boots, kss = {}, [], []

    def form_of(t):
        if t in ins:
            fm = Form()
            fm.defined = True
            fm.coef[t] = 1
            return fm
        return forms.get(t)

    def add_into(dst, src, coef):
        dst.k += coef * src.k
        for o, c in src.coef.items():
            dst.coef[o] = dst.coef.get(o, 0) + coef * c
            if dst.coef[o] == 0:
                del dst.coef[o]
    for p in ps:
        if p["kind"] != "call" or p["eff"].get("noreturn"):
            continue
        n, a = p["name"], p["args"]
        known = n in ("lweNoiselessTrivial", "lweAddTo", "lweSubTo", "lweAddMulTo", "lweSubMulTo", "lweCopy", "lweNegate", "lweClear", "lweKeySwitch") \
            or n.startswith("tfhe_bootstrap")
        if known and (p["guards"] or p["loops"]):
            return None, "%s at line %s is under a condition or in a loop" % (n, p["line"]), None
        if n == "lweNoiselessTrivial":
            k = torus_const(a[1])
            fm = Form()
            fm.defined = True
            if k is None:
                return None, "constant %s at line %s is not a literal torus value" % (sym.show(a[1]), p["line"]), None
            fm.k = k
            forms[a[0]] = fm
        elif n in ("lweAddTo", "lweSubTo", "lweAddMulTo", "lweSubMulTo"):
            dst = a[0]
            if n in ("lweAddTo", "lweSubTo"):
                coef, src = (1 if n == "lweAddTo" else -1), a[1]
            else:
                c = sym.const_value(a[1])
                if c is None:
                    return None, "non-literal multiplier at line %s" % p["line"], None
                coef, src = (c if n == "lweAddMulTo" else -c), a[2]
            sf = form_of(src)
            if dst not in forms or sf is None:
                return None, "%s applied to an undefined temporary at line %s" % (n, p["line"]), None
            add_into(forms[dst], sf.copy(), coef)
        elif n in ("lweCopy", "lweNegate"):
            sf = form_of(a[1])
            if sf is None:
                return None, "%s reads an undefined temporary at line %s" % (n, p["line"]), None
            fm = Form()
            fm.defined = True
            add_into(fm, sf, 1 if n == "lweCopy" else -1)
            forms[a[0]] = fm
        elif n == "lweClear":
            fm = Form()
            fm.defined = True
            forms[a[0]] = fm
        elif n.startswith("tfhe_bootstrap"):
            sf = form_of(a[3])
            opd = ("boot", len(boots))
            boots.append({"p": p, "form": None if sf is None else sf.copy(), "mu": torus_const(a[2]), "dst": a[0], "opd": opd})
            fm = Form()
            fm.defined = True
            fm.coef[opd] = 1
            forms[a[0]] = fm
        elif n == "lweKeySwitch":
            sf = form_of(a[2])
            kss.append({"p": p, "form": None if sf is None else sf.copy(), "dst": a[0]})
            fm = Form()
            fm.defined = True
            fm.coef[("ks", len(kss) - 1)] = 1
            forms[a[0]] = fm
    return forms, boots, kss


def gate_encoding(chk, v, vn, rule):
    """bootsSymEncrypt / bootsSymDecrypt: bit <-> +-1/8 by the sign of the phase, decided by evaluation (shared with C03.R4)"""
    be = v.fn("bootsSymEncrypt")
    bps, _ = summ.pieces(v, be, hooks=NOINLINE)
    enc = [p for p in bps if p["kind"] == "call" and p["name"] == "lweSymEncrypt"]
    msg = sym.sym(be.params[1]["n"])
    eighth = ("call", "modSwitchToTorus32", (I(1), I(8)))
    # the message argument is evaluated at message = 0 and at several non-zero values (tables of constants are read through)
    ok, why = len(enc) == 1, "%d calls of lweSymEncrypt" % len(enc)
    if ok and enc[0]["args"][3] != P(be.params[2]["n"], "lwe_key"):
        ok, why = False, "encrypted under %s" % sym.show(enc[0]["args"][3])
    if ok:
        load = summ.table_loader(bps)
        for m in (0, 1, 2, -1, 255):
            val = sym.fold(sym.subst(enc[0]["args"][1], {msg: I(m)}), load)
            q = torus_const(val)
            if q is None:
                chk.broken("bootsSymEncrypt: the encoded message %s is not a torus constant at message = %d" % (sym.show(val)[:120], m))
            if q != ENC[1 if m else 0]:
                ok, why = False, "message = %d is encoded as %s, expected %s" % (m, q, ENC[1 if m else 0])
                break
    chk.require(ok, rule, "bootsSymEncrypt encodes 1 as +1/8 and 0 as -1/8", where=be.where, ok="message ? +1/8 : -1/8 (evaluated at 0, 1, 2, -1, 255)",
                bad=[why] + [sym.show(c["args"][1]) for c in enc], variant=vn)
    bd = v.fn("bootsSymDecrypt")
    dps, _ = summ.pieces(v, bd, hooks=NOINLINE)
    r = [p for p in dps if p["kind"] == "return"]
    s_, k_ = [p["n"] for p in bd.params]
    ph = ("call", "lwePhase", (sym.sym(s_), P(k_, "lwe_key")))
    # the returned value is a function of the phase through comparisons with literals only: it is evaluated at every
    # breakpoint c, c-1, c+1 and at the ends of the Torus32 range, and must be 1 exactly for a positive phase
    cuts, other = set(), []

    def scan(t, under=None):
        if t == ph:
            if under is None:
                other.append(t)
            return
        if not isinstance(t, tuple) or not t:
            return
        if isinstance(t[0], str) and t[0] == "op" and t[1] in ("<", "<=", ">", ">=", "==", "!=") and ph in (t[2], t[3]):
            o = t[3] if t[2] == ph else t[2]
            if o[0] == "int":
                cuts.add(o[1])
                return
        if isinstance(t[0], str) and t[0] == "poly":
            for m_, _c in t[1]:
                for x in m_:
                    scan(x)
            return
        for x in t[1:] if isinstance(t[0], str) else t:
            if isinstance(x, tuple):
                scan(x)
    for p in r:
        for g_ in p["guards"]:
            scan(g_)
        scan(p["val"])
    if other or not r:
        chk.broken("bootsSymDecrypt: the result uses the phase outside comparisons with literals: %s" % [sym.show(p["val"])[:80] for p in r])
    pts = sorted({c + d for c in cuts for d in (-1, 0, 1)} | {-2 ** 31, 2 ** 31 - 1, 0, 1, -1})
    ok, why = True, ""
    from sa.secretflow import eval_term
    for x in pts:
        outs = []
        for p in r:
            gs = [eval_term(g_, {ph: x}) for g_ in p["guards"]]
            if None in gs:
                chk.broken("bootsSymDecrypt: guard not evaluable at phase %d" % x)
            if all(gs):
                outs.append(eval_term(p["val"], {ph: x}))
        if len(outs) != 1 or outs[0] is None:
            chk.broken("bootsSymDecrypt: %d return values at phase %d" % (len(outs), x))
        if outs[0] != (1 if x > 0 else 0):
            ok, why = False, "a phase of %d/2^32 decodes to %d" % (x, outs[0])
            break
    chk.require(ok, rule, "bootsSymDecrypt decodes by the sign of the phase", where=bd.where, ok="phase > 0 ? 1 : 0 (evaluated at %d phases)" % len(pts),
                bad=[why] + [summ.show_piece(p)[:100] for p in r], variant=vn)


def run(chk):
    prog = Program()
    chk.explanation = (
        "Each gate body is reduced to a linear form K + sum p_j*c_j over its ciphertext parameters (constants read from "
        "modSwitchToTorus32(c, M) with literal arguments as c/M); for every row of the gate's truth table the interval "
        "K + sum p_j*(+-1/8 +- 1/32) is computed in exact rationals mod 1 and must lie strictly inside (0,1/2) when the "
        "row's output is 1 and inside (-1/2,0) when it is 0; the terminal operation must bootstrap that temporary into "
        "the result with mu = +1/8.")
    chk.trusted = ["clang 14 front end", "summariser", "the 14 truth tables in rules/c01.py (oracle)"]
    chk.assume("modSwitchToTorus32(c, M) with literal power-of-two M is c/M exactly (C13.R3); lwe linear operations act as their names say (C14.R1)")
    chk.assume("a sign bootstrap returns +mu for phases in (0,1/2) and -mu for phases in (-1/2,0) (C04)")
    for v in prog.variants():
        vn = v.name
        chk.analysed["variants"] = chk.analysed.get("variants", 0) + 1
        gates = {f.name[5:]: f for f in v.defined() if f.name.startswith("boots") and f.name[5:].isupper() and f.get("externC")}
        missing = sorted((set(TRUTH) | {"CONSTANT"}) - set(gates))
        if missing:
            chk.broken("gates not found: %s" % missing)
        for g, f in sorted(gates.items()):
            ps, _ = summ.pieces(v, f, hooks=NOINLINE)
            names = [p["n"] for p in f.params]
            res = sym.sym(names[0])
            ins = [sym.sym(p["n"]) for p in f.params[1:] if "LweSample" in p["t"]]
            bk = next((p["n"] for p in f.params if "CloudKeySet" in p["t"]), None)
            cs = [p for p in ps if p["kind"] == "call" and not p["eff"].get("noreturn")]
            chk.vcount(vn, "R1.gates")
            if g == "CONSTANT":
                tr = [c for c in cs if c["name"] == "lweNoiselessTrivial"]
                val = sym.sym(names[1])
                ok = len(tr) == 1 and tr[0]["args"][0] == res and not tr[0]["guards"] and not tr[0]["loops"]
                if ok:
                    load = summ.table_loader(ps)
                    for m in (0, 1, 2, -1, 255):
                        q = torus_const(sym.fold(sym.subst(tr[0]["args"][1], {val: I(m)}), load))
                        if q is None:
                            chk.broken("bootsCONSTANT: the message %s is not a torus constant at value = %d" % (sym.show(tr[0]["args"][1])[:100], m))
                        ok = ok and q == ENC[1 if m else 0]
                chk.require(ok, "R1", "bootsCONSTANT returns the trivial sample (0, value ? +1/8 : -1/8)", where=f.where,
                            ok="lweNoiselessTrivial(result, value ? MU : -MU)", bad=[summ.show_piece(c)[:120] for c in cs], variant=vn)
                continue
            forms, flow_boots, flow_kss = gate_flow(ps, ins)
            if forms is None:
                chk.broken("%s: %s" % (f.name, flow_boots))
            boots = [b_["p"] for b_ in flow_boots]
            kss = [k_["p"] for k_ in flow_kss]
            after = lambda c0: cs[next(i_ for i_, c_ in enumerate(cs) if c_ is c0) + 1:]
            table = TRUTH[g]
            nin = len(ins)
            rows = list(product((0, 1), repeat=nin))
            where = f.where
            if g in ("NOT", "COPY"):
                fm = forms.get(res)
                ok = fm is not None and not boots and fm.k == 0 and fm.coef == {ins[0]: (-1 if g == "NOT" else 1)}
                chk.require(ok, "R1", "boots%s is the noise-free map %sc" % (g, "-" if g == "NOT" else "+"), where=where,
                            ok="result = %sca" % ("-" if g == "NOT" else ""), bad="form: %s" % (None if fm is None else str((fm.k, {sym.show(k): c for k, c in fm.coef.items()}))),
                            variant=vn)
                for row in rows:
                    chk.proved("R1", "boots%s row %s -> %d" % (g, row, table(*row)), where=where, detail="sign of %s(+-1/8 +- 1/32)" % ("-" if g == "NOT" else "+"),
                               variant=vn, nontrivial=False)
                continue

            def eval_rows(fm, operand_interval, label):
                """check every row; operand_interval(operand, row) -> (centre, radius)"""
                out = []
                for row in rows:
                    c, r = fm.k, Fr(0)
                    for opd, coef in fm.coef.items():
                        oc, orad = operand_interval(opd, row)
                        c += coef * oc
                        r += abs(coef) * orad
                    cc = centre(c)
                    want = table(*row)
                    lo, hi = cc - r, cc + r
                    ok = (lo > 0 and hi < Fr(1, 2)) if want == 1 else (lo > Fr(-1, 2) and hi < 0)
                    margin = min(abs(lo), abs(hi), abs(Fr(1, 2) - abs(hi)), abs(Fr(1, 2) - abs(lo)))
                    out.append((row, want, ok, cc, r, margin))
                return out

            if g != "MUX":
                problems = []
                if len(boots) != 1 or boots[0]["name"] != "tfhe_bootstrap_FFT":
                    problems.append("expected exactly one tfhe_bootstrap_FFT, found %s" % [c["name"] for c in boots])
                    chk.refuted("R3", "boots%s bootstraps its linear form into the result" % g, where=where, detail="; ".join(problems), variant=vn)
                    continue
                b = boots[0]
                mu = flow_boots[0]["mu"]
                fm = flow_boots[0]["form"]
                ok3 = b["args"][0] == res and fm is not None and b["args"][1] == sym.arrow(P(bk, "bkFFT"), None) if False else (
                    b["args"][0] == res and fm is not None and b["args"][1] == P(bk, "bkFFT"))
                later = [c for c in after(b) if any(a == res for a in c["args"] if a is not None)]
                chk.require(ok3 and not later and mu is not None and mu > 0, "R3", "boots%s bootstraps the temporary holding its form into result with mu > 0, and does not touch result afterwards" % g,
                            where=where, ok="tfhe_bootstrap_FFT(result, bk->bkFFT, %s, temp)" % mu,
                            bad="bootstrap args %s, mu = %s, later writers %s" % ([sym.show(a)[:30] for a in b["args"]], mu, [c["name"] for c in later]), variant=vn)
                if fm is None:
                    continue
                if set(fm.coef) - set(ins):
                    chk.broken("boots%s: form uses non-input operands" % g)
                res_rows = eval_rows(fm, lambda opd, row: (ENC[row[ins.index(opd)]], NOISE), g)
                for row, want, ok, cc, r, margin in res_rows:
                    chk.require(ok, "R1", "boots%s row %s -> %d" % (g, row, want), where=where,
                                ok="phase in [%s, %s], margin %s" % (cc - r, cc + r, margin),
                                bad="form %s%s gives phase interval [%s, %s], which is not strictly inside the %s half-torus" % (
                                    fm.k, "".join(" %+d*%s" % (c, sym.show(o)) for o, c in fm.coef.items()), cc - r, cc + r,
                                    "positive" if want else "negative"), variant=vn,
                                data={"K": str(fm.k), "coef": {sym.show(o): c for o, c in fm.coef.items()}})
            else:
                problems = []
                wo = [c for c in boots if c["name"] == "tfhe_bootstrap_woKS_FFT"]
                if len(wo) != 2 or len(boots) != 2 or len(kss) != 1:
                    chk.refuted("R3", "bootsMUX = two bootstraps without key switch, one key switch", where=where,
                                detail="bootstraps %s, key switches %d" % ([c["name"] for c in boots], len(kss)), variant=vn)
                    continue
                # temporaries may be reused: gate_flow gives the form each bootstrap was applied to at that moment
                inter = {}
                okall = True
                for b_ in flow_boots:
                    fm, mu = b_["form"], b_["mu"]
                    if fm is None or mu is None or mu <= 0 or set(fm.coef) - set(ins):
                        okall = False
                        break
                    inter[b_["opd"]] = (fm, mu)
                ksw = kss[0]
                ffm = flow_kss[0]["form"]
                ok3 = okall and ffm is not None and ksw["args"][0] == res and ksw["args"][1] == sym.arrow(P(bk, "bkFFT"), "ks") and \
                    set(ffm.coef) == set(inter) and not [c for c in after(ksw) if res in [a for a in c["args"] if a is not None]]
                chk.require(ok3, "R3", "bootsMUX: result is written only by the final key switch of a private combination of the two bootstrapped values",
                            where=where, ok="u1, u2 = woKS bootstraps; lweKeySwitch(result, bk->bkFFT->ks, MuxConst + u1 + u2)",
                            bad="structure not recognised", variant=vn)
                if not ok3:
                    continue
                for row in rows:
                    want = table(*row)
                    # each intermediate is exactly +-mu, decided by the sign of its form over the admissible inputs
                    vals = {}
                    bad = None
                    for u, (fm, mu) in inter.items():
                        c, r = fm.k, Fr(0)
                        for opd, coef in fm.coef.items():
                            c += coef * ENC[row[ins.index(opd)]]
                            r += abs(coef) * NOISE
                        cc = centre(c)
                        if cc - r > 0 and cc + r < Fr(1, 2):
                            vals[u] = mu
                        elif cc + r < 0 and cc - r > Fr(-1, 2):
                            vals[u] = -mu
                        else:
                            bad = "intermediate form %s + ... has phase interval [%s, %s] straddling a sign boundary" % (fm.k, cc - r, cc + r)
                    if bad is None:
                        tot = centre(ffm.k + sum(coef * vals[u] for u, coef in ffm.coef.items()))
                        okr = tot == (Fr(1, 8) if want else Fr(-1, 8))
                        if not okr:
                            bad = "final combination %s%s evaluates to %s, expected %s" % (
                                ffm.k, "".join(" %+d*u" % c for c in ffm.coef.values()), tot, Fr(1, 8) if want else Fr(-1, 8))
                    chk.require(bad is None, "R1", "bootsMUX row %s -> %d" % (row, want), where=where,
                                ok="u = %s; output phase exactly %s1/8" % ([str(x) for x in vals.values()], "+" if want else "-"), bad=bad or "", variant=vn)
        # ---------------- R4 the sign-bootstrap chain the gates call (C04's rules re-evaluated for the FFT path, plus the
        # monomial map and the extraction map they rest on)
        from rules import c04, c11, c14
        sub = c04._Sub(chk, "R4")
        c04.evaluate(sub, v, ("_FFT",))
        c14.check_extraction(sub, v, rule="R4")
        c11.check_monomial(sub, v, "torusPolynomialMulByXai", "coefsT", False)
        c11.check_monomial(sub, v, "torusPolynomialMulByXaiMinusOne", "coefsT", True)
        c14.check_tlwe_monomial(sub, v)          # the (X^ai - 1) step of every CMux, on all k+1 components of the accumulator
        # the gadget decomposition every external product of the blind rotation starts with (C12's rules, in this variant's path:
        # C loops in the debug build, the AVX2 blocks in the optim build)
        from rules import c12
        c12.check_variant(c04._Sub(chk, "R4", skip={"R4", "R8"}), v)
        # ---------------- R5 a gate is a function of its arguments: no function-local static of the gates or of the code they
        # reach is initialised from run-time values (it would keep the value of the first call, e.g. the first key's parameters)
        from sa.symexec import run_function as _run, Hooks as _Hooks, flat as _flat
        gate_fns = [f for f in v.defined() if f.name.startswith("boots") and f.name[5:].isupper() and f.get("externC")]
        closure = v.reachable([f.usr for f in gate_fns])
        once = []
        nstat = 0
        for u in closure:
            g = v.defs.get(u)
            if g is None or not g.file.startswith(("libtfhe", "include")):
                continue
            has_static = any(isinstance(n_, dict) and n_.get("k") == "var" and n_.get("static") for n_ in walk(g.d.get("body")))
            if not has_static:
                continue
            nstat += 1
            eff_, _, _ = _run(v, g, hooks=_Hooks())
            for x in _flat(eff_):
                if x["e"] == "store" and x.get("once"):
                    # an initialiser built only from members of `this` in a class whose every instance is a static object
                    # constructed from literals (the FFT processors, fp1024(1024)) is the same in every call
                    ats = [a for a in sym.atoms(x["val"]) if a[0] in ("sym", "fld", "var", "glob")]
                    this0 = sym.idx(sym.sym("this"), sym.ZERO)
                    only_this = bool(ats) and all(a == sym.sym("this") or (a[0] == "fld" and a[1] == this0) for a in ats)
                    if only_this and g.get("record"):
                        insts = [s_ for s_ in v.statics.values() if s_.get("definition") and re.sub(r"\bconst\b|\s", "", s_["t"]) == g.record]
                        lit = insts and all(all(isinstance(a_, dict) and a_.get("k") == "int" or (isinstance(a_, dict) and "cv" in a_)
                                                for a_ in (s_.get("init") or {}).get("args", [])) for s_ in insts)
                        news = any(n_.get("k") == "new" and n_.get("alloc") == g.record for fn_ in v.defined() for n_ in walk(fn_.d.get("body")))
                        if lit and not news:
                            chk.note("%s: static %s is initialised once from members of the single literal-constructed %s object(s) %s" % (
                                g.name, sym.show(x["lv"]), g.record, [s_["name"] for s_ in insts]))
                            continue
                    if not ats and isinstance(x["val"], tuple) and (x["val"][0] in ("int", "float") or (x["val"][0] == "obj" and not x["val"][2])):
                        continue        # a literal or a default construction: no run-time value enters the initialiser
                    once.append("%s: static %s is initialised once with %s (line %s)" % (g.name, sym.show(x["lv"]), sym.show(x["val"])[:60], x["l"]))
        chk.vcount(vn, "R5.functions_with_static_locals", nstat)
        chk.require(not once, "R5", "no function-local static reachable from a gate is initialised from run-time values", where="libtfhe/boot-gates.cpp",
                    ok="%d function(s) with static locals in the closure of the gates, all with constant initialisers" % nstat,
                    bad="; ".join(sorted(set(once))[:3]) + " -- the value of the FIRST call is kept for every later call, whatever key or parameter set it is given",
                    variant=vn)
        # ---------------- R2 encode / decode
        gate_encoding(chk, v, vn, "R2")
