"""C01 — every homomorphic gate computes its Boolean function.

Decides the *encoding table*: for each of the 14 gates the affine combination the code builds, evaluated over all
admissible input phases (+-1/8 +- 1/32 per input, as exact rational intervals on the torus), lies strictly inside
the half-torus whose sign the truth table demands, and the value then bootstrapped / returned is +-1/8 with the
right sign; bit encoding and sign decoding agree with it.
R4 re-evaluates, for the FFT path the gates use, the exact bootstrapping-chain rules of C04 (modulus switch to 2N, initial
rotation X^(2N-barb) with the barb = 0 copy, rotation loop, extraction, test vector, final key switch).
Not decided: FFT accuracy and the external product's error (C09/C10) and that noise stays inside the margin (C02).
R5 no function-local static reachable from a gate is initialised from run-time values (a gate is a function of its
arguments: the first call's key or parameters must not be remembered).
"""
from fractions import Fraction as Fr
from itertools import product

from sa import summ, sym
import re
from sa.facts import Program, walk
from sa.sym import I, ZERO

P = lambda p, f: sym.arrow(sym.sym(p), f)
NOINLINE = summ.LOCAL_HELPERS

TRUTH = {
    "NAND": lambda a, b: 1 - (a & b), "OR": lambda a, b: a | b, "AND": lambda a, b: a & b, "XOR": lambda a, b: a ^ b,
    "XNOR": lambda a, b: 1 - (a ^ b), "NOR": lambda a, b: 1 - (a | b), "ANDNY": lambda a, b: (1 - a) & b,
    "ANDYN": lambda a, b: a & (1 - b), "ORNY": lambda a, b: (1 - a) | b, "ORYN": lambda a, b: a | (1 - b),
    "MUX": lambda a, b, c: b if a else c, "NOT": lambda a: 1 - a, "COPY": lambda a: a,
}
NOISE = Fr(1, 32)
ENC = {1: Fr(1, 8), 0: Fr(-1, 8)}


def torus_const(t):
    """modSwitchToTorus32(c, M) with literal arguments, read as the rational c/M (C13.R3)"""
    if t == ZERO:
        return Fr(0)
    if t[0] == "call" and t[1] == "modSwitchToTorus32" and t[2][0][0] == "int" and t[2][1][0] == "int" and t[2][1][1] > 0:
        return Fr(t[2][0][1], t[2][1][1])
    if t[0] == "poly" and len(t[1]) == 1 and len(t[1][0][0]) == 1:
        inner = torus_const(t[1][0][0][0])
        if inner is not None:
            return inner * t[1][0][1]
    return None


def centre(x):
    """representative of x mod 1 in [-1/2, 1/2)"""
    y = x - (x.numerator // x.denominator)
    if y >= Fr(1, 2):
        y -= 1
    return y


class Form:
    """K + sum_j p_j * c_j  over named ciphertext operands"""

    def __init__(self):
        self.k = Fr(0)
        self.coef = {}
        self.defined = False

    def copy(self):
        f = Form()
        f.k, f.coef, f.defined = self.k, dict(self.coef), self.defined
        return f


def linear_forms(v, f, ps, fresh_outputs):
    """interpret the LWE linear calls of a gate body: temp name -> Form.  fresh_outputs: temps written by a bootstrap
    (abstracted as an exact +-MU operand named after the temp)."""
    forms = {}
    log = []
    for p in ps:
        if p["kind"] != "call" or p["eff"].get("noreturn"):
            continue
        n, a = p["name"], p["args"]
        if n == "lweNoiselessTrivial":
            k = torus_const(a[1])
            fm = Form()
            fm.defined = True
            if k is None:
                return None, "constant %s at line %s is not a literal torus value" % (sym.show(a[1]), p["line"])
            fm.k = k
            forms[a[0]] = fm
        elif n in ("lweAddTo", "lweSubTo", "lweAddMulTo", "lweSubMulTo"):
            dst = a[0]
            if n in ("lweAddTo", "lweSubTo"):
                coef, src = (1 if n == "lweAddTo" else -1), a[1]
            else:
                c = sym.const_value(a[1])
                if c is None:
                    return None, "non-literal multiplier at line %s" % p["line"]
                coef, src = (c if n == "lweAddMulTo" else -c), a[2]
            if dst not in forms:
                return None, "%s applied to an undefined temporary at line %s" % (n, p["line"])
            forms[dst].coef[src] = forms[dst].coef.get(src, 0) + coef
        elif n in ("lweCopy", "lweNegate"):
            fm = Form()
            fm.defined = True
            fm.coef[a[1]] = 1 if n == "lweCopy" else -1
            forms[a[0]] = fm
        elif n == "lweClear":
            fm = Form()
            fm.defined = True
            forms[a[0]] = fm
        log.append(n)
    return forms, ""


def run(chk):
    prog = Program()
    chk.explanation = (
        "Each gate body is reduced to a linear form K + sum p_j*c_j over its ciphertext parameters (constants read from "
        "modSwitchToTorus32(c, M) with literal arguments as c/M); for every row of the gate's truth table the interval "
        "K + sum p_j*(+-1/8 +- 1/32) is computed in exact rationals mod 1 and must lie strictly inside (0,1/2) when the "
        "row's output is 1 and inside (-1/2,0) when it is 0; the terminal operation must bootstrap that temporary into "
        "the result with mu = +1/8.")
    chk.trusted = ["clang 14 front end", "summariser", "the 14 truth tables in rules/c01.py (oracle)"]
    chk.assume("modSwitchToTorus32(c, M) with literal power-of-two M is c/M exactly (C13.R3); lwe linear operations act as their names say (C14.R1)")
    chk.assume("a sign bootstrap returns +mu for phases in (0,1/2) and -mu for phases in (-1/2,0) (C04)")
    for v in prog.variants():
        vn = v.name
        chk.analysed["variants"] = chk.analysed.get("variants", 0) + 1
        gates = {f.name[5:]: f for f in v.defined() if f.name.startswith("boots") and f.name[5:].isupper() and f.get("externC")}
        missing = sorted((set(TRUTH) | {"CONSTANT"}) - set(gates))
        if missing:
            chk.broken("gates not found: %s" % missing)
        for g, f in sorted(gates.items()):
            ps, _ = summ.pieces(v, f, hooks=NOINLINE)
            names = [p["n"] for p in f.params]
            res = sym.sym(names[0])
            ins = [sym.sym(p["n"]) for p in f.params[1:] if "LweSample" in p["t"]]
            bk = next((p["n"] for p in f.params if "CloudKeySet" in p["t"]), None)
            cs = [p for p in ps if p["kind"] == "call" and not p["eff"].get("noreturn")]
            chk.vcount(vn, "R1.gates")
            if g == "CONSTANT":
                tr = [c for c in cs if c["name"] == "lweNoiselessTrivial"]
                val = sym.sym(names[1])
                eighth = ("call", "modSwitchToTorus32", (I(1), I(8)))
                ok = len(tr) == 1 and tr[0]["args"][0] == res and tr[0]["args"][1] in (
                    ("cond", sym.binop("!=", val, ZERO), eighth, sym.neg(eighth)), ("cond", val, eighth, sym.neg(eighth)))
                chk.require(ok, "R1", "bootsCONSTANT returns the trivial sample (0, value ? +1/8 : -1/8)", where=f.where,
                            ok="lweNoiselessTrivial(result, value ? MU : -MU)", bad=[summ.show_piece(c)[:120] for c in cs], variant=vn)
                continue
            forms, err = linear_forms(v, f, ps, [])
            if forms is None:
                chk.broken("%s: %s" % (f.name, err))
            boots = [c for c in cs if c["name"].startswith("tfhe_bootstrap")]
            kss = [c for c in cs if c["name"] == "lweKeySwitch"]
            table = TRUTH[g]
            nin = len(ins)
            rows = list(product((0, 1), repeat=nin))
            where = f.where
            if g in ("NOT", "COPY"):
                fm = forms.get(res)
                ok = fm is not None and not boots and fm.k == 0 and fm.coef == {ins[0]: (-1 if g == "NOT" else 1)}
                chk.require(ok, "R1", "boots%s is the noise-free map %sc" % (g, "-" if g == "NOT" else "+"), where=where,
                            ok="result = %sca" % ("-" if g == "NOT" else ""), bad="form: %s" % (None if fm is None else str((fm.k, {sym.show(k): c for k, c in fm.coef.items()}))),
                            variant=vn)
                for row in rows:
                    chk.proved("R1", "boots%s row %s -> %d" % (g, row, table(*row)), where=where, detail="sign of %s(+-1/8 +- 1/32)" % ("-" if g == "NOT" else "+"),
                               variant=vn, nontrivial=False)
                continue

            def eval_rows(fm, operand_interval, label):
                """check every row; operand_interval(operand, row) -> (centre, radius)"""
                out = []
                for row in rows:
                    c, r = fm.k, Fr(0)
                    for opd, coef in fm.coef.items():
                        oc, orad = operand_interval(opd, row)
                        c += coef * oc
                        r += abs(coef) * orad
                    cc = centre(c)
                    want = table(*row)
                    lo, hi = cc - r, cc + r
                    ok = (lo > 0 and hi < Fr(1, 2)) if want == 1 else (lo > Fr(-1, 2) and hi < 0)
                    margin = min(abs(lo), abs(hi), abs(Fr(1, 2) - abs(hi)), abs(Fr(1, 2) - abs(lo)))
                    out.append((row, want, ok, cc, r, margin))
                return out

            if g != "MUX":
                problems = []
                if len(boots) != 1 or boots[0]["name"] != "tfhe_bootstrap_FFT":
                    problems.append("expected exactly one tfhe_bootstrap_FFT, found %s" % [c["name"] for c in boots])
                    chk.refuted("R3", "boots%s bootstraps its linear form into the result" % g, where=where, detail="; ".join(problems), variant=vn)
                    continue
                b = boots[0]
                temp = b["args"][3]
                mu = torus_const(b["args"][2])
                fm = forms.get(temp)
                ok3 = b["args"][0] == res and fm is not None and b["args"][1] == sym.arrow(P(bk, "bkFFT"), None) if False else (
                    b["args"][0] == res and fm is not None and b["args"][1] == P(bk, "bkFFT"))
                later = [c for c in cs if c["line"] > b["line"] and any(a == res for a in c["args"] if a is not None)]
                chk.require(ok3 and not later and mu is not None and mu > 0, "R3", "boots%s bootstraps the temporary holding its form into result with mu > 0, and does not touch result afterwards" % g,
                            where=where, ok="tfhe_bootstrap_FFT(result, bk->bkFFT, %s, temp)" % mu,
                            bad="bootstrap args %s, mu = %s, later writers %s" % ([sym.show(a)[:30] for a in b["args"]], mu, [c["name"] for c in later]), variant=vn)
                if fm is None:
                    continue
                if set(fm.coef) - set(ins):
                    chk.broken("boots%s: form uses non-input operands" % g)
                res_rows = eval_rows(fm, lambda opd, row: (ENC[row[ins.index(opd)]], NOISE), g)
                for row, want, ok, cc, r, margin in res_rows:
                    chk.require(ok, "R1", "boots%s row %s -> %d" % (g, row, want), where=where,
                                ok="phase in [%s, %s], margin %s" % (cc - r, cc + r, margin),
                                bad="form %s%s gives phase interval [%s, %s], which is not strictly inside the %s half-torus" % (
                                    fm.k, "".join(" %+d*%s" % (c, sym.show(o)) for o, c in fm.coef.items()), cc - r, cc + r,
                                    "positive" if want else "negative"), variant=vn,
                                data={"K": str(fm.k), "coef": {sym.show(o): c for o, c in fm.coef.items()}})
            else:
                problems = []
                wo = [c for c in boots if c["name"] == "tfhe_bootstrap_woKS_FFT"]
                if len(wo) != 2 or len(boots) != 2 or len(kss) != 1:
                    chk.refuted("R3", "bootsMUX = two bootstraps without key switch, one key switch", where=where,
                                detail="bootstraps %s, key switches %d" % ([c["name"] for c in boots], len(kss)), variant=vn)
                    continue
                # the temporary is reused: evaluate the form as it is at each bootstrap by replaying the calls up to it
                inter = {}
                okall = True
                sub_tables = []
                for b in wo:
                    upto = [p for p in ps if p["kind"] == "call" and p["line"] <= b["line"]]
                    fms, _ = linear_forms(v, f, upto, [])
                    fm = fms.get(b["args"][3]) if fms else None
                    mu = torus_const(b["args"][2])
                    if fm is None or mu is None or mu <= 0 or set(fm.coef) - set(ins):
                        okall = False
                        break
                    inter[b["args"][0]] = (fm, mu)
                ksw = kss[0]
                fms, _ = linear_forms(v, f, [p for p in ps if p["kind"] == "call" and p["line"] <= ksw["line"]], [])
                ffm = fms.get(ksw["args"][2]) if fms else None
                ok3 = okall and ffm is not None and ksw["args"][0] == res and ksw["args"][1] == sym.arrow(P(bk, "bkFFT"), "ks") and \
                    set(ffm.coef) == set(inter) and not [c for c in cs if c["line"] > ksw["line"] and res in [a for a in c["args"] if a is not None]]
                chk.require(ok3, "R3", "bootsMUX: result is written only by the final key switch of a private combination of the two bootstrapped values",
                            where=where, ok="u1, u2 = woKS bootstraps; lweKeySwitch(result, bk->bkFFT->ks, MuxConst + u1 + u2)",
                            bad="structure not recognised", variant=vn)
                if not ok3:
                    continue
                for row in rows:
                    want = table(*row)
                    # each intermediate is exactly +-mu, decided by the sign of its form over the admissible inputs
                    vals = {}
                    bad = None
                    for u, (fm, mu) in inter.items():
                        c, r = fm.k, Fr(0)
                        for opd, coef in fm.coef.items():
                            c += coef * ENC[row[ins.index(opd)]]
                            r += abs(coef) * NOISE
                        cc = centre(c)
                        if cc - r > 0 and cc + r < Fr(1, 2):
                            vals[u] = mu
                        elif cc + r < 0 and cc - r > Fr(-1, 2):
                            vals[u] = -mu
                        else:
                            bad = "intermediate form %s + ... has phase interval [%s, %s] straddling a sign boundary" % (fm.k, cc - r, cc + r)
                    if bad is None:
                        tot = centre(ffm.k + sum(coef * vals[u] for u, coef in ffm.coef.items()))
                        okr = tot == (Fr(1, 8) if want else Fr(-1, 8))
                        if not okr:
                            bad = "final combination %s%s evaluates to %s, expected %s" % (
                                ffm.k, "".join(" %+d*u" % c for c in ffm.coef.values()), tot, Fr(1, 8) if want else Fr(-1, 8))
                    chk.require(bad is None, "R1", "bootsMUX row %s -> %d" % (row, want), where=where,
                                ok="u = %s; output phase exactly %s1/8" % ([str(x) for x in vals.values()], "+" if want else "-"), bad=bad or "", variant=vn)
        # ---------------- R4 the sign-bootstrap chain the gates call (C04's rules re-evaluated for the FFT path, plus the
        # monomial map and the extraction map they rest on)
        from rules import c04, c11, c14
        sub = c04._Sub(chk, "R4")
        c04.evaluate(sub, v, ("_FFT",))
        c14.check_extraction(sub, v, rule="R4")
        c11.check_monomial(sub, v, "torusPolynomialMulByXai", "coefsT", False)
        # ---------------- R5 a gate is a function of its arguments: no function-local static of the gates or of the code they
        # reach is initialised from run-time values (it would keep the value of the first call, e.g. the first key's parameters)
        from sa.symexec import run_function as _run, Hooks as _Hooks, flat as _flat
        gate_fns = [f for f in v.defined() if f.name.startswith("boots") and f.name[5:].isupper() and f.get("externC")]
        closure = v.reachable([f.usr for f in gate_fns])
        once = []
        nstat = 0
        for u in closure:
            g = v.defs.get(u)
            if g is None or not g.file.startswith(("libtfhe", "include")):
                continue
            has_static = any(isinstance(n_, dict) and n_.get("k") == "var" and n_.get("static") for n_ in walk(g.d.get("body")))
            if not has_static:
                continue
            nstat += 1
            eff_, _, _ = _run(v, g, hooks=_Hooks())
            for x in _flat(eff_):
                if x["e"] == "store" and x.get("once"):
                    # an initialiser built only from members of `this` in a class whose every instance is a static object
                    # constructed from literals (the FFT processors, fp1024(1024)) is the same in every call
                    ats = [a for a in sym.atoms(x["val"]) if a[0] in ("sym", "fld", "var", "glob")]
                    this0 = sym.idx(sym.sym("this"), sym.ZERO)
                    only_this = bool(ats) and all(a == sym.sym("this") or (a[0] == "fld" and a[1] == this0) for a in ats)
                    if only_this and g.get("record"):
                        insts = [s_ for s_ in v.statics.values() if s_.get("definition") and re.sub(r"\bconst\b|\s", "", s_["t"]) == g.record]
                        lit = insts and all(all(isinstance(a_, dict) and a_.get("k") == "int" or (isinstance(a_, dict) and "cv" in a_)
                                                for a_ in (s_.get("init") or {}).get("args", [])) for s_ in insts)
                        news = any(n_.get("k") == "new" and n_.get("alloc") == g.record for fn_ in v.defined() for n_ in walk(fn_.d.get("body")))
                        if lit and not news:
                            chk.note("%s: static %s is initialised once from members of the single literal-constructed %s object(s) %s" % (
                                g.name, sym.show(x["lv"]), g.record, [s_["name"] for s_ in insts]))
                            continue
                    once.append("%s: static %s is initialised once with %s (line %s)" % (g.name, sym.show(x["lv"]), sym.show(x["val"])[:60], x["l"]))
        chk.vcount(vn, "R5.functions_with_static_locals", nstat)
        chk.require(not once, "R5", "no function-local static reachable from a gate is initialised from run-time values", where="libtfhe/boot-gates.cpp",
                    ok="%d function(s) with static locals in the closure of the gates, all with constant initialisers" % nstat,
                    bad="; ".join(sorted(set(once))[:3]) + " -- the value of the FIRST call is kept for every later call, whatever key or parameter set it is given",
                    variant=vn)
        # ---------------- R2 encode / decode
        be = v.fn("bootsSymEncrypt")
        bps, _ = summ.pieces(v, be, hooks=NOINLINE)
        enc = [p for p in bps if p["kind"] == "call" and p["name"] == "lweSymEncrypt"]
        msg = sym.sym(be.params[1]["n"])
        eighth = ("call", "modSwitchToTorus32", (I(1), I(8)))
        ok = len(enc) == 1 and enc[0]["args"][1] in (("cond", sym.binop("!=", msg, ZERO), eighth, sym.neg(eighth)), ("cond", msg, eighth, sym.neg(eighth)))
        chk.require(ok, "R2", "bootsSymEncrypt encodes 1 as +1/8 and 0 as -1/8", where=be.where, ok="message ? +1/8 : -1/8",
                    bad=[sym.show(c["args"][1]) for c in enc], variant=vn)
        bd = v.fn("bootsSymDecrypt")
        dps, _ = summ.pieces(v, bd, hooks=NOINLINE)
        r = [p for p in dps if p["kind"] == "return"]
        s_, k_ = [p["n"] for p in bd.params]
        ph = ("call", "lwePhase", (sym.sym(s_), P(k_, "lwe_key")))
        ok = len(r) == 1 and r[0]["val"] in (("cond", sym.binop(">", ph, ZERO), I(1), ZERO), sym.binop(">", ph, ZERO))
        chk.require(ok, "R2", "bootsSymDecrypt decodes by the sign of the phase", where=bd.where, ok="phase > 0 ? 1 : 0",
                    bad=sym.show(r[0]["val"]) if r else "no return", variant=vn)
