#include <tfhe.h>
#include <thread>
#include <cstdio>
static void work(){ IntPolynomial* p=new_IntPolynomial(1024); for(int i=0;i<1024;i++) p->coefs[i]=i%3-1;
  LagrangeHalfCPolynomial* l=new_LagrangeHalfCPolynomial(1024); IntPolynomial_ifft(l,p);
  delete_LagrangeHalfCPolynomial(l); delete_IntPolynomial(p); }
int main(){ for(int r=0;r<5;r++){ std::thread t(work); t.join(); } puts("done"); }
