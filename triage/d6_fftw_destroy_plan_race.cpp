#include <tfhe.h>
#include <thread>
#include <vector>
#include <cstdio>
// each thread touches its thread_local FFT processor (constructed on first use, destroyed at thread exit)
static void work(int id){
  IntPolynomial* p=new_IntPolynomial(1024); for(int i=0;i<1024;i++) p->coefs[i]=(i*7+id)%5-2;
  LagrangeHalfCPolynomial* l=new_LagrangeHalfCPolynomial(1024);
  IntPolynomial_ifft(l,p);
  delete_LagrangeHalfCPolynomial(l); delete_IntPolynomial(p);
}
int main(){
  for(int round=0;round<6;round++){
    std::vector<std::thread> ts;
    for(int t=0;t<4;t++) ts.emplace_back(work,t+round*4);
    for(auto&t:ts) t.join();
  }
  puts("done");
}
