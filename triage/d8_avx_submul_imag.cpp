// D8: spqlios-avx LagrangeHalfCPolynomialSubMul computes the imaginary part from the *real* accumulator.
// r1 = r - a*b (SubMul), r2 = r + a*b (AddMul)  =>  r1 + r2 must equal 2r.
#include <tfhe.h>
#include <cstdio>
#include <cstdlib>
#include <cmath>
int main() {
    const int N = 1024;
    TorusPolynomial *pr = new_TorusPolynomial(N), *pb = new_TorusPolynomial(N), *out = new_TorusPolynomial(N), *ref = new_TorusPolynomial(N);
    IntPolynomial *pa = new_IntPolynomial(N);
    srand(1);
    for (int i = 0; i < N; i++) { pr->coefsT[i] = rand() - RAND_MAX / 2; pb->coefsT[i] = rand() - RAND_MAX / 2; pa->coefs[i] = rand() % 64 - 32; }
    LagrangeHalfCPolynomial *r1 = new_LagrangeHalfCPolynomial(N), *r2 = new_LagrangeHalfCPolynomial(N),
                            *a = new_LagrangeHalfCPolynomial(N), *b = new_LagrangeHalfCPolynomial(N);
    TorusPolynomial_ifft(r1, pr); TorusPolynomial_ifft(r2, pr); IntPolynomial_ifft(a, pa); TorusPolynomial_ifft(b, pb);
    LagrangeHalfCPolynomialSubMul(r1, a, b);
    LagrangeHalfCPolynomialAddMul(r2, a, b);
    LagrangeHalfCPolynomialAddTo(r1, r2);
    TorusPolynomial_fft(out, r1);
    int bad = 0;
    for (int i = 0; i < N; i++) { int32_t want = 2 * pr->coefsT[i]; if (abs(out->coefsT[i] - want) > 16) bad++; }
    printf("coefficients of (r - a*b) + (r + a*b) that differ from 2r: %d of %d\n", bad, N);
    return bad ? 1 : 0;
}
