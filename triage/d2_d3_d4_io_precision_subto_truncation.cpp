#include <tfhe.h>
#include <tfhe_io.h>
#include <sstream>
#include <iostream>
#include <cstdio>
#include <cstring>
int main(int argc,char**argv){
  int which=atoi(argv[1]);
  if(which==1){ // double precision in text export
    TFheGateBootstrappingParameterSet* p=new_default_gate_bootstrapping_parameters(128);
    std::ostringstream os; export_tfheGateBootstrappingParameterSet_toStream(os,p);
    std::cout<<os.str();
    std::istringstream is(os.str()); auto*q=new_tfheGateBootstrappingParameterSet_fromStream(is);
    printf("orig bk alpha=%.17g reimported=%.17g  ks alpha=%.17g re=%.17g\n",p->tgsw_params->tlwe_params->alpha_min,q->tgsw_params->tlwe_params->alpha_min,p->in_out_params->alpha_min,q->in_out_params->alpha_min);
  }
  if(which==3){ // lweSubTo with n<8
    for(int n=1;n<=9;n++){
      LweParams* lp=new_LweParams(n,0.,0.);
      int32_t* buf=(int32_t*)calloc(64,4); int32_t* buf2=(int32_t*)calloc(64,4);
      LweSample a{lp}; LweSample b{lp};
      delete[] a.a; delete[] b.a; a.a=buf+8; b.a=buf2+8; // guard zones around
      for(int i=0;i<48;i++){buf[i]=1000+i; buf2[i]=1;}
      lweSubTo(&a,&b,lp);
      int bad=0; for(int i=0;i<48;i++){int exp=1000+i-((i>=8&&i<8+n)?1:0); if(buf[i]!=exp) bad++;}
      printf("n=%d wrong_cells=%d\n",n,bad);
      a.a=new int32_t[1]; b.a=new int32_t[1];
    }
  }
  if(which==4){ // truncated text section via C++ stream
    std::istringstream is("-----BEGIN LWEPARAMS-----\nalpha_max: 0.3\n");
    LweParams* p=new_lweParams_fromStream(is); printf("returned %p\n",(void*)p);
  }
}
