#include <tfhe.h>
#include <cstdio>
int main(){
  LweParams* pin=new_LweParams(1100,3e-5,0.012);
  TLweParams* pacc=new_TLweParams(1024,1,3e-8,0.012);
  TGswParams* pbk=new_TGswParams(2,10,pacc);
  LweKey* key=new_LweKey(pin); lweKeyGen(key);
  TGswKey* kbk=new_TGswKey(pbk); tGswKeyGen(kbk);
  LweBootstrappingKey* bk=new_LweBootstrappingKey(8,2,pin,pbk);
  tfhe_createLweBootstrappingKey(bk,key,kbk);
  LweBootstrappingKeyFFT* bkf=new_LweBootstrappingKeyFFT(bk);
  LweSample* x=new_LweSample(pin); LweSample* r=new_LweSample(pin);
  lweSymEncrypt(x,modSwitchToTorus32(1,8),3e-5,key);
  tfhe_bootstrap_FFT(r,bkf,modSwitchToTorus32(1,8),x);
  printf("phase=%d\n",lwePhase(r,key));
}
