#include <tfhe.h>
#include <thread>
#include <cstdio>
static LagrangeHalfCPolynomial* made;
int main(){
  std::thread a([]{ made=new_LagrangeHalfCPolynomial(1024); });   // thread A builds FFT-domain material (as key generation does)
  a.join();                                                        // ... and exits
  void** raw=(void**)made; printf("proc pointer stored in object: %p\n", raw[1]);
  LagrangeHalfCPolynomialClear(made);                              // another thread evaluates with it
  puts("survived");
}
