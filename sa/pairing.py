"""A7 — acquire/release pairing.

(a) inside one function: every allocation held in a local reaches the matching release on every
    path to every normal exit (paths ending in abort are not leaks), with the same array-ness and,
    for *_array forms, the same count expression;
(b) constructor/destructor and init_X/destroy_X: every owning field assigned from an allocation in the
    former is released in the latter.
"""
import re

from . import sym
from .symexec import Hooks, run_function, flat

ALLOC_RE = re.compile(r"^(new_|alloc_)|^(malloc|calloc|realloc|aligned_alloc|fftw_malloc|_mm_malloc|std::malloc)$")
FREE_FUNCS = {"free": "malloc", "std::free": "malloc", "fftw_free": "fftw_malloc", "_mm_free": "_mm_malloc"}
OWNERSHIP_SINKS = re.compile(r"register_param$")


def alloc_kind(name):
    """(family, is_array) for an allocator name, or None"""
    if name in ("malloc", "calloc", "realloc", "aligned_alloc", "std::malloc"):
        return ("malloc", False)
    if name in ("fftw_malloc", "_mm_malloc"):
        return (name, False)
    m = re.match(r"^new_(.+)_array$", name)
    if m:
        return ("new_" + m.group(1), True)
    m = re.match(r"^new_(.+)$", name)
    if m:
        return ("new_" + m.group(1), False)
    m = re.match(r"^alloc_(.+)_array$", name)
    if m:
        return ("alloc_" + m.group(1), True)
    m = re.match(r"^alloc_(.+)$", name)
    if m:
        return ("alloc_" + m.group(1), False)
    return None


def release_kind(name):
    """(family released, is_array, index of pointer arg, index of count arg or None)"""
    if name in FREE_FUNCS:
        return (FREE_FUNCS[name], False, 0, None)
    m = re.match(r"^delete_(.+)_array$", name)
    if m:
        return ("new_" + m.group(1), True, 1, 0)
    m = re.match(r"^delete_(.+)$", name)
    if m:
        return ("new_" + m.group(1), False, 0, None)
    m = re.match(r"^free_(.+)_array$", name)
    if m:
        return ("alloc_" + m.group(1), True, 1, 0)
    m = re.match(r"^free_(.+)$", name)
    if m:
        return ("alloc_" + m.group(1), False, 0, None)
    return None


def _contains_obj(t, obj):
    return t is not None and (t == obj or sym.contains(t, obj))


class Tracker:
    """abstract interpretation of one function's effect tree over {live, released, escaped}"""

    def __init__(self, fname):
        self.fname = fname
        self.problems = []      # (kind, line, text)
        self.allocs = {}        # obj -> info
        self.leaks = []
        self.error_path_leaks = []   # leaks on paths that return "no object" (NULL): malformed-input paths
        self.null_returns = set()

    def run(self, effs):
        outcomes = self.seq(effs, {})
        for st, kind, line in outcomes:
            if kind in ("exit",):
                continue
            for obj, status in st.items():
                if status == "live":
                    info = self.allocs[obj]
                    if kind == "return" and line in self.null_returns:
                        self.error_path_leaks.append((obj, info, line))
                    else:
                        self.leaks.append((obj, info, line))
        return self

    def seq(self, effs, state):
        """-> list of (state, exit kind, line)"""
        cur = [(dict(state), "fall", None)]
        for x in effs:
            nxt = []
            for st, kind, line in cur:
                if kind != "fall":
                    nxt.append((st, kind, line))
                    continue
                nxt.extend(self.step(x, st))
            # dedupe
            seen, cur = set(), []
            for st, kind, line in nxt:
                key = (tuple(sorted((repr(k), val) for k, val in st.items())), kind, line if kind != "fall" else None)
                if key not in seen:
                    seen.add(key)
                    cur.append((st, kind, line))
            if len(cur) > 512:
                cur = cur[:512]
        return cur

    def step(self, x, st):
        e = x["e"]
        if e == "alloc":
            st = dict(st)
            st[x["obj"]] = "live"
            self.allocs[x["obj"]] = {"family": "new", "array": x["how"] == "new[]", "count": x.get("size"), "line": x["l"],
                                     "what": "new %s%s" % (x.get("t"), "[%s]" % sym.show(x["size"]) if x.get("size") is not None else "")}
            return [(st, "fall", None)]
        if e == "call":
            name = x["name"]
            ak = alloc_kind(name)
            st = dict(st)
            if ak and x.get("ret") is not None and x["ret"][0] == "obj":
                fam, arr = ak
                st[x["ret"]] = "live"
                self.allocs[x["ret"]] = {"family": fam, "array": arr, "count": x["args"][0] if arr and x["args"] else None,
                                         "line": x["l"], "what": "%s(%s)" % (name, ", ".join(sym.show(a) for a in x["args"] if a is not None)[:60])}
                return [(st, "fall", None)]
            rk = release_kind(name)
            if rk:
                fam, arr, pi, ci = rk
                ptr = x["args"][pi] if pi < len(x["args"]) else None
                if ptr in st:
                    info = self.allocs[ptr]
                    if st[ptr] == "released":
                        self.problems.append(("double-release", x["l"], "%s released twice" % info["what"]))
                    if not (info["family"] == fam or info["family"].startswith(fam + "_")) or info["array"] != arr:
                        self.problems.append(("mismatch", x["l"], "%s (line %s) released with %s" % (info["what"], info["line"], name)))
                    elif arr and ci is not None and info["count"] is not None and x["args"][ci] != info["count"]:
                        self.problems.append(("count", x["l"], "%s (line %s) released with count %s" % (
                            info["what"], info["line"], sym.show(x["args"][ci]))))
                    st[ptr] = "released"
                return [(st, "fall", None)]
            # ownership transfer: constructors and the parameter collector keep what they are given
            if x.get("kind") == "construct" or OWNERSHIP_SINKS.search(name) or name.endswith("::" + name.split("::")[0]):
                for a in x["args"]:
                    if a in st and st[a] == "live":
                        st[a] = "escaped"
            if x.get("noreturn"):
                return [(st, "exit", x["l"])]
            return [(st, "fall", None)]
        if e == "inlined":
            # a file-local helper is part of its caller: what it releases is released, what it allocates and returns is the caller's
            self._inl = getattr(self, "_inl", 0) + 1
            try:
                res = self.seq(x["body"], st)
            finally:
                self._inl -= 1
            return [(s2, "fall" if kind in ("return", "fall") else kind, None if kind in ("return", "fall") else line) for s2, kind, line in res]
        if e == "delete":
            st = dict(st)
            ptr = x["val"]
            if ptr in st:
                info = self.allocs[ptr]
                if info["family"] != "new" or info["array"] != bool(x.get("array")):
                    self.problems.append(("mismatch", x["l"], "%s (line %s) released with delete%s" % (
                        info["what"], info["line"], "[]" if x.get("array") else "")))
                if st[ptr] == "released":
                    self.problems.append(("double-release", x["l"], "%s released twice" % info["what"]))
                st[ptr] = "released"
            return [(st, "fall", None)]
        if e == "store":
            st = dict(st)
            val = x.get("val")
            lv = x["lv"]
            for obj in list(st):
                # the object itself, or a conditional between several fresh objects (`t = reverse ? new_a() : new_b()`), stored into a
                # structure (possibly through a reference to one of several fields): owned by that structure from here on
                if st[obj] == "live" and (val == obj or (isinstance(val, tuple) and val and val[0] == "cond" and _contains_obj(val, obj))):
                    if lv[0] != "var":
                        st[obj] = "escaped"
            return [(st, "fall", None)]
        if e == "return":
            st = dict(st)
            val = x.get("val")
            if getattr(self, "_inl", 0):
                return [(st, "return", x["l"])]          # (the return of an inlined helper hands the value to the caller)
            for obj in list(st):
                if st[obj] == "live" and _contains_obj(val, obj):
                    st[obj] = "escaped"
            if val == sym.ZERO:
                self.null_returns.add(x["l"])
            return [(st, "return", x["l"])]
        if e == "exit":
            return [(dict(st), "exit", x["l"])]
        if e in ("break", "continue"):
            return [(dict(st), e, x["l"])]
        if e == "if":
            out = []
            out.extend(self.seq(x["then"], st))
            out.extend(self.seq(x["else"], st))
            return out
        if e in ("loop", "while"):
            body = self.seq(x["body"], st)
            out = [(dict(st), "fall", None)]
            for s2, kind, line in body:
                if kind in ("fall", "break", "continue"):
                    # allocations made inside the body must not stay live across iterations
                    for obj, status in s2.items():
                        if status == "live" and obj not in st:
                            info = self.allocs[obj]
                            self.leaks.append((obj, info, "end of loop body at line %s" % x["l"]))
                            s2 = dict(s2)
                            s2[obj] = "reported"
                    out.append((s2, "fall", None))
                else:
                    out.append((s2, kind, line))
            return out
        return [(dict(st), "fall", None)]


class _LocalHelpers(Hooks):
    """file-local static helpers are analysed as part of their callers (a helper that prints and releases the section it is given)"""

    def want_inline(self, ex, callee, node):
        return bool(callee.get("static")) and not callee.get("record") and not callee.get("lambda") and callee.file == ex.fn.file and ex.depth < 4


def function_pairing(v, fn):
    eff, st, ex = run_function(v, fn, hooks=_LocalHelpers())
    return Tracker(fn.q).run(eff), eff


# ------------------------------------------------------------------------------ (b) owners
def owned_fields(v, ctor):
    """fields of *this assigned from an allocation made in the constructor -> info (count in this-terms)"""
    eff, st, ex = run_function(v, ctor, hooks=Hooks())
    allocs = {}
    for x in flat(eff):
        if x["e"] == "alloc":
            allocs[x["obj"]] = {"family": "new", "array": x["how"] == "new[]", "count": x.get("size"), "line": x["l"],
                                "what": "new %s%s" % (x.get("t"), "[%s]" % sym.show(x["size"]) if x.get("size") is not None else "")}
        elif x["e"] == "call" and x.get("ret") is not None and x["ret"][0] == "obj" and alloc_kind(x["name"]):
            fam, arr = alloc_kind(x["name"])
            allocs[x["ret"]] = {"family": fam, "array": arr, "count": x["args"][0] if arr and x["args"] else None, "line": x["l"],
                                "what": "%s(%s)" % (x["name"], ", ".join(sym.show(a) for a in x["args"] if a is not None)[:60])}
    this = sym.sym("this")
    # parameter -> field it is stored into (to express counts over fields)
    p2f = {}
    owned = {}
    for x in flat(eff):
        if x["e"] == "store" and x["op"] == "=" and sym.root_of(x["lv"]) == this:
            if x["val"] in allocs:
                owned[x["lv"]] = allocs[x["val"]]
            elif isinstance(x["val"], tuple) and x["val"][0] == "sym":
                p2f.setdefault(x["val"], x["lv"])
            elif isinstance(x["val"], tuple) and x["val"][0] == "fld" and sym.root_of(x["val"]) is not None and \
                    sym.root_of(x["val"]) != this and sym.root_of(x["val"])[0] == "sym":
                # a member initialised from a field of a parameter object (k(params->k)): counts written with either name agree
                p2f.setdefault(x["val"], x["lv"])
    for lv, info in owned.items():
        if info["count"] is not None:
            info["count_this"] = sym.subst(info["count"], p2f)
    return owned, p2f, eff


def releases_in(v, fn, base):
    """release events of fn over terms rooted at `base` (a sym): {term: [(family, array, count, line)]}; RELEASE_GUARDS[(fn usr, term)]
    holds the conditions under which each release runs"""
    from .bounds import walk_eff
    eff, st, ex = run_function(v, fn, hooks=Hooks())
    out = {}
    for x, _loops, guards in walk_eff(eff):
        if x["e"] == "delete":
            out.setdefault(x["val"], []).append(("new", bool(x.get("array")), None, x["l"]))
            RELEASE_GUARDS.setdefault((fn.usr, x["val"]), []).append(list(guards))
        elif x["e"] == "call":
            rk = release_kind(x["name"])
            if rk:
                fam, arr, pi, ci = rk
                if pi < len(x["args"]):
                    out.setdefault(x["args"][pi], []).append((fam, arr, x["args"][ci] if ci is not None else None, x["l"]))
                    RELEASE_GUARDS.setdefault((fn.usr, x["args"][pi]), []).append(list(guards))
    return out, eff


RELEASE_GUARDS = {}


def lazily_owned_fields(v, methods):
    """fields of *this that a method other than the constructor fills with a fresh allocation (tables built on first use), also through a
    reference to one of several fields (`T *&slot = flag ? a : b; slot = flag ? new_a() : new_b();`) -> {field lvalue: info}"""
    this = sym.sym("this")
    owned = {}
    for m in methods:
        eff, st, ex = run_function(v, m, hooks=Hooks())
        allocs = {}
        for x in flat(eff):
            if x["e"] == "alloc":
                allocs[x["obj"]] = {"family": "new", "array": x["how"] == "new[]", "count": x.get("size"), "line": x["l"], "method": m.name,
                                    "what": "new %s%s" % (x.get("t"), "[%s]" % sym.show(x["size"]) if x.get("size") is not None else "")}
            elif x["e"] == "call" and x.get("ret") is not None and x["ret"][0] == "obj" and alloc_kind(x["name"]):
                fam, arr = alloc_kind(x["name"])
                allocs[x["ret"]] = {"family": fam, "array": arr, "count": x["args"][0] if arr and x["args"] else None, "line": x["l"], "method": m.name,
                                    "what": "%s(%s)" % (x["name"], ", ".join(sym.show(a) for a in x["args"] if a is not None)[:60])}

        def pairs(lv, val):
            if lv[0] == "cond" and isinstance(val, tuple) and val[0] == "cond" and lv[1] == val[1]:
                yield from pairs(lv[2], val[2])
                yield from pairs(lv[3], val[3])
            elif lv[0] == "cond":
                yield from pairs(lv[2], val)
                yield from pairs(lv[3], val)
            else:
                yield lv, val
        for x in flat(eff):
            if x["e"] == "store" and x["op"] == "=" and isinstance(x.get("val"), tuple):
                for lv, val in pairs(x["lv"], x["val"]):
                    if sym.root_of(lv) == this and val in allocs:
                        owned[lv] = allocs[val]
    return owned
