"""Loader and query helpers over the facts files written by tfhe-facts."""
import json
import os
from collections import defaultdict

from .pipeline import AnalysisBroken, BACKENDS, CONFIGS, build_facts, REPO


def walk(node):
    """Pre-order walk over every dict node of a stmt/expr tree."""
    stack = [node]
    while stack:
        n = stack.pop()
        if isinstance(n, dict):
            yield n
            for v in reversed(list(n.values())):
                if isinstance(v, (dict, list)):
                    stack.append(v)
        elif isinstance(n, list):
            for v in reversed(n):
                if isinstance(v, (dict, list)):
                    stack.append(v)


CALL_KINDS = ("call", "mcall", "opcall", "construct")


def calls_in(node):
    for n in walk(node):
        if n.get("k") in CALL_KINDS and n.get("cusr"):
            yield n


class Function:
    __slots__ = ("d", "unit", "cfg", "target")

    def __init__(self, d, unit, cfg, target):
        self.d, self.unit, self.cfg, self.target = d, unit, cfg, target

    def __getattr__(self, k):
        try:
            return self.d[k]
        except KeyError:
            raise AttributeError(k)

    def get(self, k, default=None):
        return self.d.get(k, default)

    @property
    def where(self):
        return "%s:%s" % (self.d["file"], self.d["line"])

    def __repr__(self):
        return "<fn %s %s %s/%s>" % (self.d["q"], self.where, self.cfg, self.target)


class Variant:
    """One linkable library: tfhe-core + tfhe-fft-<backend> under one build config."""

    def __init__(self, prog, cfg, backend):
        self.prog, self.cfg, self.backend = prog, cfg, backend
        self.name = "%s/%s" % (cfg, backend)
        self.targets = ("tfhe-core", "tfhe-fft-" + backend)
        self.defs = {}       # usr -> Function (defined)
        self.decls = {}      # usr -> Function (any declaration; prefers the definition)
        self.by_name = defaultdict(list)  # unqualified and qualified name -> [usr]
        self.statics = {}    # qualified name (+ local_of) -> static var dict
        self.records = {}    # name -> record dict
        self.asm_units = []  # unit dicts of .s files
        self.header_decl = {}  # usr -> header file (under include/) that declares it
        self.units = []
        for u in prog.units[cfg]:
            if u["target"] not in self.targets:
                continue
            self.units.append(u)
            if "asm" in u:
                self.asm_units.append(u)
                continue
            data = prog.load(u["facts"])
            for fd in data["functions"]:
                f = Function(fd, u, cfg, u["target"])
                usr = fd["usr"]
                if fd["file"].startswith("include/"):
                    self.header_decl.setdefault(usr, fd["file"])
                if fd["defined"]:
                    # header-defined inline functions recur in several TUs: keep the first
                    self.defs.setdefault(usr, f)
                    self.decls[usr] = self.defs[usr]
                else:
                    self.decls.setdefault(usr, f)
            for s in data["statics"]:
                key = s["q"] + ("@" + s["local_of"] if s.get("local_of") else "")
                if s["definition"] or key not in self.statics:
                    if key in self.statics and self.statics[key]["definition"] and not s["definition"]:
                        continue
                    s = dict(s)
                    s["unit"] = u["file"]
                    self.statics[key] = s
            for r in data["records"]:
                self.records.setdefault(r["name"], r)
        for usr, f in self.decls.items():
            self.by_name[f.d["name"]].append(usr)
            if f.d["q"] != f.d["name"]:
                self.by_name[f.d["q"]].append(usr)
        self._callgraph = None
        self._noreturn = None

    # ---- lookup ----
    def fn(self, name, required=True):
        """Defined function by (qualified) name; C-linkage names are unique."""
        usrs = [u for u in self.by_name.get(name, []) if u in self.defs]
        if len(usrs) == 1:
            return self.defs[usrs[0]]
        if not usrs:
            if required:
                raise AnalysisBroken("anchor vanished: no definition of '%s' in variant %s" % (name, self.name))
            return None
        raise AnalysisBroken("ambiguous anchor '%s' in %s: %s" % (name, self.name, usrs))

    def fns(self, name):
        return [self.defs[u] for u in self.by_name.get(name, []) if u in self.defs]

    def defined(self):
        return self.defs.values()

    # ---- call graph ----
    @property
    def callgraph(self):
        if self._callgraph is None:
            overriders = defaultdict(set)
            for usr, f in self.decls.items():
                for o in f.d.get("overrides", []):
                    overriders[o].add(usr)
            # transitive overriders
            changed = True
            while changed:
                changed = False
                for base, subs in list(overriders.items()):
                    for s in list(subs):
                        for ss in overriders.get(s, ()):
                            if ss not in subs:
                                subs.add(ss)
                                changed = True
            g = {}
            for usr, f in self.defs.items():
                out = set()
                roots = [f.d.get("body")] + [i.get("e") for i in f.d.get("inits", [])]
                for c in calls_in(roots):
                    out.add(c["cusr"])
                    if c.get("virtual"):
                        out |= overriders.get(c["cusr"], set())
                # default arguments evaluated at call sites are part of the caller (already inlined
                # as defarg nodes); destructors of locals are not modelled here (see effects)
                g[usr] = out
            self._callgraph = g
        return self._callgraph

    @property
    def noreturn(self):
        """usrs of defined functions none of whose paths return (every path ends in abort/exit/throw)"""
        if self._noreturn is None:
            from .symexec import Exec, Hooks, NORETURN_NAMES
            self._noreturn = set()
            cands = []
            for usr, f in self.defs.items():
                names = {c.get("callee") for c in calls_in(f.d.get("body"))}
                if names & NORETURN_NAMES or any(n.get("k") == "throw" for n in walk(f.d.get("body"))):
                    cands.append(f)
            changed = True
            while changed:
                changed = False
                for f in cands:
                    if f.usr in self._noreturn:
                        continue
                    try:
                        eff, st = Exec(self, f, hooks=Hooks()).run()
                    except RecursionError:
                        continue
                    if st == "exit":
                        self._noreturn.add(f.usr)
                        changed = True
        return self._noreturn

    def terminates_process(self, how, depth=0):
        """Does an exit of kind `how` (a C no-return name, "throw", or the name of a library function none of whose paths
        return) end the PROCESS on every path?  A throw does not: it hands control to whatever handler the caller installed."""
        from .symexec import Exec, Hooks, NORETURN_NAMES, paths
        if how in NORETURN_NAMES:
            return True
        if how == "throw" or depth > 4:
            return False
        f = self.fn(how, required=False) if isinstance(how, str) else None
        if f is None:
            return False
        try:
            eff, st = Exec(self, f, hooks=Hooks()).run()
        except RecursionError:
            return False
        n = 0
        for leaves, conds, status in paths(eff):
            n += 1
            if status != "exit" or not leaves or leaves[-1].get("e") != "exit":
                return False
            if not self.terminates_process(leaves[-1].get("how"), depth + 1):
                return False
        return n > 0

    def reachable(self, roots):
        """usr set reachable from the given root usrs (roots included)."""
        g = self.callgraph
        seen = set()
        stack = list(roots)
        while stack:
            u = stack.pop()
            if u in seen:
                continue
            seen.add(u)
            stack.extend(g.get(u, ()))
        return seen

    def path(self, root, pred):
        """Shortest call path from root usr to a usr satisfying pred; list of usrs or None."""
        from collections import deque
        g = self.callgraph
        prev = {root: None}
        dq = deque([root])
        while dq:
            u = dq.popleft()
            if pred(u):
                p = []
                while u is not None:
                    p.append(u)
                    u = prev[u]
                return p[::-1]
            for v in g.get(u, ()):
                if v not in prev:
                    prev[v] = u
                    dq.append(v)
        return None

    def qname(self, usr):
        f = self.decls.get(usr)
        return f.d["q"] if f else usr


class Program:
    def __init__(self, repo=REPO):
        self.repo = repo
        self.fdir = build_facts(repo)
        self.index = json.load(open(os.path.join(self.fdir, "index.json")))
        self.units = self.index["configs"]
        self._cache = {}
        self._variants = {}

    def load(self, rel):
        if rel not in self._cache:
            d = json.load(open(os.path.join(self.fdir, rel)))
            if d.get("errors"):
                raise AnalysisBroken("front end reported errors in " + rel)
            # standard algorithms with standard functors / accumulations are written back as the loops they stand for
            from . import desugar
            for fd in d.get("functions", []):
                if fd.get("defined") and fd.get("body") and not fd.get("file", "").startswith("/"):
                    desugar.desugar_function(fd)
            self._cache[rel] = d
        return self._cache[rel]

    def variant(self, cfg, backend):
        k = (cfg, backend)
        if k not in self._variants:
            self._variants[k] = Variant(self, cfg, backend)
        return self._variants[k]

    def variants(self):
        for cfg in CONFIGS:
            for b in BACKENDS:
                if any(u["target"] == "tfhe-fft-" + b for u in self.units[cfg]):
                    yield self.variant(cfg, b)

    def header(self, mode, cfg):
        return self.load(self.index["headers"]["%s_%s" % (mode, cfg)])

    def asm_text(self, unit):
        return open(os.path.join(self.fdir, unit["asm"])).read()

    def source_path(self, rel):
        return os.path.join(self.repo, "src", rel)

    def tu_count(self):
        return sum(len(v) for v in self.units.values())


def parse_snippet(code, name="snippet"):
    """run the fact extractor on a small self-contained C++ translation unit (a positive example for a rule whose count on the
    library is zero) and return its function definitions as {name: body node}; AnalysisBroken when the extractor fails"""
    import subprocess, tempfile
    from . import pipeline
    os.makedirs(pipeline.WORK, exist_ok=True)
    d = tempfile.mkdtemp(prefix="snip-", dir=pipeline.WORK)
    try:
        src = os.path.join(d, name + ".cpp")
        out = os.path.join(d, name + ".json")
        open(src, "w").write(code)
        r = subprocess.run([pipeline.TOOL, out, d, src, "--", "-x", "c++", "-std=gnu++17", "-resource-dir", pipeline.RESOURCE_DIR, "-Wno-everything"],
                           stdout=subprocess.PIPE, stderr=subprocess.STDOUT, text=True)
        if r.returncode != 0 or not os.path.exists(out):
            raise AnalysisBroken("extractor failed on a rule's positive example: %s" % r.stdout[-400:])
        unit = json.load(open(out))
        from . import desugar
        for f_ in unit.get("functions", []):
            if f_.get("body"):
                desugar.desugar_function(f_)
        return {f.get("name") or f.get("n"): f for f in unit.get("functions", []) if f.get("body")}
    finally:
        import shutil
        shutil.rmtree(d, ignore_errors=True)
