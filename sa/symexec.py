"""Symbolic executor over the structured statement trees emitted by tfhe-facts.

It does not run anything: it folds a function body into an *effect tree* whose
expressions are normalised terms (sa.sym), with single-assignment locals inlined,
branches on decidable conditions pruned, canonical for-loops recognised, and
callees optionally inlined (rule-controlled).  Whatever it does not recognise is
kept as an explicit 'unknown' node so that rules can answer "unrecognised shape"
(exit 2) instead of guessing.

Effects (dicts):
  {"e":"store","lv":term,"op":"="|"+="...,"val":term,"l":line}
  {"e":"local","name":..,"id":..,"op":..,"val":term,"l":line}       assignment to a tracked local
  {"e":"call","name":q,"usr":..,"args":[terms],"l":line,"ret":term|None,"this":term|None,"virtual":bool}
  {"e":"inlined","name":q,"args":[...],"body":[effects],"ret":term|None,"l":line}
  {"e":"loop","var":term,"lo":term,"cmp":"<"|"<="|">"|">="|"!=","hi":term,"step":term,"body":[...],"l":line}
  {"e":"while","cond":term,"body":[...],"l":line,"kind":"while"|"do"|"for?"}
  {"e":"if","cond":term,"then":[...],"else":[...],"l":line,"then_exits":bool,"else_exits":bool}
  {"e":"return","val":term|None,"l":line}
  {"e":"exit","how":"abort"|"throw"|name,"l":line}
  {"e":"break"|"continue","l":line}
  {"e":"asm","node":dict,"ins":[(constraint,term)],"outs":[(constraint,term)],"l":line}
  {"e":"delete","val":term,"array":bool,"l":line}
  {"e":"unknown","what":str,"l":line}
"""
from . import sym
from .sym import I, ZERO
from .facts import walk

INT_TYPES = {
    "bool", "char", "signed char", "unsigned char", "short", "unsigned short", "int", "unsigned int",
    "long", "unsigned long", "long long", "unsigned long long", "__int128", "unsigned __int128",
}
FLOAT_TYPES = {"float", "double", "long double"}
NORETURN_NAMES = {"abort", "exit", "_Exit", "quick_exit", "std::terminate", "std::abort", "std::exit",
                  "__assert_fail", "__builtin_unreachable", "__builtin_trap"}


def strip_cv(t):
    t = t.strip()
    changed = True
    while changed:
        changed = False
        for q in ("const ", "volatile ", "__restrict ", "restrict "):
            if t.startswith(q):
                t = t[len(q):]
                changed = True
        for q in (" const", " volatile", " __restrict", " restrict", "*__restrict", "*const", "*restrict"):
            if t.endswith(q):
                t = t[:-len(q)] + ("*" if q.startswith("*") else "")
                changed = True
        t = t.strip()
    return t


SIZEOF = {"char": 1, "signed char": 1, "unsigned char": 1, "bool": 1, "short": 2, "unsigned short": 2, "int": 4,
          "unsigned int": 4, "long": 8, "unsigned long": 8, "long long": 8, "unsigned long long": 8, "float": 4,
          "double": 8, "long double": 16}


def pointee_size(t, records=None):
    """size in bytes of the pointee of pointer type string t, or None"""
    t = strip_cv(t)
    if not t.endswith("*"):
        return None
    p = strip_cv(t[:-1])
    if p.endswith("*"):
        return 8
    if p in SIZEOF:
        return SIZEOF[p]
    if records and p in records:
        return records[p]["size"]
    if p.startswith("std::complex<double>") or p == "_Complex double":
        return 16
    return None


def is_int_type(t):
    return strip_cv(t) in INT_TYPES


def is_float_type(t):
    return strip_cv(t) in FLOAT_TYPES


def is_scalar_type(t):
    t = strip_cv(t)
    return t in INT_TYPES or t in FLOAT_TYPES or t.endswith("*") or t.endswith("&")


def is_ref_type(t):
    return strip_cv(t).endswith("&")


def assigned_ids(node):
    """ids of locals assigned / inc-dec'd / address-taken anywhere under node: (assigned, addr_taken)"""
    assigned, addr = {}, set()
    for n in walk(node):
        k = n.get("k")
        if k == "assign":
            a = n.get("a")
            if isinstance(a, dict) and a.get("k") == "ref" and "id" in a:
                assigned[a["id"]] = assigned.get(a["id"], 0) + 1
        elif k == "un" and n.get("op") in ("++", "--"):
            a = n.get("a")
            if isinstance(a, dict) and a.get("k") == "ref" and "id" in a:
                assigned[a["id"]] = assigned.get(a["id"], 0) + 1
        elif k == "un" and n.get("op") == "&":
            a = n.get("a")
            if isinstance(a, dict) and a.get("k") == "ref" and "id" in a:
                addr.add(a["id"])
        elif k == "asm":
            try:
                from . import asm as _asm
                modified = _asm.modified_output_operands(n)
            except Exception:
                modified = None
            for oi, o in enumerate(n.get("outs", [])):
                e = o.get("e")
                if modified is not None and oi not in modified:
                    continue          # an output operand the template never writes keeps its value
                if isinstance(e, dict) and e.get("k") == "ref" and "id" in e:
                    assigned[e["id"]] = assigned.get(e["id"], 0) + 1
    return assigned, addr


def ref_bound_ids(node):
    """ids of locals bound to a non-const reference parameter/variable (may be written through it)"""
    out = set()
    for n in walk(node):
        if n.get("k") == "var" and is_ref_type(n.get("t", "")):
            init = n.get("init")
            if isinstance(init, dict) and init.get("k") == "ref" and "id" in init:
                out.add(init["id"])
    return out


class Hooks:
    """Override to control inlining and branch decisions."""

    def decide(self, ex, cond):
        c = sym.const_value(cond)
        if c is not None:
            return bool(c)
        return None

    def want_inline(self, ex, callee_fn, node):
        return False

    def call_value(self, ex, node, name, args, this=None):
        return None   # let the executor build the default term

    def is_noreturn(self, ex, name, usr):
        return usr in ex.v.noreturn


class Exec:
    serial = 0

    def __init__(self, variant, fn, args=None, this=None, hooks=None, casts="drop", depth=0, label="", mem=None):
        self.v, self.fn, self.hooks = variant, fn, hooks or Hooks()
        self.casts = casts
        self.depth = depth
        self.env = {}
        self.mem = mem if mem is not None else {}
        self.concrete = {}         # lvalue term -> integer: dimension fields fixed by a rule that interprets a function for small sizes
        self.unroll = False        # with concrete dimensions: loops whose conditions evaluate to constants are unrolled
        self.ctor_fields = set()   # members initialised by this constructor's initialiser list (readable back)
        self.extents = {}   # local array / std::vector cell -> number of elements
        self.elem = {}      # the last element store `p[e] = v` (any root, symbolic subscript): forwarded to the loads of exactly
                            # that element in the straight-line code that follows (dropped at every store, call and branch)
        self.label = label
        d = fn.d
        body = d.get("body")
        self.assigned, self.addr_taken = assigned_ids([body, d.get("inits")])
        self.this = this if this is not None else sym.sym("this")
        # locals passed to non-const reference parameters are written by the callee: memory cells
        for n in walk([body, d.get("inits")]):
            if n.get("k") in ("call", "mcall", "construct", "opcall") and n.get("refargs"):
                for i in n["refargs"]:
                    a = n["args"][i] if i < len(n.get("args", [])) else None
                    if isinstance(a, dict) and a.get("k") == "ref" and "id" in a:
                        self.addr_taken.add(a["id"])
        params = d["params"]
        for i, p in enumerate(params):
            if args is not None and i < len(args) and args[i] is not None:
                val = args[i]
            else:
                val = sym.sym(p["n"] or "arg%d" % i)
            if is_ref_type(p["t"]) and args is not None and i < len(args) and args[i] is not None:
                self.env[p["id"]] = ("alias", val)
            elif p["id"] in self.addr_taken:
                # parameter whose address is taken: treat as memory cell initialised to val
                self.env[p["id"]] = ("cell", ("var", p["n"], p["id"]), val)
                if is_scalar_type(p["t"]):
                    self.mem[("var", p["n"], p["id"])] = val       # the cell holds the argument until something writes it
            else:
                self.env[p["id"]] = val
        self.param_names = [p["n"] for p in params]

    # ------------------------------------------------------------------ public
    def run(self):
        effects = []
        d = self.fn.d
        for ini in d.get("inits", []):
            if ini.get("field") and isinstance(ini.get("e"), dict) and ini["e"].get("k") == "construct" \
                    and not ini["e"].get("copy"):
                c = ini["e"]
                args = [self.ev(a, effects) for a in c.get("args", [])]
                self.emit_call(c, c.get("callee", "?"), args, effects,
                               this=sym.addr(sym.arrow(self.this, ini["field"])))
            elif ini.get("field"):
                val = self.ev(ini["e"], effects)
                effects.append({"e": "store", "lv": sym.arrow(self.this, ini["field"]), "op": "=", "val": val,
                                "l": ini.get("l", 0), "ctor_init": True, "written": ini.get("written", False)})
                self.remember(sym.arrow(self.this, ini["field"]), val)

            else:
                self.ev(ini["e"], effects)
        st = self.block(d.get("body"), effects)
        return effects, st

    # ------------------------------------------------------------------ statements
    # status: "fall" (continues), "return", "exit", "break", "continue"
    def block(self, node, out):
        if node is None:
            return "fall"
        k = node.get("k")
        if k == "block":
            for s in node["s"]:
                st = self.block(s, out)
                if st != "fall":
                    return st
            return "fall"
        if k == "decl":
            for dv in node["d"]:
                if dv.get("k") == "var":
                    self.declare(dv, out)
            return "fall"
        if self.unroll and k in ("for", "while", "do"):
            r_ = self._unrolled(node, out)
            if r_ is not None:
                return r_
        elif k in ("for", "while", "do") and getattr(self.hooks, "unroll_literal", 0):
            # a view that wants table-driven code as straight-line code (the I/O views: `for (i = 0; i < 3; ++i) set(names[i], values[i])`):
            # a loop all of whose tests are literals is executed iteration by iteration, up to the hook's bound
            r_ = self._unrolled(node, out, limit=self.hooks.unroll_literal)
            if r_ is not None:
                return r_
        if k in ("if", "for", "while", "do", "forrange", "asm", "switch", "try"):
            self.elem = {}
        if k == "if":
            r_ = self.do_if(node, out)
            self.elem = {}
            return r_
        if k == "for":
            saved_ce, self._cont_envs = getattr(self, "_cont_envs", None), None     # a nested loop's `continue` is its own
            r_ = self.do_for(node, out)
            self._cont_envs = saved_ce
            self.elem = {}
            return r_
        if k in ("while", "do"):
            saved_ce, self._cont_envs = getattr(self, "_cont_envs", None), None
            r_ = self.do_while(node, out)
            self._cont_envs = saved_ce
            self.elem = {}
            return r_
        if k == "forrange" and self._forrange_counted(node, out):
            return "fall"
        if k == "switch" and self._switch_as_ifs(node, out):
            return "fall"
        if k == "forrange":
            body = []
            self.havoc(node.get("body"))
            self.block(node.get("body"), body)
            out.append({"e": "while", "cond": ("unk", "range"), "body": body, "l": node["l"], "kind": "forrange",
                        "range": self.ev(node.get("range"), out)})
            return "fall"
        if k == "return":
            val = self.ev(node["a"], out) if node.get("a") else None
            out.append({"e": "return", "val": val, "l": node["l"]})
            return "return"
        if k == "break":
            out.append({"e": "break", "l": node["l"]})
            return "break"
        if k == "continue":
            if getattr(self, "_cont_envs", None) is not None:
                self._cont_envs.append(dict(self.env))
            out.append({"e": "continue", "l": node["l"]})
            return "continue"
        if k == "null":
            return "fall"
        if k == "asm":
            ins = [(i["c"], self.ev(i["e"], out)) for i in node.get("ins", [])]
            outs = []
            from . import asm as _asm
            try:
                modified = _asm.modified_output_operands(node)
            except Exception:
                modified = set(range(len(node.get("outs", []))))
            for oi, o in enumerate(node.get("outs", [])):
                e = o["e"]
                outs.append((o["c"], self.lv(e, out) if not self._tracked_ref(e) else ("var", e["n"], e["id"])))
                if self._tracked_ref(e) and oi in modified:
                    self.env[e["id"]] = ("var", e["n"], e["id"])
            out.append({"e": "asm", "node": node, "ins": ins, "outs": outs, "l": node["l"]})
            return "fall"
        if k == "try":
            st = self.block(node.get("body"), out)
            out.append({"e": "unknown", "what": "try/catch", "l": node["l"]})
            return st
        if k in ("switch", "goto", "label", "otherstmt", "case", "default"):
            out.append({"e": "unknown", "what": k, "l": node["l"]})
            self.havoc(node)
            return "fall"
        # expression statement
        self.ev(node, out, stmt=True)
        if out and out[-1].get("e") == "exit":
            return "exit"
        return "fall"

    @staticmethod
    def _clamp(hi, lo=ZERO):
        """i < max(X, lo) written `X > lo ? X : lo`: the loop is empty whenever X <= lo, so the bound is X"""
        if isinstance(hi, tuple) and hi and hi[0] == "cond" and hi[1][0] == "op":
            cc, ca, cb = hi[1], hi[2], hi[3]
            if cc[1] in (">", ">=") and ca == cc[2] and cb == cc[3] and cb == lo:
                return ca
            if cc[1] in ("<", "<=") and cb == cc[2] and ca == cc[3] and ca == lo:
                return cb
        return hi

    def _unrolled(self, node, out, limit=4096):
        """Concrete-dimension mode: a loop whose condition evaluates to a constant at every test is executed iteration by
        iteration (its body interpreted symbolically each time), so loop-carried control state (a wrapped index, a sign flag)
        is followed exactly.  Returns the status, or None when some test is not a constant (nothing is emitted then)."""
        k = node.get("k")
        env0, mem0, n0 = dict(self.env), dict(self.mem), len(out)
        tmp = []

        def fail():
            self.env = env0
            self.mem.clear()
            self.mem.update(mem0)
            return None
        if k == "for" and node.get("init") is not None:
            init = node["init"]
            if init.get("k") == "decl":
                self.block(init, tmp)
            else:
                self.ev(init, tmp, stmt=True)
        cond, body, inc = node.get("c"), node.get("body"), node.get("inc") if k == "for" else None
        first = (k == "do")
        n_it = 0
        while True:
            if not first:
                if cond is not None:
                    cv_ = self.ev(cond, tmp)
                    c = sym.const_value(cv_)
                    if c is None:
                        c = self.hooks.decide(self, cv_)      # a rule may fix data-dependent tests (a zero pattern)
                    if c is None:
                        return fail()
                    if not c:
                        break
            first = False
            saved_ce, self._cont_envs = getattr(self, "_cont_envs", None), None
            n_tmp = len(tmp)
            st = self.block(body, tmp)
            self._cont_envs = saved_ce
            if st == "fall" and self._jumps_conditionally(tmp[n_tmp:]):
                # a `break` / `continue` under a condition that is not a constant (a search): the iterations that follow depend on
                # it -- this loop cannot be written out as straight-line code
                return fail()
            if st in ("return", "exit"):
                out.extend(tmp)
                return st
            if st == "break":
                break
            if inc is not None:
                self.ev(inc, tmp, stmt=True)
            n_it += 1
            if n_it > limit:
                return fail()
        out.extend(tmp)
        return "fall"

    @staticmethod
    def _jumps_conditionally(effs):
        for x in effs:
            if x["e"] in ("break", "continue"):
                return True
            if x["e"] == "if" and (Exec._jumps_conditionally(x["then"]) or Exec._jumps_conditionally(x["else"])):
                return True
            if x["e"] == "inlined" and False:
                return True
        return False

    def _forrange_counted(self, node, out):
        """for (T &e : v) over a local std::vector<T> v(n) or a local array: the counted loop u in [0, n) with e = v[u]"""
        rng, var = node.get("range"), node.get("var")
        if not (isinstance(rng, dict) and rng.get("k") == "ref" and isinstance(var, dict)):
            return False
        cellv = self.env.get(rng.get("id"))
        if not (isinstance(cellv, tuple) and cellv[0] == "cell") or cellv[1] not in self.extents:
            return False
        cell, n = cellv[1], self.extents[cellv[1]]
        Exec.serial += 1
        u = sym.sym("u%d@%d" % (Exec.serial, node["l"]))
        self.dry_forget([node.get("body")])
        self.havoc([node.get("body")])
        if is_ref_type(var.get("t", "")):
            self.env[var["id"]] = ("alias", sym.idx(cell, u))
        else:
            self.env[var["id"]] = sym.idx(cell, u)
        b = []
        st = self.block(node.get("body"), b)
        eff = {"e": "loop", "var": u, "lo": ZERO, "cmp": "<", "hi": n, "step": I(1), "body": b, "l": node["l"], "name": "u", "range_for": True}
        if st in ("return", "exit"):
            eff["body_exits"] = True
        out.append(eff)
        self.forget_stores_in(b)
        self.havoc([node.get("body")])
        return True

    def _switch_as_ifs(self, node, out):
        """switch (c) { case L1: S..; case L2: S..; break; default: .. }  with a side-effect-free c, constant labels and `break`
        only at the top level of the body: the chain  if (c == L1) {S from L1 up to the next break} else if (c == L2) {...} else {default}"""
        cond, body = node.get("c"), node.get("body")
        if cond is None or not isinstance(body, dict) or body.get("k") != "block":
            return False
        if assigned_ids([cond])[0] or any(n.get("k") in ("call", "mcall", "opcall") for n in walk(cond)):
            return False
        items = []

        def flat_(n):
            if isinstance(n, dict) and n.get("k") == "case":
                items.append(("label", n.get("v")))
                flat_(n.get("body"))
            elif isinstance(n, dict) and n.get("k") == "default":
                items.append(("label", None))
                flat_(n.get("body"))
            elif n is not None:
                items.append(("stmt", n))
        for st_ in body.get("s", []):
            flat_(st_)
        labels = [(k_, it[1]) for k_, it in enumerate(items) if it[0] == "label"]
        if not labels or items[0][0] != "label":
            return False
        paths_ = []
        for pos, lab in labels:
            path = []
            for kind, n in items[pos + 1:]:
                if kind == "label":
                    continue
                if n.get("k") == "break":
                    break
                if any(m.get("k") in ("case", "default") for m in walk(n)) or "break" in self._own_jumps(n):
                    return False
                path.append(n)
            paths_.append((lab, path))
        l = node["l"]
        chain = None
        default = next((p_ for lab, p_ in paths_ if lab is None), [])
        chain = {"k": "block", "s": default, "l": l}
        for lab, path in reversed([x for x in paths_ if x[0] is not None]):
            chain = {"k": "if", "l": l, "c": {"k": "bin", "op": "==", "a": cond, "b": lab, "t": "bool", "l": l},
                     "then": {"k": "block", "s": path, "l": l}, "else": chain}
        self.block(chain, out)
        return True

    def _tracked_ref(self, e):
        return isinstance(e, dict) and e.get("k") == "ref" and e.get("rk") in ("local", "param") and \
            e.get("id") in self.env and not (isinstance(self.env[e["id"]], tuple) and
                                             self.env[e["id"]][0] in ("cell", "alias"))

    def declare(self, dv, out):
        t = dv.get("t", "")
        vid = dv["id"]
        init = dv.get("init")
        if dv.get("static") or dv.get("tls"):
            # static local: a global object; its initialiser is its (only) value if it is const
            g = ("glob", dv.get("q", dv["n"]) + "@" + self.fn.d["q"])
            if dv.get("const") and init is not None:
                scratch = []
                val = self.ev(init, scratch)
                # usable as "the" value only when it is the same in every call: no allocation, no parameter, no object state
                # (a value-returning call on constant arguments is a constant as long as the callee is deterministic)
                pure = val is not None and not any(st[0] in ("obj", "new", "sym", "var", "fld", "glob", "unk") for st in sym.subterms(val))
                if pure:
                    out.extend(scratch)
                    self.env[vid] = val
                    return
                # initialised once, by whichever call came first: a global cell holding that first value
                out.extend(scratch)
                out.append({"e": "store", "lv": g, "op": "=", "val": val if val is not None else ("unk", "init"), "l": dv["l"], "t": t, "ct": "",
                            "once": True})
            elif init is not None:
                # a non-const static with an initialiser: also initialised only by the first call
                scratch = []
                val = self.ev(init, scratch)
                out.extend(scratch)
                pure = val is not None and not any(st[0] in ("obj", "new", "sym", "var", "fld", "glob", "unk") for st in sym.subterms(val))
                out.append({"e": "store", "lv": g, "op": "=", "val": val if val is not None else ("unk", "init"), "l": dv["l"], "t": t, "ct": "",
                            "once": not pure, "static_init": True})
            self.env[vid] = ("cell", g, None)
            return
        if is_ref_type(t):
            self.env[vid] = ("alias", self.lv(init, out)) if init is not None else ("unk", "ref")
            return
        if "(lambda at" in t and init is not None:
            lam = next((n_ for n_ in walk(init) if n_.get("k") == "lambda"), None)
            if lam is not None:
                self.env[vid] = ("lambda", lam.get("cusr"), lam.get("l"))
                return
        tracked = is_scalar_type(t) and vid not in self.addr_taken and "extent" not in dv and "vla" not in dv
        if tracked:
            if init is not None:
                self.env[vid] = self.ev(init, out)
                if vid in self.assigned:
                    out.append({"e": "local", "name": dv["n"], "id": vid, "op": "decl", "val": self.env[vid],
                                "new": self.env[vid], "l": dv["l"]})
            else:
                self.env[vid] = ("unk", "uninit:%s" % dv["n"])
            return
        cell = ("var", dv["n"], vid)
        self.env[vid] = ("cell", cell, None)
        if strip_cv(t).startswith("std::vector<") and init is not None and init.get("k") == "construct" and \
                1 <= len([a for a in init.get("args", []) if isinstance(a, dict) and a.get("k") != "defarg"]) <= 2:
            # std::vector<T> v(n) / v(n, x): a local array of n elements (value-initialised or filled with x)
            vargs = [a for a in init.get("args", []) if isinstance(a, dict) and a.get("k") != "defarg"]
            ext = self._clamp(self.ev(vargs[0], out))
            self.extents[cell] = ext
            out.append({"e": "localarray", "lv": cell, "extent": ext, "t": t, "l": dv["l"], "init": True, "vector": True})
            Exec.serial += 1
            u = sym.sym("u%d@%d" % (Exec.serial, dv["l"]))
            fillv = self.ev(vargs[1], out) if len(vargs) == 2 else ZERO
            out.append({"e": "loop", "var": u, "lo": ZERO, "cmp": "<", "hi": ext, "step": I(1), "l": dv["l"], "name": "u",
                        "body": [{"e": "store", "lv": sym.idx(cell, u), "op": "=", "val": fillv, "l": dv["l"], "t": "", "ct": ""}],
                        "algorithm": "std::vector"})
            return
        if "extent" in dv or "vla" in dv:
            ext = I(int(dv["extent"])) if "extent" in dv else self.ev(dv["vla"], out)
            self.extents[cell] = ext
            out.append({"e": "localarray", "lv": cell, "extent": ext, "t": t, "l": dv["l"]})
        if init is not None:
            if init.get("k") == "construct":
                args = [self.ev(a, out) for a in init.get("args", [])]
                self.emit_call(init, init.get("callee", "?"), args, out, this=sym.addr(cell))
            elif init.get("k") == "initlist" and ("extent" in dv or "vla" in dv):
                # T a[] = {x, y, ...}: one remembered element per initialiser (the array name itself stays an address)
                vals = [self.ev(a, out) for a in init.get("args", [])]
                out.append({"e": "store", "lv": cell, "op": "=", "val": ("call", "{}", tuple(vals)), "l": dv["l"]})
                for k_, val in enumerate(vals):
                    out.append({"e": "store", "lv": sym.idx(cell, I(k_)), "op": "=", "val": val, "l": dv["l"], "element_init": True})
                    self.remember(sym.idx(cell, I(k_)), val)
            else:
                val = self.ev(init, out)
                out.append({"e": "store", "lv": cell, "op": "=", "val": val, "l": dv["l"]})
                self.remember(cell, val)

    def do_if(self, node, out):
        if node.get("init"):
            self.block(node["init"], out)
        cond = self.ev(node["c"], out)
        dec = self.hooks.decide(self, cond)
        if dec is True:
            return self.block(node.get("then"), out)
        if dec is False:
            return self.block(node.get("else"), out) if node.get("else") else "fall"
        env0 = dict(self.env)
        mem0 = dict(self.mem)
        th, el = [], []
        st_t = self.block(node.get("then"), th)
        env_t = self.env
        mem_t = dict(self.mem)
        self.env = dict(env0)
        self.mem.clear()
        self.mem.update(mem0)
        st_e = self.block(node.get("else"), el) if node.get("else") else "fall"
        env_e = self.env
        mem_e = dict(self.mem)
        self.mem.clear()
        if st_t != "fall" and st_e == "fall":
            self.mem.update(mem_e)
        elif st_e != "fall" and st_t == "fall":
            self.mem.update(mem_t)
        else:
            self.mem.update({k: v for k, v in mem_t.items() if mem_e.get(k) == v})
            # the cell of a local variable (a local handed to an inlined callee by reference) assigned on one side only
            for k in set(mem_t) | set(mem_e):
                if k[0] == "var" and k not in self.mem:
                    self.mem[k] = ("cond", cond, mem_t.get(k, mem0.get(k, k)), mem_e.get(k, mem0.get(k, k)))
        t_exits = st_t in ("return", "exit")
        e_exits = st_e in ("return", "exit")
        out.append({"e": "if", "cond": cond, "then": th, "else": el, "l": node["l"],
                    "then_exits": t_exits, "else_exits": e_exits, "then_status": st_t, "else_status": st_e})
        if st_t != "fall" and st_e != "fall":
            self.env = env_e
            if st_t == st_e:
                return st_t
            return "return" if {st_t, st_e} <= {"return", "exit"} else "fall"
        if st_t != "fall":
            self.env = env_e
            return "fall"
        if st_e != "fall":
            self.env = env_t
            return "fall"
        merged = {}
        for k in set(env_t) | set(env_e):
            a, b = env_t.get(k), env_e.get(k)
            if a == b:
                merged[k] = a
            elif a is None or b is None:
                merged[k] = a if a is not None else b
            else:
                merged[k] = ("cond", cond, a, b)
        self.env = merged
        return "fall"

    def havoc(self, node):
        asg, _ = assigned_ids(node)
        for vid in asg:
            if vid in self.env and not (isinstance(self.env[vid], tuple) and self.env[vid][0] in ("cell", "alias")):
                name = self._name_of(vid)
                self.env[vid] = ("var", name, vid)

    def _name_of(self, vid):
        for n in walk([self.fn.d.get("body"), self.fn.d.get("params")]):
            if n.get("id") == vid and "n" in n:
                return n["n"]
        return "v%d" % vid

    # ---- loops ---------------------------------------------------------------------------------------
    # A counted loop has one primary induction variable (tested by the condition, stepped by the increment)
    # and any number of DERIVED induction variables: locals whose value after one iteration is their value
    # before it plus a loop-invariant amount on every path through the body (pointer walking, a second
    # counter, `*p++` in a nested loop).  A derived variable is a closed form of the primary one inside the
    # loop, and of the trip count after it.  A pointer used as the primary variable gets an integer counter.
    @staticmethod
    def _own_jumps(body):
        """kinds of jump statements under body that belong to this loop (not to a nested loop)"""
        found = set()

        def go(n, in_switch):
            if isinstance(n, list):
                for x in n:
                    go(x, in_switch)
                return
            if not isinstance(n, dict):
                return
            k = n.get("k")
            if k in ("for", "while", "do", "forrange"):
                for x in walk(n):
                    if x.get("k") == "return":
                        found.add("return")
                return
            if k == "continue":
                found.add("continue")
            elif k == "break" and not in_switch:
                found.add("break")
            elif k in ("return", "goto"):
                found.add("return")
            for v in n.values():
                if isinstance(v, (dict, list)):
                    go(v, in_switch or k == "switch")
        go(body, False)
        return found

    def detect_derived(self, body, latch_nodes, vid, lv_term):
        """{id: per-iteration increment} of the derived induction variables of a loop (see above)"""
        asg, _ = assigned_ids([body] + latch_nodes)
        cands = [i for i in asg if i != vid and i in self.env and
                 not (isinstance(self.env[i], tuple) and self.env[i][0] in ("cell", "alias", "unk"))]
        if not cands:
            return {}
        jumps = self._own_jumps(body)
        env0, mem0 = dict(self.env), dict(self.mem)
        self.havoc([body] + latch_nodes)
        marks = {}
        for i in cands:
            marks[i] = sym.sym("$entry:%d" % i)
            self.env[i] = marks[i]
        if vid is not None:
            self.env[vid] = lv_term
        scratch = []
        saved_ce = getattr(self, "_cont_envs", None)
        self._cont_envs = []
        try:
            self.block(body, scratch)
            cont_envs = self._cont_envs
            self._cont_envs = None
            after_body = {i: self.env.get(i) for i in cands}
            for q in latch_nodes:
                self.ev(q, scratch, stmt=True)
            fin = {i: self.env.get(i) for i in cands}
        finally:
            self._cont_envs = saved_ce
            self.env = env0
            self.mem.clear()
            self.mem.update(mem0)
        res = {}
        bad_atoms = set(marks.values())
        if lv_term is not None:
            bad_atoms.add(lv_term)
        def invariant(t):
            return not any(st in bad_atoms or (st[0] == "var" and len(st) > 2 and st[2] in asg) or st[0] == "unk"
                           for st in sym.subterms(t))
        for i in cands:
            f = fin[i]
            if f is None:
                continue
            if "continue" in jumps and after_body[i] != marks[i]:
                # stepped inside the body of a loop with `continue`: fine when every `continue` is reached with the same value
                # as the end of the body (all steps happen before the first `continue`)
                if not cont_envs or any(ce.get(i) != after_body[i] for ce in cont_envs):
                    continue
            g = f
            while g[0] == "cast":
                g = g[2]
            if g[0] == "op" and g[1] in ("<<", ">>") and g[2] == marks[i] and invariant(g[3]):
                # x <<= c  (x >>= c): after k iterations x is entry << c*k -- the bits shifted out are lost either way
                res[i] = ("shl" if g[1] == "<<" else "shr", g[3])
                continue
            base, off = sym.ptr_split(f)
            if base == marks[i]:
                delta = off
            else:
                lin = sym.linear_in(f, marks[i]) if sym.contains(f, marks[i]) else None
                if lin is None or lin[0] != I(1):
                    continue
                delta = lin[1]
            if not invariant(delta):
                continue
            res[i] = ("add", delta)
        return res

    @staticmethod
    def _per_step(delta, step):
        """delta / step as a term when that is exact, else None"""
        if step == I(1):
            return delta
        if step == I(-1):
            return sym.neg(delta)
        if delta == step or sym.trip_counts_nonneg(delta) == step:
            # (the amount is the trip count of an inner loop over [0, step): equal to step when step >= 0, and an ascending
            # loop with a negative step does not terminate)
            return I(1)
        cd, cs = sym.const_value(delta), sym.const_value(step)
        if cd is not None and cs not in (None, 0) and cd % cs == 0:
            return I(cd // cs)
        return None

    def _is_ptr_ref(self, a):
        return strip_cv(a.get("t", "")).endswith("*")

    def _bind_derived(self, derived, entry, count):
        for i, (kind, d) in derived.items():
            if isinstance(d, tuple) and d and d[0] == "per_iter":
                off = sym.mul(d[1], sym.binop("/", count, d[2]))
            else:
                off = sym.mul(d, count)
            e0 = entry[i]
            if kind == "add":
                self.env[i] = sym.padd(e0, off) if self._ptr_ids.get(i) else sym.add(e0, off)
            else:
                self.env[i] = sym.binop("<<" if kind == "shl" else ">>", e0, off)

    def _step_in_condition(self, node):
        """for (...; j-- > 0; ) / while (n-- > 0): the step is part of the test.  Rewritten to the equivalent counted loop
        `j += d; for (; (j - d) > 0; j += d)` (post form; the pre form tests the new value), which runs the same iterations
        with the same values of j in the body and leaves j at the same final value."""
        cond = node.get("c")
        if not (isinstance(cond, dict) and cond.get("k") == "bin" and cond.get("op") in ("<", "<=", ">", ">=", "!=")):
            return None
        for side, other in (("a", "b"), ("b", "a")):
            u = cond[side]
            while isinstance(u, dict) and u.get("k") == "cast" and u.get("ck") in ("LValueToRValue", "NoOp", "IntegralCast"):
                u = u["a"]
            if isinstance(u, dict) and u.get("k") == "un" and u.get("op") in ("++", "--") and isinstance(u.get("a"), dict) \
                    and u["a"].get("k") == "ref" and self._tracked_ref(u["a"]) and not self._is_ptr_ref(u["a"]):
                ref = u["a"]
                ids_other = {n.get("id") for n in walk(cond[other]) if n.get("k") == "ref"}
                asg, _ = assigned_ids([node.get("body"), node.get("inc")])
                if ref["id"] in ids_other or ref["id"] in asg:
                    return None
                d = 1 if u["op"] == "++" else -1
                l = node["l"]
                tested = ref if not u.get("post") else {"k": "bin", "op": "-", "a": ref, "b": {"k": "int", "v": str(d), "l": l, "t": "int"},
                                                       "l": l, "t": ref.get("t", "int")}
                c2 = dict(cond)
                c2[side] = tested
                step = {"k": "un", "op": u["op"], "a": ref, "post": False, "l": l, "t": ref.get("t", "int")}
                inc = node.get("inc")
                inc2 = step if inc is None else {"k": "bin", "op": ",", "a": inc, "b": step, "l": l, "t": ref.get("t", "int")}
                return ref, d, {"k": "for", "init": None, "c": c2, "inc": inc2, "body": node.get("body"), "l": l}
        return None

    def _counted_by_body(self, node, cond, parts, body, out):
        """while (q != end) { ... --q ... }  /  for (...; q != end; ) { ... }: every variable that changes by a loop-invariant amount
        per iteration (on every path) is a closed form of an iteration counter k = 0, 1, ...; the condition, evaluated at the top
        of iteration k, must be a comparison that is linear in k with unit slope, which gives the trip count.
        Returns True when the loop was emitted as a counted loop over k."""
        jumps = self._own_jumps(body)
        if jumps & {"continue"} and not parts:
            pass
        derived = self.detect_derived(body, parts, None, None)
        derived = {i: kd for i, kd in derived.items() if kd[0] == "add" or True}
        cond_ids = {n.get("id") for n in walk(cond) if n.get("k") == "ref"}
        prim = [i for i, (kind, d) in derived.items() if i in cond_ids and kind == "add" and sym.const_value(d) not in (None, 0)]
        if len(prim) != 1:
            return False
        asg, _ = assigned_ids([cond])
        if asg:
            return False
        pid = prim[0]
        pname = self._name_of(pid)
        k = sym.sym("%s#@%d" % (pname, node["l"]))
        entry = {i: self.env[i] for i in derived}
        self._ptr_ids = getattr(self, "_ptr_ids", {})
        for n_ in walk([body] + list(parts) + [cond]):
            if n_.get("k") == "ref" and n_.get("id") in derived:
                self._ptr_ids[n_["id"]] = self._is_ptr_ref(n_)
        self.dry_forget([body] + list(parts))
        self.havoc([body] + list(parts))
        self._bind_derived(derived, entry, k)
        c = self.ev(cond, out)
        cmpop = hi = None
        if c[0] == "op" and c[1] in ("<", "<=", ">", ">=", "!="):
            flip = {"<": ">", "<=": ">=", ">": "<", ">=": "<=", "!=": "!="}
            lin = sym.linear_in(sym.sub(c[2], c[3]), k)
            sl = sym.const_value(lin[0]) if lin is not None else None
            if sl == 1:
                cmpop, hi = c[1], sym.neg(lin[1])
            elif sl == -1:
                cmpop, hi = flip[c[1]], lin[1]
            elif sl is not None and sl != 0 and c[1] != "!=":
                # s*K + D (op) 0 with |s| = m > 1: normalised to m*K < D', i.e. K < ceil(D'/m) = (D' + m - 1) / m
                op_, D_, m_ = c[1], lin[1], abs(sl)
                if sl > 0:                      # m*K + D op 0
                    Dp = {"<": sym.neg(D_), "<=": sym.add(sym.neg(D_), I(1))}.get(op_)
                else:                           # -m*K + D op 0  <=>  m*K (flipped op) D
                    Dp = {">": D_, ">=": sym.add(D_, I(1))}.get(op_)
                if Dp is not None:
                    cmpop, hi = "<", sym.binop("/", sym.add(Dp, I(m_ - 1)), I(m_))
            if cmpop == "!=":
                cmpop = "<"
        if cmpop == "<":
            hi = self._clamp(hi)
        if cmpop not in ("<", "<=") or sym.contains(hi, k):
            for i, e0 in entry.items():
                self.env[i] = e0
            return False
        b = []
        st = self.block(body, b)
        latch = []
        for q in parts:
            self.ev(q, latch, stmt=True)
        eff = {"e": "loop", "var": k, "lo": ZERO, "cmp": cmpop, "hi": hi, "step": I(1), "body": b, "l": node["l"], "name": pname,
               "derived": {self._name_of(i): d for i, (kind, d) in derived.items()}, "counted_by_body": True}
        if latch:
            eff["latch"] = latch
        if st in ("return", "exit"):
            eff["body_exits"] = True
        out.append(eff)
        self.forget_stores_in(b + latch)
        self.havoc([body] + list(parts))
        if not eff.get("body_exits") and not ({"break", "return"} & jumps):
            self._bind_derived(derived, entry, loop_end(eff))
        return True

    def _peel_first(self, node):
        """for (T v = LO; v < hi; ++v, ...) { P; if (v == LO) { A; continue; } R }  with a literal LO and P free of jumps:
        the first iteration is special-cased inside the loop.  -> (the statement `if (cond) { P; A; inc }` for v = LO, the loop
        `for (T v = LO+1; ...) { P; R }`), or None.  After it, variables stepped only in R (a noise pointer that is not advanced
        for the row that needs no noise) have a constant step per iteration again."""
        init, cond, inc, body = node.get("init"), node.get("c"), node.get("inc"), node.get("body")
        if not (isinstance(init, dict) and init.get("k") == "decl" and len(init.get("d", [])) == 1 and isinstance(body, dict) and body.get("k") == "block"
                and isinstance(inc, dict) and isinstance(cond, dict)):
            return None
        dv = init["d"][0]
        i0 = dv.get("init")
        if not (dv.get("k") == "var" and isinstance(i0, dict) and i0.get("k") == "int"):
            return None
        vid, lo = dv.get("id"), int(i0["v"])
        is_v = lambda e_: isinstance(e_, dict) and (e_.get("k") == "ref" and e_.get("id") == vid or
                                                    e_.get("k") == "cast" and e_.get("implicit") and is_v(e_.get("a")))
        if not (cond.get("k") == "bin" and cond.get("op") in ("<", "<=", "!=") and is_v(cond.get("a"))):
            return None
        if not any(n_.get("k") == "un" and n_.get("op") == "++" and is_v(n_.get("a")) for n_ in walk(inc)) or \
                any(n_.get("k") in ("assign", "un") and n_.get("op") in ("=", "+=", "-=", "--") and is_v(n_.get("a")) for n_ in walk(inc)):
            return None
        ss = body["s"]
        for q, st_ in enumerate(ss):
            if st_.get("k") != "if":
                if any(n_.get("k") in ("continue", "break", "return", "goto", "for", "while", "do", "switch") for n_ in walk(st_)):
                    return None
                continue
            c_ = st_.get("c")
            then = st_.get("then")
            if st_.get("else") is not None or not (isinstance(c_, dict) and c_.get("k") == "bin" and c_.get("op") == "=="):
                return None
            a_, b_ = c_.get("a"), c_.get("b")
            lit = b_ if is_v(a_) else a_ if is_v(b_) else None
            if not (isinstance(lit, dict) and lit.get("k") == "int" and int(lit["v"]) == lo):
                return None
            ts = then["s"] if isinstance(then, dict) and then.get("k") == "block" else [then]
            if not ts or ts[-1].get("k") != "continue" or any(n_.get("k") in ("continue", "break", "return", "goto") for t_ in ts[:-1] for n_ in walk(t_)):
                return None
            # the induction variable must not be assigned in the body
            if any(n_.get("k") in ("assign", "un") and n_.get("op") in ("=", "+=", "-=", "++", "--") and is_v(n_.get("a")) for n_ in walk(body)):
                return None
            peeled = {"k": "if", "c": cond, "then": {"k": "block", "s": list(ss[:q]) + list(ts[:-1]) + [inc], "l": node["l"]}, "l": node["l"]}
            dv2 = dict(dv, init=dict(i0, v=str(lo + 1)))
            rest = dict(node, init=dict(init, d=[dv2]), body=dict(body, s=list(ss[:q]) + list(ss[q + 1:])))
            return peeled, rest
        return None

    def do_for(self, node, out):
        pf = self._peel_first(node) if not getattr(self, "unroll", False) else None
        if pf is not None:
            peeled, rest = pf
            self.block(node["init"], out)
            self.block(peeled, out)
            return self.do_for(rest, out)
        init, cond, inc, body = node.get("init"), node.get("c"), node.get("inc"), node.get("body")
        if inc is None and cond is not None and cond.get("k") == "bin" and (init is None or init.get("k") in ("decl", "assign")) and \
                any(isinstance(cond.get(sd), dict) and cond[sd].get("k") == "un" and cond[sd].get("op") in ("++", "--") for sd in ("a", "b")):
            if init is not None:
                if init.get("k") == "decl":
                    self.block(init, out)
                else:
                    self.ev(init, out, stmt=True)
                node = dict(node, init=None)
                init = None
            sc = self._step_in_condition(node)
            if sc is not None:
                ref, d, node2 = sc
                self.env[ref["id"]] = sym.add(self.env[ref["id"]], I(d))
                out.append({"e": "local", "name": ref["n"], "id": ref["id"], "op": "++" if d > 0 else "--", "val": self.env[ref["id"]], "l": node["l"]})
                return self.do_for(node2, out)
        parts = []

        def flat_comma(nd):
            if isinstance(nd, dict) and nd.get("k") == "bin" and nd.get("op") == ",":
                flat_comma(nd["a"]); flat_comma(nd["b"])
            elif nd is not None:
                parts.append(nd)
        flat_comma(inc)

        def is_step(q, want=None):
            if not isinstance(q, dict) or not isinstance(q.get("a"), dict) or q["a"].get("k") != "ref":
                return False
            if want is not None and q["a"].get("id") != want:
                return False
            return (q.get("k") == "un" and q.get("op") in ("++", "--")) or \
                (q.get("k") == "assign" and q.get("op") in ("+=", "-="))
        # recognise canonical induction: one variable, affine bound, constant step
        var = None
        init_done = False
        if init and init.get("k") == "decl" and len(init["d"]) == 1 and init["d"][0].get("init") is not None \
                and any(is_step(q, init["d"][0]["id"]) for q in parts):
            var = init["d"][0]
            lo = self.ev(var["init"], out)
            vid, vname = var["id"], var["n"]
        elif init and init.get("k") == "assign" and init.get("op") == "=" and init["a"].get("k") == "ref" \
                and any(is_step(q, init["a"].get("id")) for q in parts):
            vid, vname = init["a"]["id"], init["a"]["n"]
            lo = self.ev(init["b"], out)
            var = init["a"]
        elif parts and cond is not None:
            # general form: run the initialisation, then take as primary the stepped variable the condition tests
            cond_ids = {n.get("id") for n in walk(cond) if n.get("k") == "ref"}
            cand = [q for q in parts if is_step(q) and q["a"].get("id") in cond_ids]
            if len({q["a"]["id"] for q in cand}) == 1 and len(cand) == 1:
                if init is not None:
                    if init.get("k") == "decl":
                        self.block(init, out)
                    else:
                        self.ev(init, out, stmt=True)
                    init_done = True
                tgt = cand[0]["a"]
                if self._tracked_ref(tgt):
                    vid, vname = tgt["id"], tgt["n"]
                    lo = self.env[vid]
                    var = tgt
        step = None
        latch_nodes = []
        if var is not None:
            steps = [q for q in parts if is_step(q, vid)]
            if len(steps) == 1:
                latch_nodes = [q for q in parts if q is not steps[0]]
                q = steps[0]
                if q.get("k") == "un":
                    step = I(1 if q["op"] == "++" else -1)
                else:
                    sv = self.ev(q["b"], out)
                    step = sv if q["op"] == "+=" else sym.neg(sv)
        body_asg, _ = assigned_ids([body] + latch_nodes)
        is_ptr = var is not None and self._is_ptr_ref(var)
        ok = var is not None and step is not None and cond is not None and vid not in body_asg and \
            not (is_ptr and step not in (I(1), I(-1)))
        self.dry_forget([cond, inc, body] if not ok else [body] + latch_nodes)
        if ok:
            if is_ptr:
                # pointer walking: an integer counter is the induction variable, the pointer is lo + step*counter
                lv = sym.sym("%s#@%d" % (vname, node["l"]))
                ptr_of = lambda c_: sym.padd(lo, sym.mul(step, c_))
                eff_lo, eff_step = ZERO, I(1)
                lv_for_detect = ptr_of(lv)
            else:
                lv = sym.sym("%s@%d" % (vname, node["l"]))
                eff_lo, eff_step = lo, step
                lv_for_detect = lv
            derived = self.detect_derived(body, latch_nodes, vid, lv_for_detect)
            per = {i: self._per_step(d, eff_step) for i, (kind, d) in derived.items()}
            for i, (kind, d) in derived.items():
                # a step that does not divide the amount (remaining -= 64 while a pointer advances by a block): the amount is
                # gained once per iteration, i.e. (v - lo)/step times -- an exact quotient, the variable moves in whole steps
                if per[i] is None and kind == "add" and sym.const_value(eff_step) not in (None, 0):
                    per[i] = ("per_iter", d, eff_step)
            derived = {i: (derived[i][0], per[i]) for i in derived if per[i] is not None}
            entry = {i: self.env[i] for i in derived}
            self._ptr_ids = getattr(self, "_ptr_ids", {})
            for n_ in walk([body] + latch_nodes):
                if n_.get("k") == "ref" and n_.get("id") in derived:
                    self._ptr_ids[n_["id"]] = self._is_ptr_ref(n_)
            self.havoc([body] + latch_nodes)
            self.env[vid] = lv_for_detect
            self._bind_derived(derived, entry, sym.sub(lv, eff_lo))
            c = self.ev(cond, out)
            cmpop, hi = None, None
            if c[0] == "op" and c[1] in ("<", "<=", ">", ">=", "!="):
                flip = {"<": ">", "<=": ">=", ">": "<", ">=": "<=", "!=": "!="}
                if c[2] == lv:
                    cmpop, hi = c[1], c[3]
                elif c[3] == lv:
                    cmpop, hi = flip[c[1]], c[2]
                else:
                    # i + d < n  (the induction variable with a constant offset, integer arithmetic without wrap):
                    # normalise to i < n - d
                    lin = sym.linear_in(sym.sub(c[2], c[3]), lv)
                    if lin is not None and lin[0] == I(1):
                        cmpop, hi = c[1], sym.neg(lin[1])
                    elif lin is not None and lin[0] == I(-1):
                        cmpop, hi = flip[c[1]], lin[1]
                if cmpop == "!=":
                    # i != hi with a unit step: the loop stops when it reaches hi (overshooting is undefined
                    # behaviour for pointers and signed counters, and is not considered)
                    cs = sym.const_value(eff_step)
                    cmpop = "<" if cs == 1 else ">" if cs == -1 else None
            if cmpop == "<" and hi is not None:
                hi = self._clamp(hi, eff_lo)       # i < max(X, lo): the loop is empty whenever X <= lo, so the bound is X
            if cmpop is not None and not sym.contains(hi, lv):
                b = []
                st = self.block(body, b)
                latch = []
                for q in latch_nodes:
                    self.ev(q, latch, stmt=True)
                eff = {"e": "loop", "var": lv, "lo": eff_lo, "cmp": cmpop, "hi": hi, "step": eff_step, "body": b,
                       "l": node["l"], "name": vname}
                if latch:
                    eff["latch"] = latch
                if derived:
                    eff["derived"] = {self._name_of(i): (d[1] if isinstance(d, tuple) and d and d[0] == "per_iter" else d) for i, (kind, d) in derived.items()}
                if is_ptr:
                    eff["pointer"] = lo
                if st in ("return", "exit"):
                    eff["body_exits"] = True
                out.append(eff)
                self.forget_stores_in(b + latch)
                self.havoc([body] + latch_nodes)
                jumps = self._own_jumps(body)
                if not eff.get("body_exits") and not ({"break", "return"} & jumps):
                    end = loop_end(eff)
                    self.env[vid] = ptr_of(end) if is_ptr else end
                    self._bind_derived(derived, entry, sym.sub(end, eff_lo))
                else:
                    self.env[vid] = ("var", vname, vid)
                return "fall"
            # complex condition (e.g. two-variable loops): fall through to generic form
            self.env[vid] = lo
            for i, e0 in entry.items():
                self.env[i] = e0
        # a loop whose counting variable is stepped inside the body (or that has no increment expression)
        if init is not None and not init_done:
            if init.get("k") == "decl":
                self.block(init, out)
            else:
                self.ev(init, out, stmt=True)
            init_done = True
        if cond is not None and self._counted_by_body(node, cond, parts, body, out):
            return "fall"
        # generic
        self.havoc([cond, inc, body])
        b = []
        c = self.ev(cond, b) if cond is not None else I(1)
        self.block(body, b)
        if inc is not None:
            self.ev(inc, b, stmt=True)
        self.havoc([cond, inc, body])
        out.append({"e": "while", "cond": c, "body": b, "l": node["l"], "kind": "for?"})
        self.forget_stores_in(b)
        return "fall"

    def dry_forget(self, nodes):
        """tracked memory cells stored anywhere in a loop are loop-carried: find them by a dry run of the
        body (effects discarded) and forget them before the real run"""
        if not self.mem:
            return
        env0, mem0, ser0 = dict(self.env), dict(self.mem), Exec.serial
        scratch = []
        self.havoc(nodes)
        for n in nodes:
            if n is None:
                continue
            if n.get("k") in ("block", "if", "for", "while", "do", "decl", "return", "break", "continue", "asm"):
                self.block(n, scratch)
            else:
                self.ev(n, scratch, stmt=True)
        self.env = env0
        self.mem.clear()
        self.mem.update(mem0)
        self.forget_stores_in(scratch)

    def _do_while_counted(self, node, out):
        """do { body } while (cond): the body runs once, and again as long as the condition -- evaluated after the body --
        holds.  With every stepped variable a closed form of the iteration number K, the condition after iteration K must be
        linear in K with unit slope, K < H; the iterations are K = 0 .. max(0, H), i.e. a counted loop over [0, H + 1) that runs
        at least once (flag `at_least_once`; for H >= 0 it is the plain loop)."""
        cond, body = node.get("c"), node.get("body")
        if cond is None:
            return False
        parts = []
        c2 = cond
        if isinstance(cond, dict) and cond.get("k") == "bin" and cond.get("op") in ("<", "<=", ">", ">=", "!="):
            for side in ("a", "b"):
                u = cond[side]
                if isinstance(u, dict) and u.get("k") == "un" and u.get("op") in ("++", "--") and isinstance(u.get("a"), dict) \
                        and u["a"].get("k") == "ref" and self._tracked_ref(u["a"]):
                    ref = u["a"]
                    d = 1 if u["op"] == "++" else -1
                    l = node["l"]
                    parts = [{"k": "un", "op": u["op"], "a": ref, "post": False, "l": l, "t": ref.get("t", "int")}]
                    tested = ref if not u.get("post") else {"k": "bin", "op": "-", "a": ref, "b": {"k": "int", "v": str(d), "l": l, "t": "int"},
                                                           "l": l, "t": ref.get("t", "int")}
                    c2 = dict(cond)
                    c2[side] = tested
                    break
        asg, _ = assigned_ids([c2])
        if asg:
            return False
        derived = self.detect_derived(body, parts, None, None)
        cond_ids = {n.get("id") for n in walk(c2) if n.get("k") == "ref"}
        prim = [i for i, (kind, d) in derived.items() if i in cond_ids and kind == "add" and sym.const_value(d) in (1, -1)]
        if len(prim) != 1 or self._own_jumps(body) & {"continue", "break", "return"}:
            return False
        pname = self._name_of(prim[0])
        K = sym.sym("%s#@%d" % (pname, node["l"]))
        entry = {i: self.env[i] for i in derived}
        self._ptr_ids = getattr(self, "_ptr_ids", {})
        for n_ in walk([body] + parts + [c2]):
            if n_.get("k") == "ref" and n_.get("id") in derived:
                self._ptr_ids[n_["id"]] = self._is_ptr_ref(n_)
        self.dry_forget([body] + parts)
        self.havoc([body] + parts)
        self._bind_derived(derived, entry, K)
        b = []
        st = self.block(body, b)
        for q in parts:
            self.ev(q, b, stmt=True)
        scratch = []
        c = self.ev(c2, scratch)
        H = None
        if not scratch and c[0] == "op" and c[1] in ("<", "<=", ">", ">=", "!="):
            flip = {"<": ">", "<=": ">=", ">": "<", ">=": "<=", "!=": "!="}
            lin = sym.linear_in(sym.sub(c[2], c[3]), K)
            cmpop = hi = None
            if lin is not None and lin[0] == I(1):
                cmpop, hi = c[1], sym.neg(lin[1])
            elif lin is not None and lin[0] == I(-1):
                cmpop, hi = flip[c[1]], lin[1]
            if cmpop in ("<", "!="):
                H = hi
            elif cmpop == "<=":
                H = sym.add(hi, I(1))
        if H is None or sym.contains(H, K) or st != "fall":
            for i, e0 in entry.items():
                self.env[i] = e0
            return False
        eff = {"e": "loop", "var": K, "lo": ZERO, "cmp": "<", "hi": sym.add(H, I(1)), "step": I(1), "body": b, "l": node["l"], "name": pname,
               "derived": {self._name_of(i): d for i, (kind, d) in derived.items()}, "at_least_once": True}
        out.append(eff)
        self.forget_stores_in(b)
        self.havoc([body] + parts)
        # K after the loop: max(1, H + 1) = 1 + max(0, H)
        end = sym.add(I(1), ("call", "$loop_end", (ZERO, H, I(1), I(CMP_CODE["<"]), I(node["l"]))))
        self._bind_derived(derived, entry, end)
        return True

    def do_while(self, node, out):
        if node.get("k") == "do" and self._do_while_counted(node, out):
            return "fall"
        if node.get("k") == "while":
            sc = self._step_in_condition(node)
            if sc is not None:
                ref, d, node2 = sc
                self.env[ref["id"]] = sym.add(self.env[ref["id"]], I(d))
                out.append({"e": "local", "name": ref["n"], "id": ref["id"], "op": "++" if d > 0 else "--", "val": self.env[ref["id"]], "l": node["l"]})
                return self.do_for(node2, out)
        if node.get("k") == "while" and node.get("c") is not None and self._counted_by_body(node, node["c"], [], node.get("body"), out):
            return "fall"
        self.dry_forget([node.get("body")])
        self.havoc([node.get("c"), node.get("body")])
        b = []
        c = self.ev(node["c"], b)
        self.block(node.get("body"), b)
        self.havoc([node.get("c"), node.get("body")])
        out.append({"e": "while", "cond": c, "body": b, "l": node["l"], "kind": node["k"]})
        self.forget_stores_in(b)
        return "fall"

    # ------------------------------------------------------------------ expressions
    def lv(self, e, out):
        """lvalue term of expression e"""
        k = e.get("k")
        if k == "ref":
            rk = e.get("rk")
            if rk in ("local", "param", "static_local", "tls") and e.get("id") in self.env:
                v = self.env[e["id"]]
                if isinstance(v, tuple) and v[0] == "cell":
                    return v[1]
                if isinstance(v, tuple) and v[0] == "alias":
                    return v[1]
                return ("var", e["n"], e["id"])
            if rk in ("global", "class_static", "static_local", "tls"):
                return ("glob", e.get("q", e["n"]))
            if rk == "func":
                return ("glob", e.get("q", e["n"]))
            return ("var", e["n"], e.get("id", 0))
        if k == "member":
            if e.get("static_member"):
                return ("glob", e["static_member"])
            base = e["a"]
            if e.get("arrow"):
                return sym.arrow(self.ev(base, out), e["field"])
            return sym.fld(self.lv(base, out), e["field"])
        if k == "index":
            return sym.idx(self.ev(e["a"], out), self.ev(e["i"], out))
        if k == "un" and e.get("op") == "*":
            return sym.idx(self.ev(e["a"], out), ZERO)
        if k == "cast":
            return self.lv(e["a"], out)
        if k == "this":
            return sym.idx(self.this, ZERO)
        if k == "cond":
            return ("cond", self.ev(e["c"], out), self.lv(e["a"], out), self.lv(e["b"], out))
        if k in ("call", "mcall", "opcall"):
            return self.ev(e, out)   # reference-returning call
        if k == "assign" or (k == "un" and e.get("op") in ("++", "--")):
            self.ev(e, out)
            return self.lv(e["a"], out)
        if k == "str":
            return ("str", e.get("v", ""))
        if k in ("construct", "new", "initlist"):
            return self.ev(e, out)
        return ("unk", "lv:%s@%s" % (k, e.get("l")))

    def is_array_type(self, t):
        return t.endswith("]")

    def ev(self, e, out, stmt=False):
        if e is None:
            return None
        k = e.get("k")
        if k == "int":
            return I(int(e["v"]))
        if k == "float":
            return ("float", e.get("v"))
        if k == "str":
            return ("str", e.get("v", ""))
        if k == "null":
            return ZERO
        if k == "ref":
            rk = e.get("rk")
            if rk == "enum":
                return I(int(e["cv"])) if "cv" in e else ("sym", e["n"])
            if e.get("id") in self.env and rk in ("local", "param", "static_local", "tls"):
                v = self.env[e["id"]]
                if isinstance(v, tuple) and v[0] == "cell":
                    return self.load(v[1])
                if isinstance(v, tuple) and v[0] == "alias":
                    return self.load(v[1])
                return v
            if rk in ("global", "class_static", "static_local", "tls"):
                if "cv" in e and e.get("const"):
                    return I(int(e["cv"]))
                return ("glob", e.get("q", e["n"]))
            if rk == "func":
                return ("glob", e.get("q", e["n"]))
            return ("var", e["n"], e.get("id", 0))
        if k == "this":
            return self.this
        if k in ("member", "index"):
            return self.load(self.lv(e, out))
        if k == "sizeof":
            return I(int(e["cv"])) if "cv" in e else ("unk", "sizeof")
        if k == "cast":
            return self.do_cast(e, out)
        if k == "un":
            op = e["op"]
            if op == "&":
                return sym.addr(self.lv(e["a"], out))
            if op == "*":
                return self.load(self.lv(e, out))
            if op in ("++", "--"):
                return self.incdec(e, out)
            a = self.ev(e["a"], out)
            if is_float_type(e.get("t", "")) and op == "-":
                if a[0] == "float" and a[1] is not None:
                    return ("float", -a[1])
                return ("fop", "neg", a, ZERO)
            return sym.unop(op, a)
        if k == "bin":
            op = e["op"]
            if op == ",":
                self.ev(e["a"], out, stmt=True)
                return self.ev(e["b"], out)
            a = self.ev(e["a"], out)
            if op in ("&&", "||"):
                # short-circuit: effects of the right operand happen only when it is evaluated
                sub = []
                b = self.ev(e["b"], sub)
                if sub:
                    guard = a if op == "&&" else sym.unop("!", a)
                    dec = self.hooks.decide(self, guard)
                    if dec is True:
                        out.extend(sub)
                    elif dec is None:
                        out.append({"e": "if", "cond": guard, "then": sub, "else": [], "l": e["l"],
                                    "then_exits": False, "else_exits": False, "then_status": "fall",
                                    "else_status": "fall", "shortcircuit": True})
                return sym.binop(op, a, b)
            b = self.ev(e["b"], out)
            t = e.get("t", "")
            if is_float_type(t) or (op in ("<", ">", "<=", ">=", "==", "!=") and
                                    (is_float_type(e["a"].get("t", "")) or is_float_type(e["b"].get("t", "")))):
                if a[0] == "float" and b[0] == "float" and a[1] is not None and b[1] is not None and op in "+-*/":
                    try:
                        return ("float", {"+": a[1] + b[1], "-": a[1] - b[1], "*": a[1] * b[1],
                                          "/": a[1] / b[1]}[op])
                    except ZeroDivisionError:
                        pass
                return ("fop", op, a, b)
            ta_, tb_ = strip_cv(e["a"].get("t", "")), strip_cv(e["b"].get("t", ""))
            if op in ("<", ">", "<=", ">=", "==", "!=", "-") and (ta_.endswith("*") or ta_.endswith("]")) and \
                    (tb_.endswith("*") or tb_.endswith("]")):
                # two pointers into the same array: compare / subtract the element offsets
                (pa, oa), (pb, ob) = sym.ptr_split(a), sym.ptr_split(b)
                if pa != pb:
                    # a pointer field that its constructor sets to an element of another array of the same object (TLweSample::b is
                    # &a[k]): the same array
                    a2, b2 = self._field_alias(a), self._field_alias(b)
                    if (a2, b2) != (a, b):
                        (pa, oa), (pb, ob) = sym.ptr_split(a2), sym.ptr_split(b2)
                if pa == pb and (oa != ZERO or ob != ZERO):
                    return sym.binop(op, oa, ob)
            if t.endswith("*") and op in ("+", "-"):
                # pointer arithmetic
                at = strip_cv(e["a"].get("t", ""))
                if at.endswith("*") or at.endswith("]"):
                    return sym.padd(a, b if op == "+" else sym.neg(b))
                return sym.padd(b, a)
            return sym.binop(op, a, b)
        if k == "assign":
            return self.do_assign(e, out)
        if k == "cond":
            c = self.ev(e["c"], out)
            dec = self.hooks.decide(self, c)
            if dec is True:
                return self.ev(e["a"], out)
            if dec is False:
                return self.ev(e["b"], out)
            ta, tb = [], []
            va = self.ev(e["a"], ta)
            vb = self.ev(e["b"], tb)
            if ta or tb:
                # branches with effects (e.g. the expansion of assert): keep them conditional
                ex_a = bool(ta) and ta[-1].get("e") == "exit"
                ex_b = bool(tb) and tb[-1].get("e") == "exit"
                out.append({"e": "if", "cond": c, "then": ta, "else": tb, "l": e["l"], "then_exits": ex_a,
                            "else_exits": ex_b, "then_status": "exit" if ex_a else "fall",
                            "else_status": "exit" if ex_b else "fall", "condexpr": True})
            if va is None and vb is None:
                return None
            return ("cond", c, va, vb)
        if k in ("call", "mcall", "opcall", "construct"):
            return self.do_call(e, out)
        if k == "new":
            Exec.serial += 1
            size = self.ev(e["size"], out) if e.get("array") and e.get("size") is not None else None
            if e.get("placement"):
                where = self.ev(e["placement"][0], out)
                obj = where
            else:
                obj = ("new", e.get("alloc", "?"), size, Exec.serial)
                out.append({"e": "alloc", "how": "new[]" if e.get("array") else "new", "obj": obj, "size": size,
                            "t": e.get("alloc"), "l": e["l"]})
            c = e.get("ctor")
            if c is not None and c.get("k") == "construct":
                args = [self.ev(a, out) for a in c.get("args", [])]
                self.emit_call(c, c.get("callee", "?"), args, out, this=obj, array=size)
            elif e.get("init") is not None:
                out.append({"e": "store", "lv": sym.idx(obj, ZERO), "op": "=", "val": self.ev(e["init"], out), "l": e["l"]})
            return obj
        if k == "delete":
            v = self.ev(e["a"], out)
            out.append({"e": "delete", "val": v, "array": e.get("array", False), "l": e["l"], "dt": e.get("dt")})
            return None
        if k in ("defarg", "definit"):
            return self.ev(e["a"], out)
        if k == "throw":
            out.append({"e": "exit", "how": "throw", "l": e["l"]})
            return None
        if k == "initlist":
            return ("call", "{}", tuple(self.ev(a, out) for a in e.get("args", [])))
        if k == "zeroinit":
            return ZERO
        if k == "lambda":
            return ("lambda", e.get("cusr"), e.get("l"))
        if k == "stmtexpr":
            self.block(e.get("body"), out)
            return ("unk", "stmtexpr")
        if k == "other":
            if "cv" in e:
                try:
                    return I(int(e["cv"]))            # a compile-time constant the front end evaluated (offsetof)
                except (TypeError, ValueError):
                    pass
            for c in e.get("ch", []):
                if isinstance(c, dict):
                    self.ev(c, out)
            return ("unk", "%s@%s" % (e.get("cls"), e.get("l")))
        return ("unk", "%s@%s" % (k, e.get("l")))

    def do_cast(self, e, out):
        ck = e.get("ck")
        a = e["a"]
        if ck in ("BitCast", "NoOp", "LValueBitCast", "BaseToDerived", "DerivedToBase", "UncheckedDerivedToBase",
                  "Dynamic", "ConstructorConversion", "UserDefinedConversion"):
            v = self.ev(a, out)
            if e.get("drops_const"):
                out.append({"e": "constcast", "val": v, "from": e.get("from"), "to": e.get("t"), "l": e["l"]})
            if ck == "BitCast":
                s0 = pointee_size(e.get("from", ""), self.v.records)
                s1 = pointee_size(e.get("t", ""), self.v.records)
                if s0 is not None and s1 is not None and s0 != s1 and isinstance(v, tuple) and v[0] not in ("obj", "new", "int"):
                    # reinterpretation with a different element size: subscripts no longer count the same units
                    return ("cast", strip_cv(e["t"]), v)
            return v
        if ck in ("IntegralCast", "IntegralToBoolean", "BooleanToSignedIntegral"):
            v = self.ev(a, out)
            if self.casts == "drop":
                if ck == "IntegralToBoolean":
                    return sym.binop("!=", v, ZERO)
                return v
            if "cv" in e:
                return I(int(e["cv"]))
            return ("cast", strip_cv(e.get("t", "")), v)
        if ck in ("IntegralToFloating", "FloatingCast"):
            v = self.ev(a, out)
            if ck == "IntegralToFloating" and v[0] == "int":
                return ("float", float(v[1]))
            if ck == "FloatingCast":
                return v
            return ("cast", strip_cv(e.get("t", "")), v)
        if ck == "FloatingToIntegral":
            return ("cast", strip_cv(e.get("t", "")), self.ev(a, out))
        if ck in ("PointerToIntegral", "IntegralToPointer", "PointerToBoolean", "ToVoid", "NullToPointer"):
            v = self.ev(a, out)
            if ck == "PointerToBoolean":
                return sym.binop("!=", v, ZERO)
            return v
        v = self.ev(a, out)
        return v

    def incdec(self, e, out):
        a = e["a"]
        delta = I(1 if e["op"] == "++" else -1)
        if self._tracked_ref(a):
            old = self.env[a["id"]]
            if a.get("t", "").endswith("*"):
                new = sym.padd(old, delta)
            else:
                new = sym.add(old, delta)
            self.env[a["id"]] = new
            out.append({"e": "local", "name": a["n"], "id": a["id"], "op": e["op"], "val": new, "l": e["l"]})
            return old if e.get("post") else new
        lv = self.lv(a, out)
        out.append({"e": "store", "lv": lv, "op": "+=", "val": delta, "l": e["l"]})
        self.elem = {}
        return lv

    def do_assign(self, e, out):
        a, op = e["a"], e["op"]
        rhs = self.ev(e["b"], out)
        if self._tracked_ref(a):
            vid = a["id"]
            if op == "=":
                new = rhs
            else:
                old = self.env[vid]
                bop = op[:-1]
                if a.get("t", "").endswith("*") and bop in ("+", "-"):
                    new = sym.padd(old, rhs if bop == "+" else sym.neg(rhs))
                elif is_float_type(a.get("t", "")):
                    new = ("fop", bop, old, rhs)
                else:
                    new = sym.binop(bop, old, rhs)
            self.env[vid] = new
            out.append({"e": "local", "name": a["n"], "id": vid, "op": op, "val": rhs, "new": new, "l": e["l"]})
            return new
        lv = self.lv(a, out)
        if op == "=" and isinstance(rhs, tuple) and rhs and rhs[0] == "poly" and lv[0] in ("idx", "fld") and sym.contains(rhs, lv) \
                and not is_float_type(a.get("t", "")):
            # x = x + d  is  x += d  (one canonical form for self-updates of a memory location)
            lin = sym.linear_in(rhs, lv)
            if lin is not None and lin[0] == I(1) and not sym.contains(lin[1], lv):
                op, rhs = "+=", lin[1]
        out.append({"e": "store", "lv": lv, "op": op, "val": rhs, "l": e["l"], "t": a.get("t", ""),
                    "ct": e.get("ct", "")})
        self.remember(lv, rhs if op == "=" else None)
        self.elem = {lv: rhs} if (op == "=" and lv[0] == "idx" and isinstance(rhs, tuple) and not sym.contains(rhs, lv)
                                  and not any(st[0] in ("call", "obj", "unk") for st in sym.subterms(rhs))) else {}
        if op in ("+=", "-=") and lv[0] in ("idx", "fld") and isinstance(rhs, tuple) and not is_float_type(a.get("t", "")) \
                and not sym.contains(rhs, lv):
            # locals computed from the old content of the location are re-expressed through its new content:
            # old = new - d.  (The terms of the executor always denote the current memory.)
            back = sym.sub(lv, rhs) if op == "+=" else sym.add(lv, rhs)
            for vid, val in list(self.env.items()):
                if isinstance(val, tuple) and val and val[0] not in ("cell", "alias") and any(st == lv for st in sym.loaded_subterms(val)):
                    self.env[vid] = sym.subst_loaded(val, {lv: back})
        return lv

    # ------------------------------------------------------------------ tracked memory
    # Stores through constant paths into local objects (structs, out-parameters of inlined callees)
    # and into freshly allocated objects are remembered so that later loads see the stored value.
    def _trackable(self, lv):
        r = sym.root_of(lv)
        if r is None or r[0] not in ("var", "new", "obj"):
            return False
        t = lv
        while t[0] in ("fld", "idx", "addr"):
            if t[0] == "idx" and t[2][0] != "int":
                return False
            t = t[1]
        return True

    def remember(self, lv, val):
        if lv in self.ctor_fields:
            if val is None:
                self.mem.pop(lv, None)
                self.ctor_fields.discard(lv)
            else:
                self.mem[lv] = val
            return
        if self._trackable(lv):
            if val is None:
                self.mem.pop(lv, None)
            else:
                self.mem[lv] = val

    def load(self, lv):
        if self.concrete and lv in self.concrete:
            return I(self.concrete[lv])
        if lv in self.mem:
            return self.mem[lv]
        if lv in self.elem:
            return self.elem[lv]
        return lv

    def forget_rooted(self, ptr):
        r = sym.root_of(ptr) if ptr is not None else None
        if r is None:
            return
        for k in [k for k in self.mem if sym.root_of(k) == r]:
            del self.mem[k]

    def forget_stores_in(self, effects):
        for x in flat(effects):
            if x["e"] == "store":
                self.mem.pop(x["lv"], None)
            elif x["e"] == "call":
                for a in (x.get("args") or []) + [x.get("this")]:
                    if a is not None and isinstance(a, tuple) and a[0] in ("addr", "var", "new", "obj"):
                        self.forget_rooted(a)

    # ------------------------------------------------------------------ calls
    def do_call(self, e, out):
        k = e["k"]
        name = e.get("callee")
        this = None
        if k == "mcall":
            obj = e.get("obj")
            if e.get("arrow"):
                this = self.ev(obj, out)
            else:
                this = sym.addr(self.lv(obj, out))
        refargs = set(e.get("refargs") or [])
        args = []
        byref = []
        for i, a in enumerate(e.get("args", [])):
            if not isinstance(a, dict):
                args.append(None)
                continue
            if i in refargs and a.get("k") in ("ref", "member", "index", "un"):
                lvt = self.lv(a, out)
                args.append(lvt)
                byref.append(lvt)
            else:
                args.append(self.ev(a, out))
        if name is None and isinstance(e.get("fn"), dict):
            # a call through a pointer whose value is known here (a function handed to an inlined helper as an argument):
            # the call of that function
            fv = self.ev(e["fn"], out)
            while isinstance(fv, tuple) and fv and fv[0] in ("cast", "addr") and len(fv) > 1 and isinstance(fv[-1], tuple):
                fv = fv[-1]
            if isinstance(fv, tuple) and len(fv) == 2 and fv[0] == "glob":
                cands = [u_ for u_ in self.v.by_name.get(fv[1], []) if u_ in self.v.decls]
                if len(cands) == 1:
                    tgt = self.v.decls[cands[0]]
                    e = dict(e, callee=tgt.d["q"], cusr=cands[0])
                    name = tgt.d["q"]
        if name is None:
            out.append({"e": "unknown", "what": "indirect call", "l": e["l"]})
            return ("unk", "indirect@%s" % e["l"])
        if k == "opcall" and e.get("cusr") in self.v.decls:
            f = self.v.decls[e["cusr"]]
            if f.get("record") or f.get("lambda"):
                this = sym.addr(args[0]) if args else None
                args = args[1:]
        nbefore = len(out)
        swapped = (self.load(byref[0]), self.load(byref[1])) if name == "std::swap" and len(byref) == 2 else None
        # a tracked local handed over by reference: an inlined callee sees its value through the variable's cell and may assign it
        seeded = []
        for a_, lvt in zip([a for i, a in enumerate(e.get("args", [])) if isinstance(a, dict) and i in refargs and a.get("k") in ("ref", "member", "index", "un")], byref):
            if a_.get("k") == "ref" and lvt == ("var", a_.get("n"), a_.get("id")) and a_.get("id") in self.env and lvt not in self.mem:
                cur = self.env[a_["id"]]
                if not (isinstance(cur, tuple) and cur and cur[0] in ("cell", "alias")):
                    self.mem[lvt] = cur
                    seeded.append((a_["id"], lvt))
        r = self.emit_call(e, name, args, out, this=this)
        inlined_ = any(x.get("e") == "inlined" for x in out[nbefore:])
        for vid, lvt in seeded:
            if inlined_:
                self.env[vid] = self.mem.get(lvt, lvt)
            self.mem.pop(lvt, None)
        if byref and not any(x.get("e") == "inlined" for x in out[nbefore:]):
            # the callee may assign through its reference parameters
            if name == "std::swap" and len(byref) == 2:
                a0, a1 = swapped
                for lvt, val in ((byref[0], a1), (byref[1], a0)):
                    out.append({"e": "store", "lv": lvt, "op": "=", "val": val, "l": e["l"], "byref": name})
                    self.remember(lvt, val)
            else:
                for lvt in byref:
                    Exec.serial += 1
                    val = ("unk", "byref:%s:%d" % (name, Exec.serial))
                    out.append({"e": "store", "lv": lvt, "op": "=", "val": val, "l": e["l"], "byref": name})
                    self.remember(lvt, None)
        return r

    def _std_functor_algorithm(self, e, name, args, out):
        """std::transform(first, last, out, f) / std::generate_n(first, n, g) / std::generate(first, last, g) over raw pointers
        with a closure written in this function: the element loop with the closure's body applied to each element"""
        an = [a for a in e.get("args", []) if isinstance(a, dict)]
        if any(a is None for a in args) or len(an) != len(args):
            return False
        ptr = lambda n_: strip_cv(n_.get("t", "")).endswith("*")
        fn = args[-1]
        if not (isinstance(fn, tuple) and fn and fn[0] == "lambda") or fn[1] not in self.v.defs:
            return False
        callee = self.v.defs[fn[1]]
        if name == "std::transform" and len(args) == 4 and ptr(an[0]) and ptr(an[1]) and ptr(an[2]):
            (pa, oa), (pb, ob) = sym.ptr_split(args[0]), sym.ptr_split(args[1])
            if pa != pb:
                return False
            count, src, dst = sym.sub(ob, oa), args[0], args[2]
        elif name == "std::generate_n" and len(args) == 3 and ptr(an[0]):
            count, src, dst = args[1], None, args[0]
        elif name == "std::generate" and len(args) == 3 and ptr(an[0]) and ptr(an[1]):
            (pa, oa), (pb, ob) = sym.ptr_split(args[0]), sym.ptr_split(args[1])
            if pa != pb:
                return False
            count, src, dst = sym.sub(ob, oa), None, args[0]
        else:
            return False
        Exec.serial += 1
        u = sym.sym("u%d@%d" % (Exec.serial, e["l"]))
        body = []
        node2 = {"k": "opcall", "cusr": fn[1], "l": e["l"], "t": callee.ret, "callee": callee.q}
        val = self.emit_call(node2, callee.q, [sym.idx(src, u)] if src is not None else [], body)
        if val is None:
            return False
        st = {"e": "store", "lv": sym.idx(dst, u), "op": "=", "val": val, "l": e["l"], "t": "", "ct": ""}
        body.append(st)
        out.append({"e": "loop", "var": u, "lo": ZERO, "cmp": "<", "hi": self._clamp(count), "step": I(1), "body": body, "l": e["l"],
                    "name": "u", "algorithm": name})
        self.forget_stores_in(body)
        return True

    def _std_algorithm(self, e, name, args, out):
        """std::fill / fill_n / copy / copy_n over raw pointers are the element loops they stand for:
        for u in [0, count): first[u] = value   resp.   dest[u] = first[u]"""
        an = [a for a in e.get("args", []) if isinstance(a, dict)]
        if len(args) != 3 or len(an) != 3 or any(a is None for a in args):
            return False
        def ptr(n_):
            # a raw pointer, or an iterator into a local std::vector modelled as an array
            if strip_cv(n_.get("t", "")).endswith("*"):
                return True
            k_ = an.index(n_)
            return isinstance(args[k_], tuple) and sym.ptr_split(args[k_])[0] in self.extents
        if name in ("std::fill", "std::copy", "std::reverse_copy"):
            if not (ptr(an[0]) and ptr(an[1])):
                return False
            (pa, oa), (pb, ob) = sym.ptr_split(args[0]), sym.ptr_split(args[1])
            if pa != pb:
                return False
            count = sym.sub(ob, oa)
        else:
            if not ptr(an[0]):
                return False
            count = args[1]
        if name in ("std::copy", "std::copy_n", "std::reverse_copy") and not ptr(an[2]):
            return False
        self._algo_count = count
        Exec.serial += 1
        u = sym.sym("u%d@%d" % (Exec.serial, e["l"]))
        first = args[0]
        if name in ("std::fill", "std::fill_n"):
            st = {"e": "store", "lv": sym.idx(first, u), "op": "=", "val": args[2], "l": e["l"], "t": "", "ct": ""}
        elif name == "std::reverse_copy":
            st = {"e": "store", "lv": sym.idx(args[2], u), "op": "=", "val": sym.idx(first, sym.sub(sym.sub(count, I(1)), u)), "l": e["l"], "t": "", "ct": ""}
        else:
            st = {"e": "store", "lv": sym.idx(args[2], u), "op": "=", "val": sym.idx(first, u), "l": e["l"], "t": "", "ct": ""}
        if self._emit_unrolled(st, u, count, out):
            return True
        out.append({"e": "loop", "var": u, "lo": ZERO, "cmp": "<", "hi": self._clamp(count), "step": I(1), "body": [st], "l": e["l"],
                    "name": "u", "algorithm": name})
        self.forget_stores_in([st])
        return True

    def _mem_algorithm(self, e, name, args, out):
        """memcpy(dst, src, nbytes) / memset(dst, 0, nbytes) on typed arrays of scalars are the element loops they stand for, when the
        element type is known (the argument's type before its conversion to void*) and the byte count is a multiple of its size:
        for u in [0, nbytes / size): dst[u] = src[u]  resp.  dst[u] = 0.   (memmove keeps its own meaning: overlapping ranges)"""
        an = [a for a in e.get("args", []) if isinstance(a, dict)]
        if len(args) != 3 or len(an) != 3 or any(a is None for a in args):
            return False

        def ptr_type(n_):
            while isinstance(n_, dict) and n_.get("k") in ("cast", "paren") and isinstance(n_.get("a"), dict) and \
                    strip_cv(n_.get("t", "")) in ("void *", "const void *"):
                n_ = n_["a"]
            return n_.get("t", "") if isinstance(n_, dict) else ""
        td = ptr_type(an[0])
        es = pointee_size(td, None)
        if not es or strip_cv(strip_cv(td)[:-1]) not in SIZEOF:
            return False
        is_set = name.endswith("memset")
        if is_set:
            if args[1] != ZERO:
                return False
        else:
            ts = ptr_type(an[1])
            if pointee_size(ts, None) != es or strip_cv(strip_cv(ts)[:-1]) not in SIZEOF:
                return False
        nb = args[2]
        while nb[0] == "cast":
            nb = nb[2]
        items = sym.poly_items(nb)
        partial = None
        if not items or not all(c % es == 0 for _, c in items):
            if not is_set:
                return False
            # memset(dst, 0, nb) with nb not (provably) a multiple of the element size: the first nb / size elements are zero, the
            # element after them is touched in part when nb % size != 0
            count = sym.binop("/", nb, I(es))
            partial = sym.binop("!=", sym.binop("%", nb, I(es)), ZERO)
        else:
            cv = sym.const_value(nb)
            count = I(cv // es) if cv is not None else sym._from_poly({m_: c_ // es for m_, c_ in items})
        strip = lambda t: strip(t[2]) if t[0] == "cast" else t
        dst = strip(args[0])
        Exec.serial += 1
        u = sym.sym("u%d@%d" % (Exec.serial, e["l"]))
        if is_set:
            st = {"e": "store", "lv": sym.idx(dst, u), "op": "=", "val": ZERO, "l": e["l"], "t": "", "ct": ""}
        else:
            st = {"e": "store", "lv": sym.idx(dst, u), "op": "=", "val": sym.idx(strip(args[1]), u), "l": e["l"], "t": "", "ct": ""}
        if not self._emit_unrolled(st, u, count, out):
            out.append({"e": "loop", "var": u, "lo": ZERO, "cmp": "<", "hi": self._clamp(count), "step": I(1), "body": [st], "l": e["l"],
                        "name": "u", "algorithm": name})
            self.forget_stores_in([st])
        if partial is not None:
            Exec.serial += 1
            pst = {"e": "store", "lv": sym.idx(dst, count), "op": "=", "val": ("unk", "partly-cleared:%d" % Exec.serial), "l": e["l"], "t": "", "ct": ""}
            pc = sym.const_value(sym.fold(partial)) if hasattr(sym, "fold") else None
            if pc is None:
                out.append({"e": "if", "cond": partial, "then": [pst], "else": [], "then_status": "fall", "else_status": "fall", "l": e["l"]})
            elif pc:
                out.append(pst)
        return True

    def _field_alias(self, t):
        """x->F  ->  &x->G[x->E] when every record with a pointer field F has a constructor that sets F = &G[... E] and a field E"""
        tab = getattr(self.v, "_ptr_field_aliases", None)
        if tab is None:
            tab = {}
            seen = {}
            for c in self.v.defined():
                if c.get("kind") != "ctor" or c.get("implicit") or not c.get("record"):
                    continue
                for n_ in walk([c.d.get("body"), c.d.get("inits")]):
                    src = None
                    if n_.get("k") == "assign" and n_.get("op") == "=" and isinstance(n_.get("a"), dict) and n_["a"].get("k") == "member":
                        fld_, src = n_["a"].get("field"), n_.get("b")
                    elif n_.get("field") and isinstance(n_.get("e"), dict) and "k" in n_["e"]:
                        fld_, src = n_["field"], n_["e"]
                    if src is None:
                        continue
                    while isinstance(src, dict) and src.get("k") in ("cast", "paren"):
                        src = src.get("a")
                    if isinstance(src, dict) and src.get("k") == "bin" and src.get("op") == "+" and isinstance(src.get("a"), dict) and \
                            src["a"].get("k") in ("member", "ref") and strip_cv(src["a"].get("t", "")).endswith("*"):
                        g_ = src["a"].get("field") or src["a"].get("n")
                        e_ = src["b"]
                        while isinstance(e_, dict) and e_.get("k") in ("cast", "paren"):
                            e_ = e_.get("a")
                        en = (e_.get("field") or e_.get("n")) if isinstance(e_, dict) else None
                        rec = self.v.records.get(c.get("record")) or {}
                        fields = {f_.get("name") or f_.get("n") for f_ in rec.get("fields", [])}
                        if g_ and en and g_ in fields and en in fields:
                            seen.setdefault(fld_, set()).add((g_, en))
            for fld_, alts in seen.items():
                if len(alts) == 1:
                    tab[fld_] = next(iter(alts))
            self.v._ptr_field_aliases = tab
        if isinstance(t, tuple) and t and t[0] == "fld" and t[2] in tab:
            g_, en = tab[t[2]]
            return sym.addr(sym.idx(("fld", t[1], g_), ("fld", t[1], en)))
        return t

    def _emit_unrolled(self, st, u, count, out):
        """with concrete dimensions (a rule interprets the function for small sizes) an element loop of constant length is its
        element statements"""
        if not self.unroll:
            return False
        cv = sym.const_value(sym.fold(count)) if hasattr(sym, "fold") else sym.const_value(count)
        if cv is None or cv > 4096:
            return False
        for q in range(max(cv, 0)):
            m = {u: I(q)}
            out.append(dict(st, lv=sym.subst(st["lv"], m), val=sym.subst(st["val"], m) if isinstance(st["val"], tuple) else st["val"]))
        self.forget_stores_in([st])
        return True

    def _vector_method(self, name, args, this):
        """size / begin / end / data / operator[] / empty of a local std::vector modelled as an array"""
        if this is None or not name.startswith("std::vector<"):
            return None
        cell = this[1] if this[0] == "addr" else None
        if cell is None or cell not in self.extents:
            return None
        m = name.rsplit("::", 1)[-1]
        n = self.extents[cell]
        if m == "size":
            return n
        if m in ("begin", "data", "cbegin"):
            return cell
        if m in ("end", "cend"):
            return sym.addr(sym.idx(cell, n))
        if m == "empty":
            return sym.binop("==", n, ZERO)
        if m == "operator[]" and args and args[0] is not None:
            return sym.idx(cell, args[0])
        return None

    def emit_call(self, e, name, args, out, this=None, array=None):
        self.elem = {}
        vm = self._vector_method(name, args, this)
        if vm is not None:
            return vm
        if e.get("k") == "construct" and len(args) == 1 and isinstance(args[0], tuple) and args[0] and args[0][0] == "lambda":
            return args[0]            # copy of a closure object
        if e.get("k") == "construct" and len(args) == 1 and "__normal_iterator<" in name and isinstance(args[0], tuple) and \
                sym.ptr_split(args[0])[0] in self.extents:
            return args[0]            # an iterator into a local vector is the element pointer
        usr = e.get("cusr")
        line = e["l"]
        # std::string temporaries built from literals: the value is the literal
        if name.startswith("std::allocator<") and e.get("k") == "construct":
            return ("unk", "allocator")
        if name.startswith("std::basic_string<char>::basic_string") and e.get("k") == "construct":
            if args and args[0] is not None and args[0][0] == "str":
                return args[0]
            if len(args) == 1 and args[0] is not None:
                return args[0]     # copy construction
        if name in ("std::transform", "std::generate_n", "std::generate", "std::for_each") and self._std_functor_algorithm(e, name, args, out):
            Exec.serial += 1
            return ("unk", "%s-result:%d" % (name, Exec.serial))
        if name in ("memcpy", "std::memcpy", "memset", "std::memset") and self._mem_algorithm(e, name, args, out):
            return args[0]
        if name in ("std::fill", "std::fill_n", "std::copy", "std::copy_n", "std::reverse_copy") and self._std_algorithm(e, name, args, out):
            if name == "std::fill":
                return None
            cnt_ = getattr(self, "_algo_count", None)
            outp = args[0] if name == "std::fill_n" else args[2]
            if cnt_ is not None and isinstance(outp, tuple):
                b_, o_ = sym.ptr_split(outp)
                return sym.addr(sym.idx(b_, sym.add(o_, cnt_)))          # the end of the range written
            Exec.serial += 1
            return ("unk", "%s-result:%d" % (name, Exec.serial))
        if name in NORETURN_NAMES or e.get("noreturn") or self.hooks.is_noreturn(self, name, usr):
            out.append({"e": "call", "name": name, "usr": usr, "args": args, "l": line, "ret": None, "this": this,
                        "noreturn": True})
            out.append({"e": "exit", "how": name, "l": line})
            return None
        callee = self.v.defs.get(usr)
        if callee is not None and self.depth < 12 and (callee.get("lambda") or self.hooks.want_inline(self, callee, e)):
            # (a closure's body is always part of the function that wrote it)
            sub = Exec(self.v, callee, args=args, this=this, hooks=self.hooks, casts=self.casts,
                       depth=self.depth + 1, mem=self.mem)
            sub.concrete, sub.unroll = self.concrete, self.unroll
            if callee.get("lambda"):
                # a closure sees the variables of the function that wrote it (captures)
                for cid, cval in self.env.items():
                    sub.env.setdefault(cid, cval)
                sub.this = self.this
            body, st = sub.run()
            if callee.get("lambda"):
                casg, _ = assigned_ids([callee.d.get("body")])
                for cid in casg:
                    if cid in self.env and cid in sub.env:
                        self.env[cid] = sub.env[cid]          # variables captured by reference and assigned inside
            ret = None
            rets = [x for x in _returns(body)]
            if rets:
                vals = {r["val"] for r in rets}
                ret = rets[0]["val"] if len(vals) == 1 else ("unk", "multi-return:%s" % name)
            out.append({"e": "inlined", "name": name, "usr": usr, "args": args, "this": this, "body": body,
                        "ret": ret, "l": line, "status": st, "fn": callee})
            if st == "exit" and not rets:
                # (a callee with an early `return` before its fatal tail returns normally on that path)
                out.append({"e": "exit", "how": name, "l": line})
            return ret
        val = self.hooks.call_value(self, e, name, args, this)
        if val is None:
            t = e.get("t", "void")
            if t == "void" and e.get("k") != "construct":
                val = None
            elif t.endswith("*") or e.get("k") == "construct":
                Exec.serial += 1
                val = ("obj", name, tuple(a for a in args if a is not None), Exec.serial)
            else:
                val = ("call", name, tuple(a if a is not None else ("unk", "arg") for a in args))
        eff = {"e": "call", "name": name, "usr": usr, "args": args, "l": line, "ret": val, "this": this,
               "virtual": bool(e.get("virtual")), "kind": e.get("k")}
        if array is not None:
            eff["array"] = array
        out.append(eff)
        for a in list(args) + [this]:
            if a is not None and isinstance(a, tuple) and a[0] in ("addr", "var"):
                self.forget_rooted(a)
        return val


def _returns(effects):
    for x in effects:
        if x["e"] == "return":
            yield x
        elif x["e"] == "if":
            yield from _returns(x["then"])
            yield from _returns(x["else"])
        elif x["e"] in ("loop", "while"):
            yield from _returns(x["body"])


def flat(effects, into_inlined=True, into_loops=True, into_ifs=True):
    """pre-order iteration over all effects"""
    for x in effects:
        yield x
        e = x["e"]
        if e == "if" and into_ifs:
            yield from flat(x["then"], into_inlined, into_loops, into_ifs)
            yield from flat(x["else"], into_inlined, into_loops, into_ifs)
        elif e in ("loop", "while") and into_loops:
            yield from flat(x["body"], into_inlined, into_loops, into_ifs)
            if x.get("latch"):
                yield from flat(x["latch"], into_inlined, into_loops, into_ifs)
        elif e == "inlined" and into_inlined:
            yield from flat(x["body"], into_inlined, into_loops, into_ifs)


CMP_CODE = {"<": 0, "<=": 1, ">": 2, ">=": 3, "!=": 4}


def loop_end(lp):
    """value of the induction variable after a counted loop without early exit, as an opaque term that keeps the
    loop's descriptor: ("call", "$loop_end", (lo, hi, step, cmp code, line))"""
    # shift invariance: end(lo, hi, s) = lo + end(0, hi - lo, s); the second summand does not mention lo, so a variable that
    # is the counter of an inner loop stays a closed form of the outer loop (p = p_entry + trip count)
    lo, hi = lp["lo"], lp["hi"]
    if lo != ZERO and lp["cmp"] in ("<", "<=", ">", ">="):
        return sym.add(lo, ("call", "$loop_end", (ZERO, sym.sub(hi, lo), lp["step"], I(CMP_CODE[lp["cmp"]]), I(lp.get("l", 0)))))
    return ("call", "$loop_end", (lo, hi, lp["step"], I(CMP_CODE[lp["cmp"]]), I(lp.get("l", 0))))


def paths(effects, limit=4096):
    """acyclic control paths through an effect tree: yields (leaf effects in order, conditions taken, status) where
    status is "exit", "return" or "fall"; a loop body is taken zero times or once; inlined bodies are entered"""
    count = [0]

    def go(effs, i, acc, conds):
        while i < len(effs):
            x = effs[i]
            e = x["e"]
            if e == "if":
                for br, st_key, pol in (("then", "then_status", True), ("else", "else_status", False)):
                    for acc2, conds2, st in go(x[br], 0, acc, conds + [(x["cond"], pol, x["l"])]):
                        if st == "fall":
                            yield from go(effs, i + 1, acc2, conds2)
                        else:
                            yield acc2, conds2, st
                return
            if e in ("loop", "while"):
                yield from go(effs, i + 1, acc, conds)
                for acc2, conds2, st in go(x["body"] + (x.get("latch") or []), 0, acc, conds):
                    if st == "fall":
                        yield from go(effs, i + 1, acc2, conds2)
                    else:
                        yield acc2, conds2, st
                return
            if e == "inlined":
                for acc2, conds2, st in go(x["body"], 0, acc, conds):
                    if st == "exit":
                        yield acc2, conds2, st
                    else:
                        yield from go(effs, i + 1, acc2, conds2)
                return
            acc = acc + [x]
            if e == "exit":
                yield acc, conds, "exit"
                return
            if e == "return":
                yield acc, conds, "return"
                return
            i += 1
        count[0] += 1
        if count[0] > limit:
            raise RuntimeError("path limit exceeded")
        yield acc, conds, "fall"

    yield from go(list(effects), 0, [], [])


def run_function(variant, fn, args=None, hooks=None, casts="drop", this=None, concrete=None):
    ex = Exec(variant, fn, args=args, hooks=hooks, casts=casts, this=this)
    if concrete:
        ex.concrete = dict(concrete)
        ex.unroll = True
    eff, st = ex.run()
    return eff, st, ex
