"""Check framework: obligations, three-valued verdicts, evidence, known findings, exit codes.

exit 0  every instance discharged (known findings printed as KNOWN-FINDING lines)
exit 1  VIOLATION property=<id> replay=<path>  (a specific construct refutes a clause)
exit 2  analysis broken: anchor vanished, instance count below the confirmed minimum,
        or an unrecognised code shape (never reported as a violation, never as a pass)
"""
import hashlib
import json
import os
import re
import sys
import time

from .pipeline import AnalysisBroken, VERIF

PROVED, REFUTED, ASSUMED = "proved", "refuted", "assumed"
EVIDENCE_DIR = os.environ.get("VERIF_EVIDENCE_DIR", os.path.join(VERIF, "evidence"))
REPLAY_DIR = os.path.join(EVIDENCE_DIR, "replay")
KNOWN = os.path.join(VERIF, "known_findings.txt")
EXPECT = os.path.join(VERIF, "rules", "expect.json")


def load_known():
    findings, fixed = [], []
    if os.path.exists(KNOWN):
        for line in open(KNOWN):
            line = line.strip()
            if not line or line.startswith("#"):
                continue
            m = re.match(r'finding:\s+property=(\S+)\s+rule=(\S+)\s+key="([^"]*)"\s*(.*)', line)
            if m:
                findings.append({"property": m.group(1), "rule": m.group(2), "key": m.group(3), "text": m.group(4)})
                continue
            m = re.match(r"fixed:\s+property=(\S+)\s+(\S+)\s+(.*)", line)
            if m:
                fixed.append({"property": m.group(1), "commit": m.group(2), "text": m.group(3)})
    return findings, fixed


class Check:
    def __init__(self, pid, tier="quick", seed=0, level="other"):
        self.pid, self.tier, self.seed, self.level = pid, tier, seed, level
        self.t0 = time.time()
        self.obligations = []   # dicts: rule, key, status, where, detail, variants
        self.notes = []
        self.assumptions = []
        self.counts = {}        # instance counters (rule -> n)
        self._vcounts = {}
        self.analysed = {}
        self.explanation = ""
        self.trusted = []
        self.extra = {}
        self._index = {}
        self.expect = json.load(open(EXPECT)).get(pid, {}) if os.path.exists(EXPECT) else {}

    # ---- recording ----
    def ob(self, rule, key, status, where="", detail="", variant=None, nontrivial=True, data=None):
        """Record one obligation.  The same (rule,key) seen in several variants is merged:
        refuted wins over assumed wins over proved."""
        k = (rule, key)
        o = self._index.get(k)
        if o is None:
            o = {"rule": rule, "key": key, "status": status, "where": where, "detail": detail,
                 "variants": [], "nontrivial": nontrivial}
            if data is not None:
                o["data"] = data
            self._index[k] = o
            self.obligations.append(o)
        else:
            rank = {PROVED: 0, ASSUMED: 1, REFUTED: 2}
            if rank[status] > rank[o["status"]]:
                o.update(status=status, where=where, detail=detail)
                o["variants"] = []
                if data is not None:
                    o["data"] = data
            elif rank[status] < rank[o["status"]]:
                return status == PROVED
        if variant and variant not in o["variants"]:
            o["variants"].append(variant)
        return status == PROVED

    def proved(self, rule, key, where="", detail="", **kw):
        return self.ob(rule, key, PROVED, where, detail, **kw)

    def refuted(self, rule, key, where="", detail="", **kw):
        return self.ob(rule, key, REFUTED, where, detail, **kw)

    def assumed(self, rule, key, where="", detail="", **kw):
        return self.ob(rule, key, ASSUMED, where, detail, **kw)

    def require(self, cond, rule, key, where="", ok="", bad="", **kw):
        return self.ob(rule, key, PROVED if cond else REFUTED, where, ok if cond else (bad or ok), **kw)

    def note(self, text):
        if text not in self.notes:
            self.notes.append(text)

    def assume(self, text):
        if text not in self.assumptions:
            self.assumptions.append(text)

    def count(self, name, n=1):
        self.counts[name] = self.counts.get(name, 0) + n

    def set_count(self, name, n):
        """per-variant instance count: the evidence keeps the maximum over variants"""
        self.counts[name] = max(self.counts.get(name, 0), n)

    def vcount(self, variant, name, n=1):
        """instance counter per build variant; the reported count is the minimum over the variants that counted"""
        self._vcounts.setdefault(name, {})
        self._vcounts[name][variant] = self._vcounts[name].get(variant, 0) + n
        self.counts[name] = min(self._vcounts[name].values())

    def broken(self, msg):
        raise AnalysisBroken(msg)

    # ---- finish ----
    def finish(self):
        findings, fixed = load_known()
        mine = [f for f in findings if f["property"] == self.pid]
        refuted = [o for o in self.obligations if o["status"] == REFUTED]
        known_hits, new = [], []
        for o in refuted:
            hit = next((f for f in mine if f["rule"] == o["rule"] and f["key"] == o["key"]), None)
            (known_hits if hit else new).append(o)
        # instance minima: a rule matching fewer sites than confirmed by hand is broken, not *passing* -- they guard against a
        # vacuous pass, so they are applied only when nothing is reported (a tree with a violation may well have fewer instances)
        if not new:
            for name, spec in self.expect.items():
                mn = spec["min"] if isinstance(spec, dict) else spec
                if name.startswith("rule:"):
                    got = sum(1 for o in self.obligations if o["rule"] == name[5:])
                else:
                    got = self.counts.get(name, 0)
                if got < mn:
                    raise AnalysisBroken("instance count for '%s' is %d, below the confirmed minimum %d (%s)" % (
                        name, got, mn, spec.get("why", "") if isinstance(spec, dict) else ""))
        wall = time.time() - self.t0
        n_ob = len(self.obligations)
        n_proved = sum(1 for o in self.obligations if o["status"] == PROVED)
        n_assumed = sum(1 for o in self.obligations if o["status"] == ASSUMED)
        distinct_nt = len({(o["rule"], o["key"]) for o in self.obligations if o["nontrivial"]})
        samples = self._samples()
        ev = {
            "property_id": self.pid, "tier": self.tier, "seed": self.seed, "level": self.level,
            "coverage": {
                "explanation": self.explanation,
                "obligations": n_ob, "discharged": n_proved, "assumed": n_assumed,
                "refuted": len(refuted), "known_findings": len(known_hits),
                "evaluations": max(n_ob, 1), "distinct_nontrivial": distinct_nt,
                "rule": "one evaluation per (rule, instance) obligation derived from the type-checked AST of the "
                        "current tree; an obligation is non-trivial when it required a symbolic comparison, a "
                        "call-graph/path query or a dataflow query (not a mere presence test); identical instances "
                        "seen in several build variants are merged and counted once",
                "samples": samples,
                "instance_counts": self.counts,
                "analysed": self.analysed,
                "by_rule": self._by_rule(),
                "refuted_instances": [self._fmt(o) for o in refuted],
                "assumed_instances": [self._fmt(o) for o in self.obligations if o["status"] == ASSUMED][:60],
                "notes": self.notes,
                "trusted_base": self.trusted,
                "exhaustive": False,
                **self.extra,
            },
            "assumptions": self.assumptions,
            "wall_s": round(wall, 3),
            "violations": len(new),
        }
        os.makedirs(EVIDENCE_DIR, exist_ok=True)
        with open(os.path.join(EVIDENCE_DIR, self.pid + ".json"), "w") as fh:
            json.dump(ev, fh, indent=1, sort_keys=True)
            fh.write("\n")
        print("%s %s: %d obligations (%d proved, %d assumed, %d refuted of which %d known) over %s; %.1fs" % (
            self.pid, self.tier, n_ob, n_proved, n_assumed, len(refuted), len(known_hits),
            ", ".join("%s=%s" % kv for kv in sorted(self.analysed.items())), wall))
        for k, v in sorted(self.counts.items()):
            print("  instances %-40s %d" % (k, v))
        for n in self.notes:
            print("  note: " + n)
        for o in known_hits:
            print("KNOWN-FINDING: property=%s %s" % (self.pid, self._fmt(o)))
        rc = 0
        for o in new:
            os.makedirs(REPLAY_DIR, exist_ok=True)
            h = hashlib.sha256(("%s|%s|%s" % (self.pid, o["rule"], o["key"])).encode()).hexdigest()[:12]
            path = os.path.join(REPLAY_DIR, "%s-%s.json" % (self.pid, h))
            with open(path, "w") as fh:
                json.dump({"property": self.pid, "rule": o["rule"], "key": o["key"], "where": o["where"],
                           "detail": o["detail"], "variants": o["variants"], "data": o.get("data")}, fh, indent=1)
            print("  refuted: " + self._fmt(o))
            print("VIOLATION property=%s replay=%s" % (self.pid, path))
            rc = 1
        return rc

    def _fmt(self, o):
        s = "%s %s at %s: %s" % (o["rule"], o["key"], o["where"] or "?", o["detail"][:700])
        if o["variants"]:
            s += " [%s]" % ",".join(o["variants"][:10])
        return s

    def _by_rule(self):
        out = {}
        for o in self.obligations:
            r = out.setdefault(o["rule"], {PROVED: 0, ASSUMED: 0, REFUTED: 0})
            r[o["status"]] += 1
        return out

    def _samples(self):
        if not self.obligations:
            return []
        import random
        rnd = random.Random(self.seed)
        # one per rule first, then random fill, max 12
        picked, seen_rules = [], set()
        for o in self.obligations:
            if o["rule"] not in seen_rules:
                seen_rules.add(o["rule"])
                picked.append(o)
        rest = [o for o in self.obligations if o not in picked]
        rnd.shuffle(rest)
        picked = (picked + rest)[:12] if len(picked) < 12 else picked[:16]
        return [{"rule": o["rule"], "instance": o["key"], "status": o["status"], "where": o["where"],
                 "detail": o["detail"][:400]} for o in picked]


def run_mutants(pid):
    """thorough tier: every stored mutant of this property is applied to a scratch copy of the CURRENT tree and the
    quick check must report a violation of the expected rule.  Nothing is executed from the mutated tree."""
    import concurrent.futures
    import glob
    import shutil
    import subprocess
    import tempfile
    from .pipeline import REPO
    mdir = os.path.join(VERIF, "mutants", pid)
    patches = sorted(glob.glob(os.path.join(mdir, "*.patch")))
    # confirmed seeded changes (seeded/<id>/patch.diff) that this property's check is recorded to catch
    seeded = {}
    for mf in sorted(glob.glob(os.path.join(VERIF, "seeded", "*", "meta.json"))):
        try:
            meta = json.load(open(mf))
        except ValueError:
            continue
        for cb in meta.get("caught_by", []):
            if cb.split(".")[0] == pid:
                pf = os.path.join(os.path.dirname(mf), "patch.diff")
                seeded.setdefault(pf, ("seeded-" + os.path.basename(os.path.dirname(mf)), cb.split(".")[1], meta.get("summary", "")[:120]))
    patches += sorted(seeded)
    results = []
    if not patches:
        return results
    base = tempfile.mkdtemp(prefix="tfhe-sv-", dir=os.environ.get("TMPDIR", "/var/tmp"))

    def one(pf):
        name = os.path.basename(pf)[:-6]
        expect, what = None, ""
        for line in open(pf):
            if line.startswith("# expect:"):
                expect = line.split(":", 1)[1].strip()
            elif line.startswith("# what:"):
                what = line.split(":", 1)[1].strip()
        if pf in seeded:
            name, expect, what = seeded[pf]
        d = os.path.join(base, name)
        os.makedirs(os.path.join(d, "repo"))
        shutil.copytree(os.path.join(REPO, "src"), os.path.join(d, "repo", "src"),
                        ignore=shutil.ignore_patterns("googletest"))
        rd = os.path.join(REPO, "README.md")
        if os.path.exists(rd):
            shutil.copy(rd, os.path.join(d, "repo"))
        body = "".join(l for l in open(pf) if not l.startswith("# "))
        ap = subprocess.run(["patch", "-p1", "-s", "--no-backup-if-mismatch"], input=body, text=True, cwd=os.path.join(d, "repo"),
                            stdout=subprocess.PIPE, stderr=subprocess.STDOUT)
        if ap.returncode != 0:
            shutil.rmtree(d, ignore_errors=True)
            return {"mutant": name, "what": what, "expect": expect, "status": "does-not-apply"}
        env = dict(os.environ, VERIF_REPO=os.path.join(d, "repo"), VERIF_EVIDENCE_DIR=os.path.join(d, "ev"),
                   VERIF_WORK=os.path.join(d, "work"), VERIF_TIER="quick")
        r = subprocess.run([sys.executable, os.path.join(VERIF, "bin", "check"), pid], env=env, stdout=subprocess.PIPE,
                           stderr=subprocess.STDOUT, text=True)
        hits = re.findall(r"^  refuted: (\S+) (.*)$", r.stdout, flags=re.M)
        rules = sorted({h[0] for h in hits})
        detected = r.returncode == 1 and (expect in rules if expect else bool(rules))
        shutil.rmtree(d, ignore_errors=True)
        if expect == "pass":
            # a behaviour-preserving rewrite: the check must stay quiet (exit 2 = shape not handled, tolerated but shown)
            st = "quiet" if r.returncode == 0 else "FALSE-ALARM" if r.returncode == 1 else "undecided"
            return {"mutant": name, "what": what, "expect": expect, "status": st, "exit": r.returncode, "rules_fired": rules,
                    "first_report": (hits[0][1][:200] if hits else r.stdout[-200:] if r.returncode else "")}
        return {"mutant": name, "what": what, "expect": expect, "status": "detected" if detected else "MISSED",
                "exit": r.returncode, "rules_fired": rules, "first_report": (hits[0][1][:200] if hits else r.stdout[-200:])}

    try:
        with concurrent.futures.ThreadPoolExecutor(max_workers=6) as ex:
            results = list(ex.map(one, patches))
    finally:
        shutil.rmtree(base, ignore_errors=True)
    return results


def run_check(pid, rule_fn, argv):
    tier = "thorough" if ("--thorough" in argv or os.environ.get("VERIF_TIER") == "thorough") else "quick"
    try:
        seed = int(os.environ.get("VERIF_SEED", "0"))
    except ValueError:
        seed = 0
    chk = Check(pid, tier, seed)
    try:
        rule_fn(chk)
        missed = []
        if tier == "thorough":
            res = run_mutants(pid)
            chk.extra["self_validation"] = {
                "rule": "each stored mutant (mutants/%s/*.patch: a change that compiles and passes the test suite but breaks the "
                        "property) is applied to a scratch copy of the current tree; the quick check must exit 1 naming the expected rule" % pid,
                "mutants": res,
                "detected": sum(1 for r in res if r["status"] == "detected"),
                "applicable": sum(1 for r in res if r["status"] != "does-not-apply" and r["expect"] != "pass"),
                "benign_rule": "patches marked '# expect: pass' are behaviour-preserving rewrites of the anchored code: the check must not report a violation on them",
                "benign_quiet": sum(1 for r in res if r["status"] == "quiet"),
                "benign_total": sum(1 for r in res if r["expect"] == "pass"),
            }
            missed = [r for r in res if r["status"] in ("MISSED", "FALSE-ALARM")]
            for r in res:
                print("  self-validation: %-22s %-14s expect %s fired %s" % (r["mutant"], r["status"], r["expect"], r.get("rules_fired")))
        rc = chk.finish()
        if missed and rc == 0:
            print("ANALYSIS-BROKEN property=%s: checker regression, stored mutant(s) not detected / benign rewrite(s) reported: %s" % (pid, [r["mutant"] for r in missed]))
            rc = 2
    except BrokenPipeError:
        rc = 2
    except AnalysisBroken as e:
        # part of the analysis could not be completed.  Violations established before that point (each with its own witness) stand and
        # are reported; otherwise the run is undecided.
        established = [o for o in chk.obligations if o["status"] == REFUTED]
        rc = 2
        if established:
            try:
                chk.notes.append("the analysis stopped early: %s" % e)
                rc = chk.finish()
            except AnalysisBroken:
                rc = 2
        if rc != 1:
            print("ANALYSIS-BROKEN property=%s: %s" % (pid, e))
            rc = 2
    except Exception as e:
        import traceback
        traceback.print_exc()
        # an internal error is an undecided run; violations established before it (each with its own witness) stand
        established = [o for o in chk.obligations if o["status"] == REFUTED]
        rc = 2
        if established:
            try:
                chk.notes.append("the analysis stopped early with an internal error: %s: %s" % (type(e).__name__, e))
                rc = chk.finish()
            except Exception:
                rc = 2
        if rc != 1:
            print("ANALYSIS-BROKEN property=%s: internal error in the checker (see traceback)" % pid)
            rc = 2
    try:
        sys.stdout.flush()
    except BrokenPipeError:
        pass
    return rc
