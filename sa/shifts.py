"""Right shifts of signed operands.

The analyses model `>>` as the logical shift of the bit algebra (casts are dropped, a torus value is its 32-bit pattern).  That is
what the library means everywhere: on the tree the rules were confirmed on every right shift has an unsigned left operand.  A right
shift whose left operand has a signed type is an arithmetic shift: it agrees with the model only while the operand is non-negative.
This audit finds such shifts (type-checked AST: the operand's type before the implicit promotions) and classifies the operand:

  * a literal, or an expression without any value that could be negative -> fine;
  * a variable all of whose definitions are (products with) a power of two `1 << E` where E reaches 31 for a valid small parameter
    (E = 32 - Bgbit with Bgbit = 1, 32 - basebit with basebit = 1): the value is INT32_MIN there and the shift sign-extends -> violation
    with that witness;
  * anything else -> assumed (listed, not decided).
"""
import re

from .facts import walk

_UNSIGNED = re.compile(r"\b(unsigned|uint\d+_t|size_t|uintptr_t|bool)\b")
_SIGNED = re.compile(r"\b(int|long|short|char|int\d+_t|Torus32|Torus64|ptrdiff_t|ssize_t)\b")


def _strip(e):
    while isinstance(e, dict) and e.get("k") == "cast" and e.get("implicit"):
        e = e.get("a")
    while isinstance(e, dict) and e.get("k") == "paren":
        e = e.get("a")
    return e


def is_signed(t):
    t = t or ""
    return bool(_SIGNED.search(t)) and not _UNSIGNED.search(t) and "*" not in t


def _eval_min_params(e):
    """value of an integer expression when every non-literal leaf (a parameter such as Bgbit, basebit) is 1, None if not evaluable"""
    e = _strip(e)
    if not isinstance(e, dict):
        return None
    k = e.get("k")
    if k == "int":
        return int(e["v"])
    if k in ("ref", "member"):
        return 1
    if k == "cast":
        return _eval_min_params(e.get("a"))
    if k == "bin" and e.get("op") in ("+", "-", "*"):
        a, b = _eval_min_params(e.get("a")), _eval_min_params(e.get("b"))
        if a is None or b is None:
            return None
        return {"+": a + b, "-": a - b, "*": a * b}[e["op"]]
    return None


def _pow2_top(e):
    """does e contain a factor `1 << E` (int-typed) whose exponent reaches 31 when the parameters are 1?  -> E's text or None"""
    e = _strip(e)
    if not isinstance(e, dict):
        return None
    if e.get("k") == "bin" and e.get("op") == "<<":
        a = _strip(e.get("a"))
        if isinstance(a, dict) and a.get("k") == "int" and int(a["v"]) == 1 and is_signed(e.get("t", "int")):
            ev = _eval_min_params(e.get("b"))
            if ev is not None and ev >= 31:
                return ev
        return None
    if e.get("k") == "bin" and e.get("op") == "*":
        return _pow2_top(e.get("a")) or _pow2_top(e.get("b"))
    if e.get("k") == "cast":
        return _pow2_top(e.get("a"))
    return None


def audit(v, file_prefixes):
    """-> (findings, number of right shifts inspected); finding = dict(fn, where, line, status, detail)"""
    out, n = [], 0
    for f in v.defined():
        if not f.file.startswith(tuple(file_prefixes)):
            continue
        body = f.d.get("body")
        defs = {}
        for x in walk([body, f.d.get("inits")]):
            if x.get("k") == "var" and "id" in x and x.get("init") is not None:
                defs.setdefault(x["id"], []).append(x["init"])
            elif x.get("k") == "assign" and x.get("op") == "=" and isinstance(x.get("a"), dict) and x["a"].get("k") == "ref" and "id" in x["a"]:
                defs.setdefault(x["a"]["id"], []).append(x.get("b"))
        for x in walk(body):
            if not ((x.get("k") == "bin" and x.get("op") == ">>") or (x.get("k") == "assign" and x.get("op") == ">>=")):
                continue
            a = _strip(x.get("a"))
            if not isinstance(a, dict):
                continue
            n += 1
            t = a.get("t", "")
            if not is_signed(t):
                continue
            where = "%s:%s" % (f.file, x.get("l"))
            if a.get("k") == "int":
                continue
            cand = [a]
            if a.get("k") == "ref" and a.get("id") in defs:
                cand = defs[a["id"]]
            top = next((p for p in (_pow2_top(c) for c in cand) if p), None)
            name = a.get("n") or a.get("field") or "expression"
            if top:
                out.append({"fn": f.name, "where": where, "status": "refuted",
                            "detail": "`%s` has the signed type %s and is (a multiple of) 1 << E with E = %d when the layout parameter is 1 (Bgbit / basebit = 1, "
                                      "a valid layout): the value is INT32_MIN there and `>>` sign-extends (0xC0000000 instead of 0x40000000), so every "
                                      "later value derived from it is wrong" % (name, t, top)})
            else:
                out.append({"fn": f.name, "where": where, "status": "assumed",
                            "detail": "`%s` of signed type %s is shifted right: an arithmetic shift, equal to the logical shift the analysis "
                                      "assumes only while the value is non-negative (not decided)" % (name, t)})
    return out, n


def check(chk, v, rule, files, what):
    """report the audit over the given source files under `rule` of the calling property"""
    findings, n = audit(v, files)
    chk.vcount(v.name, "%s.right_shifts" % rule, n)
    for x in findings:
        key = "%s: the right shift at %s acts on an unsigned or non-negative operand (%s)" % (x["fn"], x["where"].split("/")[-1], what)
        if x["status"] == "refuted":
            chk.refuted(rule, key, where=x["where"], detail=x["detail"], variant=v.name)
        else:
            chk.assumed(rule, key, where=x["where"], detail=x["detail"], variant=v.name)
    if not findings:
        chk.proved(rule, "every right shift in %s has an unsigned left operand (%s)" % (", ".join(f_.split("/")[-1] for f_ in files), what),
                   where=files[0], detail="%d right shifts inspected (operand type before the implicit promotions)" % n, variant=v.name)
