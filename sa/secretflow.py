"""A9 — secret-value confinement in key generation (C17.R6).

Statement decided: in every function reachable from the key-generation entry point, a value computed from secret-key
storage reaches storage that is not itself a secret-key record only

  (a) as a product with the destination sample's own freshly drawn uniform mask, accumulated into its b
      (b += a[i]*key[i], or b += key_poly * a_poly through the product-accumulate primitive), or
  (b) as the plaintext of a ciphertext object that is masked completely, with a secret key, by the function that
      holds the key (a masking encryption that takes the plaintext, or encrypt-zero followed by add-plaintext).

The analysis is inter-procedural over the loop pieces of each function (no inlining): secret data is tracked through
arguments into callees; a callee that writes such an argument in clear into one of its parameters hands a "clear write"
back to its caller, which must justify it by masking that object.  A clear write that the key-holding function does not
justify slot-wise is compared, slot by slot, with the objects that function masks afterwards: the index sets of both are
enumerated from their loop descriptors on a small grid of the dimensions (no code is run) and a slot that holds a clear
secret-derived value and is never masked refutes the rule with that slot as the witness.
"""
import itertools
import re

from . import affine, bounds, summ, sym
from .ioseq import type_of, _record_in_type
from .pipeline import AnalysisBroken
from .sym import I, ZERO

NOINLINE = summ.LOCAL_HELPERS
SECRET_RECORDS = ("LweKey", "TLweKey", "TGswKey", "TFheGateBootstrappingSecretKeySet")
PRODUCT_ACC = re.compile(r"^torusPolynomial(Add|Sub)MulR(FFT|Karatsuba)?$")     # result (+|-)= int_poly * torus_poly  (C09/C11)
UNIFORM_POLY = ("torusPolynomialUniform",)                                     # every coefficient := fresh uniform (C07.R3)


def eval_term(t, env):
    """integer value of a term under env (atom -> int), None when not evaluable"""
    if t in env:
        return env[t]
    k = t[0]
    if k == "int":
        return t[1]
    if k == "poly":
        tot = 0
        for mono, c in t[1]:
            val = c
            for a in mono:
                x = eval_term(a, env)
                if x is None:
                    return None
                val *= x
            tot += val
        return tot
    if k == "cast":
        return eval_term(t[2], env)
    if k == "call" and t[1] == "$loop_end" and len(t[2]) >= 4:
        # value of the induction variable after the counted loop (lo, hi, step, comparison)
        lo, hi, st = eval_term(t[2][0], env), eval_term(t[2][1], env), eval_term(t[2][2], env)
        cc = sym.const_value(t[2][3])
        if lo is None or hi is None or not st or cc not in (0, 1, 2, 3) or (st > 0) != (cc in (0, 1)):
            return None
        if cc == 0:
            return lo if lo >= hi else lo + -(-(hi - lo) // st) * st
        if cc == 1:
            return lo if lo > hi else lo + ((hi - lo) // st + 1) * st
        if cc == 2:
            return lo if lo <= hi else lo - -(-(lo - hi) // -st) * -st
        return lo if lo < hi else lo - ((lo - hi) // -st + 1) * -st
    if k == "cond":
        c = eval_term(t[1], env)
        return None if c is None else eval_term(t[2] if c else t[3], env)
    if k == "un":
        x = eval_term(t[2], env)
        if x is None:
            return None
        return {"!": int(not x), "-": -x, "~": ~x}.get(t[1])
    if k == "op":
        a, b = eval_term(t[2], env), eval_term(t[3], env)
        if a is None or b is None:
            return None
        try:
            return int({"<<": lambda: a << b, ">>": lambda: a >> b, "%": lambda: a - b * int(a / b) if b else None,
                        "/": lambda: int(a / b) if b else None, "&": lambda: a & b, "|": lambda: a | b, "^": lambda: a ^ b,
                        "<": lambda: a < b, "<=": lambda: a <= b, ">": lambda: a > b, ">=": lambda: a >= b,
                        "==": lambda: a == b, "!=": lambda: a != b, "&&": lambda: bool(a) and bool(b),
                        "||": lambda: bool(a) or bool(b)}[t[1]]())
        except (KeyError, TypeError, ValueError):
            return None
    return None


class Flow:
    def __init__(self, v, cloud_records):
        self.v = v
        self.cloud = set(cloud_records)
        self.memo = {}
        self.active = set()
        self.rel = bounds.ctor_relations(v)
        self.tables = self._pointer_tables()
        self.log = []            # (function, what) for evidence

    # ------------------------------------------------------------------ typing
    def roots_of(self, f, ps):
        roots = {sym.sym(p["n"]): p["t"] for p in f.params}
        if f.get("record"):
            roots[sym.sym("this")] = f.record + " *"
        for p in ps:
            if p["kind"] == "call" and p.get("eff") and p["eff"].get("ret") is not None and p["eff"]["ret"][0] == "obj":
                g = self.v.defs.get(p["eff"].get("usr"))
                if g is not None:
                    roots[p["eff"]["ret"]] = g.ret
        return roots

    def rec_of(self, t, roots):
        return _record_in_type(self.v, type_of(self.v, t, roots))

    def is_key_object(self, t, roots):
        ty = type_of(self.v, t, roots)
        return bool(ty) and ty.strip().endswith("*") and _record_in_type(self.v, ty) in SECRET_RECORDS

    def tainted(self, t, roots, data_syms):
        if t is None:
            return False
        for st in sym.subterms(t):
            if st in data_syms:
                return True
            if st[0] == "fld":
                rec = self.rec_of(st[1], roots)
                if rec in SECRET_RECORDS:
                    ft = next((fl["t"] for fl in self.v.records[rec]["fields"] if fl["n"] == st[2]), "")
                    if "Params" not in ft:
                        return True
        return False

    def dest_record(self, lv, roots):
        while lv[0] in ("idx", "addr", "cast"):
            lv = lv[1] if lv[0] != "cast" else lv[2]
        if lv[0] == "fld":
            return self.rec_of(lv[1], roots)
        return None

    # ------------------------------------------------------------------ pointer tables and extents
    def _pointer_tables(self):
        """(record, field A) -> (field B, stride c over this): the constructor sets A[e] = B + c*e (sa/tables.py: any loop
        structure, walking pointers, tables built in locals and stored into the fields afterwards)"""
        from . import tables as _tables
        out = {}
        this = sym.sym("this")
        for rname in self.v.records:
            ctors = [f for f in self.v.defined() if f.get("record") == rname and f.get("kind") == "ctor" and not f.get("implicit") and not f.get("copy")]
            if len(ctors) != 1:
                continue
            try:
                nps, fvals, norm = _tables.normalised(self.v, ctors[0], this)
            except Exception:
                continue
            fields = {p["lv"][1][2] for p in nps if p["kind"] == "store" and p["loops"] and p["lv"][0] == "idx" and p["lv"][1][0] == "fld"
                      and p["lv"][1][1] == sym.idx(this, ZERO)}
            for A in sorted(fields):
                B, c, sts = _tables.table(nps, this, A)
                if B is None:
                    continue
                # express the stride over the fields of the object (parameters copied into fields are named by the field)
                p2f = {val: lv for lv, val in fvals.items() if isinstance(val, tuple) and val and val[0] == "sym"}
                out[(rname, A)] = (B, sym.subst(c, p2f))
        return out

    def resolve_tables(self, t, roots):
        """rewrite subscripts through constructor-built pointer tables down to the raw array"""
        if not isinstance(t, tuple) or not t or not isinstance(t[0], str):
            return t
        k = t[0]
        if k == "idx":
            cur = sym.idx(self.resolve_tables(t[1], roots), t[2])
            if cur[0] == "idx" and cur[1][0] == "fld":
                base, e = cur[1], cur[2]
                rec = self.rec_of(base[1], roots)
                tb = self.tables.get((rec, base[2]))
                if tb is not None:
                    B, c = tb
                    obj = base[1]
                    ptr = obj[1] if obj[0] == "idx" and obj[2] == ZERO else sym.addr(obj)
                    c2 = sym.subst(c, {sym.sym("this"): ptr})
                    return sym.padd(sym.fld(obj, B), sym.mul(c2, e))
            return cur
        if k == "fld":
            return sym.fld(self.resolve_tables(t[1], roots), t[2])
        if k == "addr":
            return sym.addr(self.resolve_tables(t[1], roots))
        return t

    def canon_dims(self, t, roots):
        """dimension expression with derived fields expanded and parameter objects made anonymous"""
        t = bounds.apply_relations(self.v, t, roots, self.rel)
        m = {}
        for a in sym.atoms(t):
            if a[0] == "fld":
                rec = self.rec_of(a[1], roots)
                ft = (type_of(self.v, a, roots) or "").replace("const", "").strip()
                if rec and ft in ("int", "int32_t", "unsigned int", "uint32_t", "long", "unsigned long"):
                    rec2, f2 = bounds.dim_field_alias(self.v).get((rec, a[2]), (rec, a[2]))
                    m[a] = sym.sym("%s.%s" % (rec2, f2))
        return sym.rewrite(t, m) if m else t

    def field_extent(self, rec, field):
        """number of elements of the array held in rec.field, canonical, from init_<rec>"""
        ini = self.v.fn("init_" + rec, required=False)
        ctors = [f for f in self.v.defined() if f.get("record") == rec and f.get("kind") == "ctor" and not f.get("implicit") and not f.get("copy")]
        if ini is None or len(ctors) != 1:
            return None
        ps, _ = summ.pieces(self.v, ini, hooks=NOINLINE)
        roots = self.roots_of(ini, ps)
        allocs = {}
        for p in ps:
            if p["kind"] == "call" and re.match(r"new_\w+_array$", p["name"]) and p["eff"].get("ret") is not None:
                allocs[p["eff"]["ret"]] = p["args"][0]
        cps, _ = summ.pieces(self.v, ctors[0], hooks=NOINLINE)
        this0 = sym.idx(sym.sym("this"), ZERO)
        pos = None
        for p in cps:
            if p["kind"] == "store" and not p["loops"] and p["lv"] == sym.fld(this0, field) and p["val"][0] == "sym":
                pos = next((i for i, q in enumerate(ctors[0].params) if q["n"] == p["val"][1]), None)
        if pos is None:
            return None
        for p in ps:
            if p["kind"] == "call" and p["name"].startswith(rec + "::") and pos < len(p["args"]) and p["args"][pos] in allocs:
                return self.canon_dims(allocs[p["args"][pos]], roots)
        return None

    # ------------------------------------------------------------------ the analysis
    def analyse(self, f, data_idx=frozenset()):
        key = (f.usr, data_idx)
        if key in self.memo:
            return self.memo[key]
        if key in self.active:
            return {"clear": [], "masks": set(), "unknown": ["recursion through %s" % f.name], "refuted": []}
        self.active.add(key)
        v = self.v
        ps, _ = summ.pieces(v, f, hooks=NOINLINE)
        ps = summ.forward_stored_calls(summ.fold_accumulators(ps))
        roots = self.roots_of(f, ps)
        data_syms = {sym.sym(f.params[i]["n"]) for i in data_idx}
        T = lambda t: self.tainted(t, roots, data_syms)
        clear, masked_objs, unknown, refuted = [], [], [], []
        uniform_masks, acc_masks, uniform_poly, poly_acc = [], [], [], []
        holds_key = any(self.is_key_object(sym.sym(p["n"]), roots) for p in f.params) or \
            any(self.is_key_object(r, roots) for r in roots if r[0] == "obj")
        for p in ps:
            if p["kind"] in ("asm", "while", "unknown") and (data_idx or holds_key):
                unknown.append("%s: construct at line %s not analysed" % (f.name, p["line"]))
            # whether (or how) public storage is written must not be decided by a secret: the bytes written, masked or not, would
            # tell which way the condition went (e.g. `if (key[i]*h*w == 0) trivial(row) else encrypt(row)`)
            if p["kind"] in ("store", "call") and (data_idx or holds_key) and any(T(g_) for g_ in p["guards"]):
                tgt = p["lv"] if p["kind"] == "store" else next((a_ for a_ in p["args"] if a_ is not None and isinstance(a_, tuple)
                                                                 and a_[0] in ("addr", "idx", "fld", "sym") and not self.is_key_object(a_, roots)
                                                                 and sym.root_of(a_) is not None and sym.root_of(a_)[0] == "sym"
                                                                 and not T(a_) and self.dest_record(sym.idx(a_, ZERO), roots) not in SECRET_RECORDS
                                                                 and self.rec_of(a_, roots) is not None), None)
                if tgt is not None and sym.root_of(tgt) is not None and sym.root_of(tgt)[0] == "sym" and \
                        (p["kind"] == "call" or self.dest_record(tgt, roots) not in SECRET_RECORDS) and not (p["kind"] == "store" and p.get("byref")):
                    gsec = next(g_ for g_ in p["guards"] if T(g_))
                    refuted.append({"fn": f.name, "where": "%s:%s" % (f.file, p["line"]), "slot": sym.show(tgt)[:80],
                                    "val": sym.show(p["val"])[:80] if p["kind"] == "store" else p["name"], "chain": [f.name],
                                    "detail": "the write happens only when %s, a condition computed from secret-key data: which rows are written "
                                              "this way (in the clear or not) reveals the secret" % sym.show(gsec)[:100]})
            if p["kind"] == "store":
                lv, val = p["lv"], p["val"]
                if not T(val):
                    if lv[0] == "idx" and lv[1][0] == "fld" and lv[1][2] == "a" and val[0] in ("call", "obj") and "operator()" in str(val[1]) \
                            and ("glob", "uniformTorus32_distrib") in val[2] and ("glob", "generator") in val[2] and not p.get("byref"):
                        uniform_masks.append((lv[1][1], p["loops"], lv[2]))
                    elif lv[0] == "idx" and lv[1][0] == "fld" and lv[1][2] == "a" and val[0] in ("call", "obj") and "operator()" in str(val[1]):
                        self.log.append((f.name, "%s: the mask %s is drawn with %s, not from uniformTorus32_distrib with the process generator -- "
                                                 "not accepted as a fresh mask" % (f.name, sym.show(lv)[:40], [sym.show(a)[:30] for a in val[2]])))
                    continue
                if p.get("byref"):
                    continue
                drec = self.dest_record(lv, roots)
                root = sym.root_of(lv)
                if drec in SECRET_RECORDS:
                    continue
                if lv[0] == "fld" and lv[2] == "b" and p["op"] in ("+=", "-="):
                    S0 = lv[1]
                    ok = True
                    idxs = set()
                    for mono, c in sym.poly_items(val):
                        if any(T(a) for a in mono):
                            mk = [a for a in mono if a[0] == "idx" and a[1] == sym.fld(S0, "a")]
                            if len(mk) != 1:
                                ok = False
                            else:
                                idxs.add(mk[0][2])
                    if ok and len(idxs) == 1:
                        acc_masks.append((S0, p["loops"], idxs.pop()))
                        continue
                clear.append({"slot": lv, "val": val, "loops": list(p["loops"]), "guards": list(p["guards"]), "line": p["line"],
                              "file": f.file, "chain": [f.name], "root": root})
            elif p["kind"] == "call":
                name, args = p["name"], list(p["args"])
                eff = p.get("eff") or {}
                g = v.defs.get(eff.get("usr"))
                t_idx = [i for i, a in enumerate(args) if a is not None and not self.is_key_object(a, roots) and T(a)]
                k_idx = [i for i, a in enumerate(args) if a is not None and self.is_key_object(a, roots)]
                if PRODUCT_ACC.match(name) and len(args) >= 3:
                    if t_idx:
                        dest, p1, p2 = args[:3]
                        mask_op = p2 if 1 in t_idx and 2 not in t_idx else p1 if 2 in t_idx and 1 not in t_idx else None
                        S0 = dest[1] if dest[0] == "fld" and dest[2] == "b" else None
                        if S0 is None and dest[0] == "idx" and dest[2] == ZERO and dest[1][0] == "fld" and dest[1][2] == "b":
                            S0 = dest[1][1]
                        mi = None
                        if S0 is not None and mask_op is not None:
                            slot = sym.idx(mask_op, ZERO)
                            if slot[0] == "idx" and slot[1] == sym.fld(S0, "a"):
                                mi = slot[2]
                        if mi is not None:
                            poly_acc.append((S0, p["loops"], mi))
                        else:
                            clear.append({"slot": sym.idx(dest, ZERO), "val": args[t_idx[0]], "loops": list(p["loops"]), "guards": list(p["guards"]),
                                          "line": p["line"], "file": f.file, "chain": [f.name, name], "root": sym.root_of(dest)})
                    continue
                if name in UNIFORM_POLY and args:
                    slot = sym.idx(args[0], ZERO)
                    if slot[0] == "idx" and slot[1][0] == "fld" and slot[1][2] == "a":
                        uniform_poly.append((slot[1][1], p["loops"], slot[2]))
                    continue
                if not t_idx and not k_idx:
                    continue
                if name in ("memcpy", "std::memcpy", "memmove", "std::memmove") and len(args) == 3:
                    # a copy: dst[u] = src[u]
                    if 1 in t_idx:
                        sl = sym.idx(args[0], ZERO)
                        while sl[0] == "cast":
                            sl = sl[2]
                        if self.dest_record(sl, roots) not in SECRET_RECORDS:
                            clear.append({"slot": sl, "val": sym.idx(args[1], ZERO), "loops": list(p["loops"]), "guards": list(p["guards"]),
                                          "line": p["line"], "file": f.file, "chain": [f.name, name], "root": sym.root_of(sl)})
                    continue
                if g is None or not g.file.startswith("libtfhe"):
                    if t_idx:
                        unknown.append("%s passes secret-derived data to %s (line %s), which is not analysed" % (f.name, name, p["line"]))
                    continue
                sub = self.analyse(g, frozenset(t_idx))
                m = {sym.sym(q["n"]): (args[i] if i < len(args) and args[i] is not None else ("unk", "arg")) for i, q in enumerate(g.params)}
                for cw in sub["clear"]:
                    gi = next((i for i, q in enumerate(g.params) if sym.sym(q["n"]) == cw["root"]), None)
                    if gi is None:
                        unknown.append("%s writes secret-derived data to %s (line %s)" % (g.name, sym.show(cw["slot"]), cw["line"]))
                        continue
                    slot = sym.subst(cw["slot"], m)
                    clear.append({"slot": slot, "val": sym.subst(cw["val"], m), "loops": list(p["loops"]) + cw["loops"],
                                  "guards": list(p["guards"]) + [sym.subst(x, m) for x in cw["guards"]], "line": p["line"], "file": f.file,
                                  "chain": [f.name] + cw["chain"], "root": sym.root_of(slot)})
                for k in sub["masks"]:
                    if k < len(args) and args[k] is not None:
                        masked_objs.append({"obj": args[k], "loops": list(p["loops"]), "guards": list(p["guards"]), "via": name, "line": p["line"]})
                unknown += sub["unknown"]
                refuted += sub["refuted"]
        # ---------------- which parameters does f mask completely?
        masks = set()
        for k, q in enumerate(f.params):
            r = sym.sym(q["n"])
            rec = _record_in_type(v, q["t"])
            if rec is None or rec in SECRET_RECORDS or "const" in q["t"].split("*")[0]:
                continue
            r0 = sym.idx(r, ZERO)
            full = lambda lps, i: len(lps) == 1 and lps[0]["lo"] == ZERO and lps[0]["cmp"] == "<" and lps[0]["var"] == i and \
                sym.const_value(lps[0]["step"]) == 1
            um = [x for x in uniform_masks if x[0] == r0 and full(x[1], x[2])]
            am = [x for x in acc_masks if x[0] == r0 and full(x[1], x[2])]
            if um and am and self.canon_dims(um[0][1][0]["hi"], roots) == self.canon_dims(am[0][1][0]["hi"], roots) == sym.sym("LweParams.n"):
                masks.add(k)
                continue
            up = [x for x in uniform_poly if x[0] == r0 and full(x[1], x[2])]
            pa = [x for x in poly_acc if x[0] == r0 and full(x[1], x[2])]
            if up and pa and self.canon_dims(up[0][1][0]["hi"], roots) == self.canon_dims(pa[0][1][0]["hi"], roots) == sym.sym("TLweParams.k"):
                masks.add(k)
                continue
            for mo in masked_objs:
                if mo["guards"]:
                    continue
                if mo["obj"] == r and not mo["loops"]:
                    masks.add(k)
                    break
                slot = sym.idx(mo["obj"], ZERO)
                if len(mo["loops"]) == 1 and slot[0] == "idx" and slot[1][0] == "fld" and slot[1][1] == r0 and full(mo["loops"], slot[2]):
                    ext = self.field_extent(rec, slot[1][2])
                    hi = self.canon_dims(mo["loops"][0]["hi"], roots)
                    if ext is not None and ext == hi:
                        masks.add(k)
                        break
                    if ext is not None:
                        self.log.append((f.name, "%s masks %s[p] for p < %s, the array has %s elements" % (
                            f.name, sym.show(slot[1]), sym.show(hi), sym.show(ext))))
            if k not in masks:
                # several masking calls, loop nests, strided or blocked loops: the elements handed to masking functions are
                # enumerated on a grid of the dimensions and compared with [0, extent of the array)
                by_field = {}
                for mo in masked_objs:
                    slot = sym.idx(mo["obj"], ZERO)
                    if slot[0] == "idx" and slot[1][0] == "fld" and slot[1][1] == r0:
                        by_field.setdefault(slot[1][2], []).append((mo, slot[2]))
                for fld_, lst in by_field.items():
                    ext = self.field_extent(rec, fld_)
                    if ext is not None and self._covers(f, roots, lst, ext, rec):
                        masks.add(k)
                        break
        # ---------------- justify clear writes
        remaining = []
        for cw in clear:
            k = next((i for i, q in enumerate(f.params) if sym.sym(q["n"]) == cw["root"]), None)
            if k is not None and k in masks:
                continue
            # inline masking of the very same sample in the same loop nest (b = m; a[p] = uniform; b += a[p]*s[p])
            if cw["slot"][0] == "fld" and cw["slot"][2] == "b":
                S0 = cw["slot"][1]
                if any(x[0] == S0 for x in acc_masks) and any(x[0] == S0 for x in uniform_masks):
                    continue
            # the same object handed to a masking function in the same iteration
            obj_slot = cw["slot"]
            just = False
            for mo in masked_objs:
                ms = sym.idx(mo["obj"], ZERO)
                if mo["loops"] == cw["loops"][:len(mo["loops"])] and not mo["guards"] and (obj_slot == ms or sym.contains(obj_slot, ms)):
                    just = True
            if just:
                continue
            if cw["slot"][0] == "fld" and cw["slot"][2] == "b" and len(cw["chain"]) == 1 and not cw["loops"]:
                # the body of an LWE sample assembled in a way the statement rules above do not know (partial sums in a helper,
                # conditional tails): decide by interpretation what b finally holds
                vd, det = self._body_masked_by_interpretation(f, cw["slot"][1], roots, data_syms)
                if vd == "masked":
                    self.log.append((f.name, det))
                    continue
                if vd == "refuted":
                    cw = dict(cw, interp=det)       # not masked by this function itself: the caller may still mask the object (below)
            if holds_key:
                verdict, detail = self.coverage(f, roots, cw, [mo for mo in masked_objs if sym.root_of(mo["obj"]) == cw["root"]])
                if verdict == "covered":
                    self.log.append((f.name, detail))
                    continue
                if verdict == "refuted" or not masked_objs or all(sym.root_of(mo["obj"]) != cw["root"] for mo in masked_objs):
                    refuted.append({"fn": f.name, "where": "%s:%s" % (cw["file"], cw["line"]), "slot": sym.show(cw["slot"]),
                                    "val": sym.show(cw["val"])[:120], "chain": cw["chain"], "detail": detail + ("; " + cw["interp"] if cw.get("interp") else "")})
                    continue
                unknown.append("%s: clear write to %s (line %s) and later masking of overlapping storage: %s" % (
                    f.name, sym.show(cw["slot"]), cw["line"], detail))
                continue
            remaining.append(cw)
        res = {"clear": remaining, "masks": masks, "unknown": unknown, "refuted": refuted, "holds_key": holds_key,
               "n_clear": len(clear), "n_masked_calls": len(masked_objs), "base_mask": bool(uniform_masks and acc_masks) or bool(uniform_poly and poly_acc)}
        self.active.discard(key)
        self.memo[key] = res
        return res

    def _covers(self, f, roots, lst, ext, rec):
        """lst = [(masking call piece, index term)]: do the indices, over all iterations of the calls' loop nests, equal
        [0, ext) for every assignment of the dimensions in 1..3 (guards evaluated)?"""
        from . import concrete
        C = lambda t: self.canon_dims(t, roots)
        terms = [ext] + [C(ix) for _, ix in lst] + [C(l[k_]) for mo, _ in lst for l in mo["loops"] if "var" in l for k_ in ("lo", "hi", "step")]
        loopvars = {l["var"] for mo, _ in lst for l in mo["loops"] if "var" in l}
        dims = sorted({a for t in terms for a in sym.atoms(sym.trip_counts_nonneg(t)) if a not in loopvars and a[0] in ("sym", "fld")}, key=repr)
        dims = [d for d in dims if not any(sym.contains(d, lv) for lv in loopvars)]
        if len(dims) > 4:
            return False
        # relations between the dimensions of one parameter object (kpl = (k+1)*l) come from the constructors
        try:
            for vals in itertools.product((1, 2, 3), repeat=len(dims)):
                env = dict(zip(dims, vals))
                rel_ok = True
                for d in dims:
                    if d[0] == "sym" and d[1].endswith(".kpl"):
                        kd = next((x for x in dims if x[0] == "sym" and x[1].endswith(".k")), None)
                        ld = next((x for x in dims if x[0] == "sym" and x[1] == d[1][:-3] + "l"), None)
                        if kd is not None and ld is not None and env[d] != (env[kd] + 1) * env[ld]:
                            rel_ok = False
                if not rel_ok:
                    continue
                seen = []
                for mo, ix in lst:
                    loops = [dict(l, lo=sym.trip_counts_nonneg(C(l["lo"])), hi=sym.trip_counts_nonneg(C(l["hi"])), step=C(l["step"])) for l in mo["loops"]]
                    for e2 in concrete.iterate(loops, env):
                        if any(not eval_term(C(g), e2) for g in mo["guards"]):
                            continue
                        x = eval_term(sym.trip_counts_nonneg(C(ix)), e2)
                        if x is None:
                            return False
                        seen.append(x)
                ev = eval_term(ext, env)
                if ev is None or sorted(seen) != list(range(ev)):
                    return False
        except Exception:
            return False
        return True

    def _body_masked_by_interpretation(self, f, S0, roots, data_syms):
        """f is interpreted for small values of the dimensions its loops depend on, with secret storage as indeterminates and every
        call result as a fresh atom (sa/concrete.PolyState).  Masked: in the polynomial S0.b finally holds, every monomial that
        contains a secret indeterminate also contains a uniformTorus32 draw (process generator) that is, at the end, a mask
        coefficient S0.a[j] of the same sample.  -> ("masked" | "refuted" | "unknown", detail)"""
        from . import concrete, symexec
        try:
            effs = symexec.run_function(self.v, f, hooks=NOINLINE)[0]
        except Exception as e:
            return "unknown", str(e)
        dims = [d for d in concrete.dimension_atoms(effs) if not self.tainted(d, roots, data_syms)]
        if len(dims) > 2:
            return "unknown", "more than two dimensions"
        sroot = sym.root_of(S0)
        key_roots = {sym.sym(p["n"]) for p in f.params if self.is_key_object(sym.sym(p["n"]), roots)}

        def term_of(loc):
            t, path = loc
            for st_ in path:
                t = sym.idx(t, I(st_)) if isinstance(st_, int) else sym.fld(t, st_)
            return t

        def secret(a):
            if a in data_syms:
                return True
            return isinstance(a, tuple) and a and a[0] == "init" and self.tainted(term_of(a[1]), roots, data_syms)
        runs = 0
        for vals in itertools.product(range(0, 6), repeat=len(dims)):
            env0 = dict(zip(dims, vals))
            st = concrete.PolyState()

            def h(kind, x, env):
                if kind in ("local", "store"):
                    st.assign(x, env)
                elif kind == "call":
                    for a_ in x.get("args", []):
                        if isinstance(a_, tuple) and a_ and a_[0] in ("addr", "idx", "fld", "sym") and sym.root_of(a_) in ({sroot} | key_roots) \
                                and a_ not in dims and not (a_[0] == "sym" and a_ not in key_roots and a_ != sroot):
                            raise concrete.NotEvaluable("call of %s on the sample or the key at line %s" % (x["name"], x.get("l")))
                    st.called(x)
                elif kind in ("asm", "unknown", "alloc", "delete"):
                    raise concrete.NotEvaluable("%s at line %s" % (kind, x.get("l")))
                return None
            try:
                concrete.interpret(effs, env0, h, on_segment=st.segment)
                b_ = st.read(concrete.lvalue_location(sym.fld(S0, "b"), {}))
            except (concrete.NotEvaluable, AnalysisBroken, KeyError, TypeError) as e:
                return "unknown", "interpretation: %s" % e
            if b_ is None:
                return "unknown", "b is not a polynomial"
            a_loc = concrete.lvalue_location(sym.idx(sym.fld(S0, "a"), ZERO), {})
            fresh = set()
            for (r_, pth), val in st.cells.items():
                if r_ == a_loc[0] and pth[:-1] == a_loc[1][:-1] and isinstance(val, dict) and len(val) == 1:
                    (m_, c_), = val.items()
                    if len(m_) == 1 and c_ == 1 and isinstance(m_[0], tuple) and m_[0][0] == "draw":
                        ct = m_[0][1]
                        if "operator()" in str(ct[1]) and ("glob", "uniformTorus32_distrib") in ct[2] and ("glob", "generator") in ct[2]:
                            fresh.add(m_[0])
            keyed = lambda a_: isinstance(a_, tuple) and a_ and a_[0] == "init" and secret(a_)
            # the plaintext (secret data handed in as the message) may sit in b in clear when the sample is masked: every mask
            # coefficient the function wrote is a fresh draw that enters b multiplied by a key element
            used = {a_ for m_, c_ in b_.items() if c_ % (1 << 32) and any(keyed(x_) for x_ in m_) for a_ in m_ if a_ in fresh}
            n_cells = sum(1 for (r_, pth) in st.cells if r_ == a_loc[0] and pth[:-1] == a_loc[1][:-1])
            sample_masked = used == fresh and n_cells == len(fresh)
            for m_, c_ in b_.items():
                if not c_ % (1 << 32) or not any(secret(a_) for a_ in m_) or any(a_ in fresh for a_ in m_):
                    continue
                if sample_masked and not any(keyed(a_) for a_ in m_):
                    continue
                if True:
                    return "refuted", "with %s: b finally holds %s, whose term %s depends on the secret without a fresh mask coefficient of the same sample" % (
                        ", ".join("%s = %d" % (sym.show(d), x) for d, x in env0.items()) or "no dimensions", concrete.show_poly(b_, 4),
                        "*".join(concrete.show_atom(a_) for a_ in m_))
            runs += 1
        return "masked", "%s: interpreted on %d assignments of %s: every secret-dependent term of b carries a fresh mask coefficient of the sample" % (
            f.name, runs, [sym.show(d) for d in dims])

    # ------------------------------------------------------------------ slot-wise coverage on a small grid
    def coverage(self, f, roots, cw, mos):
        """-> ("covered" | "refuted" | "unknown", detail)"""
        if not mos:
            return "refuted", "the value is written in clear and the object is never masked by %s" % f.name
        R = lambda t: bounds.apply_relations(self.v, t, roots, self.rel)

        def lin(slot):
            s = R(self.resolve_tables(slot, roots))
            while s[0] == "fld":            # the sample object that contains the written field
                s = s[1]
            if s[0] == "idx" and s[1][0] == "fld":
                return s[1], R(s[2])
            return None, None
        carr, cidx = lin(cw["slot"])
        if carr is None:
            return "unknown", "slot %s is not an element of an array field" % sym.show(cw["slot"])
        mlin = []
        for mo in mos:
            arr, ix = lin(sym.idx(mo["obj"], ZERO))
            if arr != carr:
                return "unknown", "masked object %s is not in the same array as %s" % (sym.show(mo["obj"]), sym.show(cw["slot"]))
            mlin.append((ix, mo))
        terms = [cidx] + [R(l[k]) for l in cw["loops"] for k in ("lo", "hi")] + [R(g) for g in cw["guards"]]
        for ix, mo in mlin:
            terms += [ix] + [R(l[k]) for l in mo["loops"] for k in ("lo", "hi")] + [R(g) for g in mo["guards"]]
        loopvars = {l["var"] for l in cw["loops"]} | {l["var"] for _, mo in mlin for l in mo["loops"]}
        dims = sorted({a for t in terms for a in sym.atoms(t) if a not in loopvars and a[0] in ("fld", "sym")
                       and not any(b != a and sym.contains(a, b) and b in loopvars for b in [])}, key=repr)
        dims = [d for d in dims if not any(sym.contains(d, lv) for lv in loopvars)]
        dims = [d for d in dims if not any(d2 != d and sym.contains(d2, d) and d2 in dims and d[0] == "sym" for d2 in dims)]
        if len(dims) > 4:
            return "unknown", "too many free dimensions %s" % [sym.show(d) for d in dims]

        def enum(loops, guards, ix, env, val=None):
            out = set()

            def go(k, env):
                if k == len(loops):
                    for g in guards:
                        gv = eval_term(R(g), env)
                        if gv is None:
                            raise ValueError("guard %s" % sym.show(g))
                        if not gv:
                            return
                    if val is not None:
                        vv = sym.subst(val, {a: I(x) for a, x in env.items()})
                        if vv == ZERO:
                            return
                    x = eval_term(ix, env)
                    if x is None:
                        raise ValueError("index %s" % sym.show(ix))
                    out.add(x)
                    return
                l = loops[k]
                lo, hi, st = eval_term(R(l["lo"]), env), eval_term(R(l["hi"]), env), sym.const_value(l["step"])
                if lo is None or hi is None or not st or st <= 0 or l["cmp"] not in ("<", "<="):
                    raise ValueError("loop at line %s" % l.get("l"))
                i = lo
                while (i < hi) if l["cmp"] == "<" else (i <= hi):
                    e2 = dict(env)
                    e2[l["var"]] = i
                    go(k + 1, e2)
                    i += st
            go(0, env)
            return out
        checked = 0
        try:
            for vals in itertools.product((1, 2, 3), repeat=len(dims)):
                env = dict(zip(dims, vals))
                tainted = enum(cw["loops"], cw["guards"], cidx, env, val=R(cw["val"]))
                masked = set()
                for ix, mo in mlin:
                    masked |= enum(mo["loops"], mo["guards"], ix, env)
                checked += 1
                left = sorted(tainted - masked)
                if left:
                    return "refuted", ("with %s: element %d of %s receives the secret-derived value %s in clear and is not among the %d elements "
                                       "masked afterwards (by %s at line %s)" % (
                                           ", ".join("%s = %d" % (sym.show(d), x) for d, x in env.items()), left[0], sym.show(carr),
                                           sym.show(cw["val"])[:80], len(masked), mlin[0][1]["via"], mlin[0][1]["line"]))
        except ValueError as e:
            return "unknown", "index sets not evaluable (%s)" % e
        return "covered", "%s: every element written in clear at line %s is masked afterwards on all %d grid points of %s (bounded evidence)" % (
            f.name, cw["line"], checked, [sym.show(d) for d in dims])
